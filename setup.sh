#!/bin/bash
# offline setup: compile the three extensions from /repo's working tree into /verif/.build (cached by content hash)
cd "$(dirname "$0")"
mkdir -p .build .scratch evidence replays
export PYTHONDONTWRITEBYTECODE=1
/venv/bin/python -W ignore -c "from mc import build; build.build(); print('build ok', build.info().get('build_key'))"
