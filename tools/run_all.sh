#!/bin/bash
# tools/run_all.sh <seed> <jobs> [tier] [outdir] : run every registered check; print one summary line each
seed=${1:-0}; jobs=${2:-4}; tier=${3:-quick}; out=${4:-/verif}
cd /verif
mkdir -p /tmp/wt/runall_$seed
seq -f "C%02g" 1 20 | xargs -P $jobs -I{} bash -c "VERIF_SEED=$seed VERIF_OUT=$out ./check {} --tier $tier > /tmp/wt/runall_$seed/{}.log 2>&1; echo {} rc=\$? \$(grep -c '^VIOLATION' /tmp/wt/runall_$seed/{}.log) violations, \$(grep -c '^KNOWN-FINDING' /tmp/wt/runall_$seed/{}.log) known, \$(grep -o 'wall=[0-9.]*s' /tmp/wt/runall_$seed/{}.log)"
