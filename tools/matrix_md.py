"""tools/matrix_md.py : markdown table of seeded/MATRIX.tsv (seeded change, what it is, verdict of the property's quick check, finding keys)"""
import json, os, re
rows = [l.rstrip('\n').split('\t') for l in open('/verif/seeded/MATRIX.tsv')]
print('| seeded change | what was changed | quick check | finding keys reported |')
print('|---|---|---|---|')
for sid, chk, rc, keys in rows:
    meta = json.load(open('/verif/seeded/%s/meta.json' % sid))
    s = re.sub(r'\s+', ' ', meta.get('summary', ''))
    s = re.split(r'(?<=[a-z\)])\. ', s)[0][:200].replace('|', '/')
    ks = [k for k in keys.split(',') if k][:3]
    print('| %s | %s | %s | %s |' % (sid, s, {'1': 'detected', '0': 'MISSED'}.get(rc, 'rc=' + rc), ', '.join('`%s`' % k for k in ks)))
