"""print the sub-agent prompt for one property:  python tools/agent_prompt.py C08 <worktree> [n_mutants]"""
import json, sys
pid, wt = sys.argv[1], sys.argv[2]
n = int(sys.argv[3]) if len(sys.argv) > 3 else 3
import glob, os, re
avoid = []
for d in sorted(glob.glob('/verif/seeded/%s_[mh]*' % pid)):
    try:
        summ = json.load(open(d + '/meta.json')).get('summary', '')
        avoid.append('   - ' + re.sub(r'\s+', ' ', summ)[:160])
    except Exception:
        pass
avoid_txt = ''
if avoid and os.environ.get('WAVE_AVOID', '1') == '1':
    avoid_txt = '\nALREADY DONE by others (do NOT repeat these sites or near-copies of them; pick other functions, branches, dimensions or mechanisms of the property):\n' + '\n'.join(avoid) + '\n'
for l in open('/verif/properties.jsonl'):
    p = json.loads(l)
    if p['id'] == pid:
        break
print(f"""You are helping to evaluate a verification effort by writing realistic *bugs*. You work ONLY inside the scratch git worktree {wt} (a checkout of the Python/C library "dadi", population-genetics inference via diffusion PDEs). Never touch /repo or /verif, never read anything under /verif.

PROPERTY ({p['id']}: {p['title']})
Statement: {p['statement']}
Quantified over: {p['quantifier']['text']}
Code it is anchored in: {', '.join(p['anchors']['files'])}
Mechanisms: {'; '.join(m['name'] + ' @ ' + m.get('where','') for m in p['anchors']['mechanism'])}

{avoid_txt}
TASK: produce {n} DIFFERENT source changes (mutants) to dadi, each of which
 (a) breaks the property above for some inputs, 
 (b) still imports/compiles, and keeps the ENTIRE existing test suite passing, and
 (c) needs something specific to manifest - an unusual input, a particular parameter regime, a multi-step sequence of calls, a particular order/history, or two cooperating sites that each look fine alone - NOT something ordinary use would expose at once. Make them look like realistic slips a maintainer could make (off-by-one in a window, wrong index/axis in one of several near-identical functions, cache key missing a component, a factor dropped in one branch, wrong corner, swapped arguments in one variant, missing copy, etc.). Spread the {n} mutants over different functions/mechanisms of the property.

ENVIRONMENT: no network. Python is /venv/bin/python (run with -W ignore). Run things with cwd={wt} so that `import dadi` picks up this worktree (check dadi.__file__). Full test suite: `cd {wt} && /venv/bin/python -W ignore -m pytest -q -p no:cacheprovider --timeout=900 -x` (takes about 4-6 minutes; all 93 tests pass on the unmodified tree; run the most relevant test files first for quick feedback, but the FULL suite must pass for each final mutant). If you edit any .c file under dadi/, run `{wt}/REBUILD.sh` to rebuild the extensions in place (Cython is NOT installed, so do not edit .pyx files).

DELIVERABLES, for i = 1..{n}, in {wt}/mutants/m<i>/ :
  - patch.diff : `git diff` of the change against HEAD (only files under dadi/), appliable with `git apply`
  - demo.py    : a small standalone program (its first lines must be `import sys, os; sys.path.insert(0, os.getcwd())` so that it imports the dadi of the current directory; run as `cd {wt} && /venv/bin/python -W ignore mutants/m<i>/demo.py`) that exits 0 / prints PASS on the unmodified tree and exits 1 / prints FAIL with the mutant applied, demonstrating the property violation through dadi's public API
  - meta.json  : {{"property": "{p['id']}", "summary": "...", "needs_to_manifest": "...", "files": [...], "tests_run": "command and result"}}
Do NOT use `git stash` (the stash is shared by all worktrees of the repository and other people work in sibling worktrees at the same time): save a change with `git diff > file`, drop it with `git checkout -- dadi`, restore it with `git apply file`. Work on one mutant at a time: apply, run full tests, write the deliverables, then `git checkout -- dadi` (and REBUILD.sh if C was touched) before starting the next. Leave the worktree with NO mutant applied at the end (git status clean except the mutants/ directory). Verify each demo.py both ways (with and without the patch). Finish with a short report listing the mutants and whether the full suite passed for each.""")
