#!/bin/bash
# tools/matrix.sh [jobs] : run every seeded change against the check of its own property (quick tier) in scratch worktrees; writes seeded/MATRIX.tsv
jobs=${1:-4}
cd /verif
mkdir -p /tmp/wt/matrix
ls seeded | grep -E '^C[0-9]+_[mh][0-9]+$' | while read sid; do [ -s /tmp/wt/matrix/$sid.tsv ] || echo $sid; done | xargs -P $jobs -I{} bash -c 'sid={}; chk=${sid%%_*}; out=$(tools/try_seeded.sh $sid $chk quick 2>&1); rc=$?; keys=$(echo "$out" | grep -E "^  key=" | sed -E "s/^  key=([^ ]+).*/\1/" | sort -u | head -5 | tr "\n" "," ); echo -e "$sid\t$chk\t$rc\t$keys" > /tmp/wt/matrix/$sid.tsv'
cat /tmp/wt/matrix/*.tsv | sort > seeded/MATRIX.tsv
awk -F'\t' '{n[$3]++} END{for(k in n) print "exit="k, n[k]}' seeded/MATRIX.tsv
