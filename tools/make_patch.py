"""tools/make_patch.py <repo-relative file> <out.diff>   (reads OLD\n====\nNEW from stdin) -> unified diff against /repo HEAD working tree"""
import sys, os, subprocess, tempfile, shutil
rel, out = sys.argv[1], sys.argv[2]
old, new = sys.stdin.read().split('\n====\n')
s = open('/repo/' + rel).read()
assert s.count(old) == 1, 'old text occurs %d times' % s.count(old)
d = tempfile.mkdtemp()
for side, txt in (('a', s), ('b', s.replace(old, new))):
    os.makedirs(os.path.join(d, side, os.path.dirname(rel)))
    open(os.path.join(d, side, rel), 'w').write(txt)
p = subprocess.run(['diff', '-u', 'a/' + rel, 'b/' + rel], cwd=d, stdout=subprocess.PIPE).stdout.decode()
open(out, 'w').write('diff --git a/%s b/%s\n' % (rel, rel) + p)
shutil.rmtree(d)
