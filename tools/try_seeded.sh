#!/bin/bash
# tools/try_seeded.sh <seed_id> <check> [tier]  : run a check against a scratch worktree with the seeded patch applied (never touches /repo)
sid=$1; chk=$2; tier=${3:-quick}
wt=/tmp/wt/try_${sid}_$$
git -C /repo worktree add --detach $wt HEAD >/dev/null 2>&1 || exit 3
for f in dadi/integration_c.c dadi/tridiag_cython.c dadi/DFE/PDFs_cython.c; do cp -p /repo/$f $wt/$f; done
(cd $wt && git apply /verif/seeded/$sid/patch.diff) || { echo "patch does not apply"; git -C /repo worktree remove --force $wt; exit 3; }
cd /verif && DADI_REPO=$wt VERIF_OUT=/tmp/wt/out_try_${sid}_$$ ./check $chk --tier $tier 2>&1 | grep -E "^VIOLATION|^  key|tier=|KNOWN|HARNESS" | cut -c1-300
rc=${PIPESTATUS[0]}
rm -rf /tmp/wt/out_try_${sid}_$$
git -C /repo worktree remove --force $wt
exit $rc
