#!/bin/bash
# tools/confirm_batch.sh <PROP> [prefix=a] [offset=0] [checks...]   confirm all mutants of /tmp/wt/<prefix>_<PROP>/mutants/m<i> in parallel
# (background); stored as seeded/<PROP>_m<i+offset>
p=$1; pre=${2:-a}; off=${3:-0}; shift; shift; shift
checks=${@:-$p}
for d in /tmp/wt/${pre}_$p/mutants/m*; do
  i=$(basename $d | tr -d m)
  sid=${p}_m$((i+off))
  (/venv/bin/python /verif/tools/confirm_mutant.py $d $sid $checks > /tmp/wt/confirm_$sid.log 2>&1 &)
done
