#!/bin/bash
# tools/confirm_batch.sh <PROP> [checks...]   confirm all mutants of /tmp/wt/a_<PROP>/mutants/* in parallel (background)
p=$1; shift
checks=${@:-$p}
for d in /tmp/wt/a_$p/mutants/m*; do
  m=$(basename $d)
  (/venv/bin/python /verif/tools/confirm_mutant.py $d ${p}_$m $checks > /tmp/wt/confirm_${p}_$m.log 2>&1 &)
done
