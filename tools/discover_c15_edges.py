"""tools/discover_c15_edges.py : derive candidate nesting edges of the model catalogue from the models' *programs*.

Every catalogue model is a straight-line program of PhiManip / Integration / from_phi calls.  With those calls replaced by recorders, a model run
with symbolic (sentinel) parameter values yields its program in microseconds.  For every model A and every reduction point (one epoch length set
to 0, one migration parameter set to 0, all migration parameters set to 0) the program of A - with zero-length integrations dropped, since they
return the density unchanged - is unified with the program of every other model B with fewer parameters.  Where the two programs are identical call
for call under a parameter map B.param <- A.param, the two models perform the same numerical calls, so "A at the reduction point == B" is a nesting
relation of exactly the kind C15 states.  The candidate edges are written to checks/C15_auto_edges.json; checks/C15.py evaluates each of them
numerically with the real library.  The file is data for the check: it is produced by this tool from a tree on which C15 passes and reviewed
against the docstrings, never at check time.
"""
import inspect
import itertools
import json
import os
import sys

sys.path.insert(0, '/verif')
from mc import build
build.install()
import numpy as np
import dadi
from checks import C15

INT_NAMES = ['one_pop', 'two_pops', 'three_pops', 'four_pops', 'five_pops']


class Recorder(object):
    def __init__(self):
        self.prog = []
        self.saved = []

    def install(self):
        I, PM = dadi.Integration, dadi.PhiManip
        for name in INT_NAMES:
            orig = getattr(I, name)
            self.saved.append((I, name, orig))
            setattr(I, name, self._int_stub(name, orig))
        for name, fn in list(vars(PM).items()):
            if callable(fn) and not name.startswith('_') and inspect.isfunction(fn) and fn.__module__ == PM.__name__:
                self.saved.append((PM, name, fn))
                setattr(PM, name, self._pm_stub(name, fn))
        S = dadi.Spectrum_mod.Spectrum
        for name in ('from_phi', 'from_phi_inbreeding'):
            orig = S.__dict__[name]
            self.saved.append((S, name, orig))
            setattr(S, name, staticmethod(self._fs_stub(name)))

    def uninstall(self):
        for obj, name, orig in reversed(self.saved):
            setattr(obj, name, orig)
        self.saved = []

    @staticmethod
    def _val(v, T=None):
        if callable(v):
            ts = (0.0, 0.5 * T, T) if T else (0.0,)
            return ('fn',) + tuple(float(v(t)) for t in ts)
        if isinstance(v, (bool, np.bool_)):
            return bool(v)
        if isinstance(v, (int, float, np.floating, np.integer)):
            return float(v)
        if v is None:
            return None
        if isinstance(v, (list, tuple)):
            return tuple(Recorder._val(x, T) for x in v)
        return ('obj', type(v).__name__)

    def _int_stub(self, name, orig):
        sig = inspect.signature(orig)

        def stub(*a, **kw):
            ba = sig.bind(*a, **kw)
            ba.apply_defaults()
            args = dict(ba.arguments)
            phi = args.pop('phi')
            args.pop('xx', None)
            T = args.pop('T')
            Tv = float(T)
            entry = ('int', name, Tv, tuple(sorted((k, self._val(v, Tv)) for k, v in args.items() if k not in ('enable_cuda_cached',))))
            if Tv != 0.0:
                self.prog.append(entry)
            return phi
        return stub

    def _pm_stub(self, name, orig):
        sig = inspect.signature(orig)

        def stub(*a, **kw):
            ba = sig.bind(*a, **kw)
            ba.apply_defaults()
            args = dict(ba.arguments)
            phi = args.get('phi')
            n = None
            for k, v in list(args.items()):
                if isinstance(v, np.ndarray):
                    if v.ndim == 1 and n is None:
                        n = len(v)
                    args.pop(k)
            self.prog.append(('pm', name, tuple(sorted((k, self._val(v)) for k, v in args.items()))))
            d_in = phi.ndim if isinstance(phi, np.ndarray) else 0
            if name.startswith('phi_1D') and '_to_' not in name:
                d_out = 1
            elif '_to_' in name:
                d_out = d_in + 1
            elif name == 'remove_pop':
                d_out = d_in - 1
            else:
                d_out = d_in
            return np.zeros((n,) * d_out)
        return stub

    def _fs_stub(self, name):
        def stub(phi, ns, xxs, *a, **kw):
            self.prog.append(('fs', name, tuple(int(x) for x in ns), tuple(self._val(x) for x in a), tuple(sorted((k, self._val(v)) for k, v in kw.items()))))
            return dadi.Spectrum(np.zeros(tuple(int(x) + 1 for x in ns)))
        return stub


def program(rec, f, values, d):
    rec.prog = []
    try:
        f(list(values), C15.NS[d], C15.PTS[d])
    except Exception as e:
        return None
    return tuple(rec.prog)


def sentinels(names, base):
    return {n: base + 0.0113 * (i + 1) for i, n in enumerate(names)}


def unify(PA, PBs, bsent):
    """PA concrete program (floats = A sentinels or constants), PBs program of B under its own sentinels -> dict bparam -> value, or None"""
    if len(PA) != len(PBs):
        return None
    inv = {v: k for k, v in bsent.items()}
    out = {}
    deferred = False

    def walk(x, y):
        nonlocal deferred
        if isinstance(y, tuple):
            if not isinstance(x, tuple) or len(x) != len(y):
                return False
            return all(walk(a, b) for a, b in zip(x, y))
        if isinstance(y, float) and y in inv:
            k = inv[y]
            if not isinstance(x, float):
                return False
            if k in out and out[k] != x:
                return False
            out[k] = x
            return True
        if isinstance(y, float) and isinstance(x, float) and y != x:
            deferred = True          # derived expression (1-s, nu*s, function samples ...): decided by the final re-run
            return True
        return x == y
    for ea, eb in zip(PA, PBs):
        if ea[0] != eb[0] or ea[1] != eb[1]:
            return None
        if not walk(ea[2:], eb[2:]):
            return None
    return out


def main():
    cat = C15.catalogue()
    rec = Recorder()
    rec.install()
    edges = []
    try:
        info = {}
        for name, (f, mod) in cat.items():
            d = C15.npop_of.__wrapped__(name, f) if hasattr(C15.npop_of, '__wrapped__') else None
            info[name] = (f, list(f.__param_names__))
    finally:
        rec.uninstall()
    # number of populations needs the real library
    npops = {name: C15.npop_of(name, f) for name, (f, mod) in cat.items()}
    rec.install()
    try:
        symb = {}
        for name, (f, names) in info.items():
            d = npops[name]
            if d is None:
                continue
            bs = sentinels(names, 0.31)
            symb[name] = (bs, program(rec, f, [bs[n] for n in names], d))
        for A, (fa, na) in sorted(info.items()):
            d = npops[A]
            if d is None or not na:
                continue
            asent = sentinels(na, 0.11)
            Ts = [n for n in na if n.startswith('T')]
            ms = [n for n in na if n.startswith('m')]
            reductions = [{t: 0.0} for t in Ts] + [{m: 0.0} for m in ms]
            if len(ms) > 1:
                reductions.append({m: 0.0 for m in ms})
            for a, b in itertools.combinations(Ts, 2):
                reductions.append({a: 0.0, b: 0.0})
            for red in reductions:
                vals = dict(asent)
                vals.update(red)
                PA = program(rec, fa, [vals[n] for n in na], d)
                if PA is None:
                    continue
                for B, (fb, nb) in sorted(info.items()):
                    if B == A or npops[B] != d or len(nb) >= len(na) or symb.get(B, (None, None))[1] is None:
                        continue
                    bsent, PBs = symb[B]
                    got = unify(PA, PBs, bsent)
                    if got is None:
                        continue
                    missing = [n for n in nb if n not in got]
                    cands = sorted(set(asent.values()))
                    if len(missing) > 2:
                        continue
                    for combo in itertools.product(cands, repeat=len(missing)):
                        qb = dict(got)
                        qb.update(dict(zip(missing, combo)))
                        PB = program(rec, fb, [qb[n] for n in nb], d)
                        if PB == PA:
                            inva = {v: k for k, v in asent.items()}
                            qb_s = {}
                            ok = True
                            for k, v in qb.items():
                                if v in inva:
                                    qb_s[k] = 'A:' + inva[v]
                                elif v == 0.0:
                                    qb_s[k] = 0.0
                                else:
                                    ok = False
                            if ok:
                                edges.append({'A': A, 'B': B, 'zero': sorted(red), 'qb': qb_s, 'npop': d})
                            break
    finally:
        rec.uninstall()
    # keep, for each (A, reduction), the B with the fewest parameters first; drop duplicates
    seen = set()
    out = []
    per = {}
    for e in sorted(edges, key=lambda e: (e['A'], e['zero'], len(info[e['B']][1]), e['B'])):
        key = (e['A'], tuple(e['zero']), e['B'])
        if key in seen:
            continue
        seen.add(key)
        # two counterparts per reduction point are kept (the ones with the fewest parameters); the rest follow by transitivity through the
        # counterparts' own edges
        k2 = (e['A'], tuple(e['zero']))
        per[k2] = per.get(k2, 0) + 1
        if per[k2] > 2:
            continue
        out.append(e)
    # numerical confirmation with the real library on the tree this tool is run against
    good = []
    for e in out:
        fa, na = info[e['A']]
        fb, nb = info[e['B']]
        ok = True
        for v in (0, 1):
            qa = {n: (0.0 if n in e['zero'] else C15.value_for(n, v)) for n in na}
            qb = {k: (qa[val[2:]] if isinstance(val, str) else val) for k, val in e['qb'].items()}
            try:
                a, b = C15.call(fa, na, qa, e['npop']), C15.call(fb, nb, qb, e['npop'])
                okc, err = C15.close(a, b, 1e-11)
            except Exception as ex:
                okc = False
            ok = ok and okc
        e['confirmed_on_clean_tree'] = bool(ok)
        if ok:
            good.append(e)
        else:
            print('NOT CONFIRMED numerically:', e)
    json.dump(good, open('/verif/checks/C15_auto_edges.json', 'w'), indent=0, sort_keys=True)
    print('candidate edges', len(out), 'confirmed', len(good))
    byA = {}
    for e in good:
        byA.setdefault(e['A'], []).append((tuple(e['zero']), e['B']))
    print('models with at least one auto edge:', len(byA), 'of', len(info))


if __name__ == '__main__':
    main()
