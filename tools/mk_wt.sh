#!/bin/bash
# tools/mk_wt.sh <name>  -> scratch git worktree of /repo HEAD at /tmp/wt/<name>, with the (git-ignored) generated C files and
# compiled extensions copied in so that it imports and the test suite runs there.
set -e
name=$1
dir=/tmp/wt/$name
mkdir -p /tmp/wt
git -C /repo worktree add --detach "$dir" HEAD >/dev/null 2>&1
cd /repo
for f in dadi/*.so dadi/DFE/*.so dadi/Triallele/*.so dadi/TwoLocus/*.so dadi/integration_c.c dadi/tridiag_cython.c dadi/DFE/PDFs_cython.c; do
  [ -e "$f" ] && cp -p "$f" "$dir/$f"
done
cat > "$dir/REBUILD.sh" <<'EOS'
#!/bin/bash
# rebuild the compiled extensions of THIS worktree in place after editing any .c file (Cython is not installed: .pyx edits cannot be rebuilt)
cd "$(dirname "$0")"
PYI=$(/venv/bin/python -W ignore -c "import sysconfig;print(sysconfig.get_paths()['include'])" 2>/dev/null | tail -1)
NPI=$(/venv/bin/python -W ignore -c "import numpy;print(numpy.get_include())" 2>/dev/null | tail -1)
SUF=$(/venv/bin/python -W ignore -c "import sysconfig;print(sysconfig.get_config_var('EXT_SUFFIX'))" 2>/dev/null | tail -1)
F="-O2 -fPIC -shared -w -fno-strict-aliasing -I$PYI -I$NPI -Idadi -Idadi/DFE"
gcc $F dadi/integration_c.c dadi/integration1D.c dadi/integration2D.c dadi/integration3D.c dadi/integration4D.c dadi/integration5D.c dadi/integration_shared.c dadi/tridiag.c -lm -o dadi/integration_c$SUF &&
gcc $F dadi/tridiag_cython.c dadi/tridiag.c -lm -o dadi/tridiag_cython$SUF &&
gcc $F dadi/DFE/PDFs_cython.c -lm -o dadi/DFE/PDFs_cython$SUF && echo rebuilt
EOS
chmod +x "$dir/REBUILD.sh"
echo "$dir"
