#!/bin/bash
# tools/run_thorough.sh [ids...] : thorough tier of each check, one after the other (each uses all cores); logs under /tmp/wt/thorough
cd /verif; mkdir -p /tmp/wt/thorough
ids=${@:-$(seq -f "C%02g" 1 20)}
for id in $ids; do
  VERIF_OUT=/tmp/wt/thorough/out ./check $id --tier thorough > /tmp/wt/thorough/$id.log 2>&1
  echo "$id rc=$? $(grep -c '^VIOLATION' /tmp/wt/thorough/$id.log) violations $(grep -c '^KNOWN-FINDING' /tmp/wt/thorough/$id.log) known $(grep -o 'wall=[0-9.]*s' /tmp/wt/thorough/$id.log) $(grep -o 'exhaustive=[A-Za-z]*' /tmp/wt/thorough/$id.log)" >> /tmp/wt/thorough/SUMMARY.txt
done
