"""tools/confirm_mutant.py <src_dir_with patch.diff demo.py meta.json> <seed_id> [checks...]
Confirm a sub-agent's mutant independently in a fresh scratch worktree of /repo HEAD:
  1. demo passes on the clean tree            2. patch applies, (C rebuilt), demo FAILS
  3. full pinned test suite passes with patch 4. run the named /verif checks (quick) against the patched worktree
Writes /verif/seeded/<seed_id>/{patch.diff,demo.py,meta.json} with what was run and observed; removes the worktree."""
import json, os, shutil, subprocess, sys, time
src, sid = sys.argv[1], sys.argv[2]
checks = sys.argv[3:]
skip_tests = os.environ.get('SKIP_TESTS') == '1'
wt = '/tmp/wt/confirm_%s' % sid
def sh(cmd, cwd=None, timeout=3600, env=None):
    e = dict(os.environ); e.update(env or {})
    p = subprocess.run(cmd, shell=True, cwd=cwd, stdout=subprocess.PIPE, stderr=subprocess.STDOUT, timeout=timeout, env=e)
    return p.returncode, p.stdout.decode(errors='replace')
subprocess.run('git -C /repo worktree remove --force %s' % wt, shell=True, stdout=subprocess.DEVNULL, stderr=subprocess.DEVNULL)
rc, out = sh('/verif/tools/mk_wt.sh confirm_%s' % sid)
assert rc == 0, out
res = {'seed_id': sid, 'source': src}
try:
    os.makedirs(wt + '/mutants/m', exist_ok=True)
    shutil.copy(src + '/demo.py', wt + '/mutants/m/demo.py')
    rc0, o0 = sh('/venv/bin/python -W ignore mutants/m/demo.py', cwd=wt, timeout=1800)
    res['demo_clean_rc'] = rc0
    rc, out = sh('git apply %s/patch.diff' % os.path.abspath(src), cwd=wt)
    res['apply_rc'] = rc
    if rc != 0:
        res['apply_out'] = out[-500:]
    touched_c = any(l.startswith('+++') and l.strip().endswith('.c') for l in open(src + '/patch.diff'))
    if touched_c:
        rc, out = sh('./REBUILD.sh', cwd=wt)
        res['rebuild_rc'] = rc
    rc1, o1 = sh('/venv/bin/python -W ignore mutants/m/demo.py', cwd=wt, timeout=1800)
    res['demo_mutant_rc'] = rc1
    res['demo_mutant_tail'] = o1[-300:]
    if not skip_tests:
        t = time.time()
        rc, out = sh('/venv/bin/python -W ignore -m pytest -q -p no:cacheprovider --timeout=900 --continue-on-collection-errors', cwd=wt, timeout=3000)
        res['tests_rc'] = rc
        res['tests_tail'] = out.strip().splitlines()[-1] if out.strip() else ''
        res['tests_wall_s'] = round(time.time() - t)
    res['checks'] = {}
    for c in checks:
        outdir = '/tmp/wt/out_%s_%s' % (sid, c)
        rc, out = sh('./check %s --tier quick' % c, cwd='/verif', env={'DADI_REPO': wt, 'VERIF_OUT': outdir}, timeout=3000)
        keys = [l.strip() for l in out.splitlines() if l.strip().startswith('key=')]
        res['checks'][c] = {'rc': rc, 'violation_lines': [l for l in out.splitlines() if l.startswith('VIOLATION')][:5], 'keys': [k[:200] for k in keys[:5]]}
        shutil.rmtree(outdir, ignore_errors=True)
finally:
    subprocess.run('git -C /repo worktree remove --force %s' % wt, shell=True, stdout=subprocess.DEVNULL, stderr=subprocess.DEVNULL)
ok = res.get('demo_clean_rc') == 0 and res.get('apply_rc') == 0 and res.get('demo_mutant_rc') not in (0, None) and (skip_tests or res.get('tests_rc') == 0)
res['confirmed'] = bool(ok)
res['detected_by'] = [c for c, v in res.get('checks', {}).items() if v['rc'] == 1]
dst = '/verif/seeded/%s' % sid
if ok:
    os.makedirs(dst, exist_ok=True)
    shutil.copy(src + '/patch.diff', dst + '/patch.diff')
    shutil.copy(src + '/demo.py', dst + '/demo.py')
    meta = {}
    try:
        meta = json.load(open(src + '/meta.json'))
    except Exception as e:
        meta = {'meta_error': str(e)}
    meta['confirmation'] = res
    json.dump(meta, open(dst + '/meta.json', 'w'), indent=1)
print(json.dumps(res, indent=1))
