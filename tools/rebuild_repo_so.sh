#!/bin/bash
# rebuild the compiled extensions of THIS worktree in place after editing any .c file (Cython is not installed: .pyx edits cannot be rebuilt)
cd /repo
PYI=$(/venv/bin/python -W ignore -c "import sysconfig;print(sysconfig.get_paths()['include'])" 2>/dev/null | tail -1)
NPI=$(/venv/bin/python -W ignore -c "import numpy;print(numpy.get_include())" 2>/dev/null | tail -1)
SUF=$(/venv/bin/python -W ignore -c "import sysconfig;print(sysconfig.get_config_var('EXT_SUFFIX'))" 2>/dev/null | tail -1)
F="-O2 -fPIC -shared -w -fno-strict-aliasing -I$PYI -I$NPI -Idadi -Idadi/DFE"
gcc $F dadi/integration_c.c dadi/integration1D.c dadi/integration2D.c dadi/integration3D.c dadi/integration4D.c dadi/integration5D.c dadi/integration_shared.c dadi/tridiag.c -lm -o dadi/integration_c$SUF &&
gcc $F dadi/tridiag_cython.c dadi/tridiag.c -lm -o dadi/tridiag_cython$SUF &&
gcc $F dadi/DFE/PDFs_cython.c -lm -o dadi/DFE/PDFs_cython$SUF && echo rebuilt
