import json,glob,sys
for f in sorted(glob.glob('/tmp/wt/confirm_*.log')):
    try:
        d=json.load(open(f))
        print(d['seed_id'], 'confirmed' if d['confirmed'] else 'NOT-CONFIRMED', 'detected_by=%s'%d['detected_by'], 'demo(clean,mut)=%s,%s'%(d.get('demo_clean_rc'),d.get('demo_mutant_rc')), 'tests=%s'%d.get('tests_tail','')[:40], {c:v['keys'][:2] for c,v in d['checks'].items()} if not d['detected_by'] else '')
    except Exception as e:
        print(f.split('/')[-1], 'running...')
