#!/bin/bash
# validate every evidence/*.json against the schema (tooling venv has jsonschema)
cd "$(dirname "$0")"
python3-vt - <<'PY'
import json,glob,jsonschema,sys
sch=json.load(open('/root/.vp/EVIDENCE.schema.json'))
bad=0
for f in sorted(glob.glob('evidence/*.json')):
    try:
        jsonschema.validate(json.load(open(f)),sch); print('ok',f)
    except Exception as e:
        bad=1; print('INVALID',f,str(e)[:300])
sys.exit(bad)
PY
