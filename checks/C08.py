"""C08 – projection is hypergeometric subsampling.

A. every weight _cached_projection(m, n, h)[j] for all 0<=h<=n, 1<=m<=n<=40 (thorough: n<=200 on an m lattice) vs
   exact integer binomials; queried in two orders, after a cache clear, and against the cache contents afterwards.
B. Spectrum.project as a linear operator: every unit spectrum x every target size vector (shapes d=1..4) vs the
   exact tensor product of hypergeometric rows; every singleton mask (image = support of its weight row), mask
   pairs (OR-homomorphism); totals conserved; 1/i fixed point; upward refused.
C. BFS over {project axis a to m, fold, unfold}: two-stage = one-stage, any axis order, folded = fold.project.unfold
   – states are merged by the exact reference value, and the implementation's value along every path into a merged
   state must agree.
"""
import itertools
from fractions import Fraction
from math import comb

import numpy as np

from mc import explore
from mc.refs import spectrum as RS

LEVEL = 'model_checking'


# ------------------------------------------------------------------------------------------------ A
def case_weights(col, p):
    import dadi
    from dadi import Numerics
    n = p['n']
    ms = p['ms']
    rel_tol = 1e-12 if n <= 40 else 1e-10
    if p.get('clear', True):
        Numerics._projection_cache.clear()
    first = {}
    order1 = [(m, h) for m in ms for h in range(n + 1)]
    order2 = [(m, h) for h in range(n, -1, -1) for m in reversed(ms)]
    worst = 0.0
    for m, h in order1:
        w = np.array(Numerics._cached_projection(m, n, h), dtype=float)
        col.tick(transitions=1)
        first[(m, h)] = w.copy()
        if w.shape != (m + 1,):
            col.violation('C08:_cached_projection:shape', dict(p, m=m, h=h), str(w.shape))
            continue
        cnh = comb(n, h)
        for j in range(m + 1):
            if j > h or h - j > n - m:
                ex = 0.0
            else:
                ex = comb(m, j) * comb(n - m, h - j) / cnh
            got = float(w[j])
            if ex == 0.0:
                if got != 0.0:
                    col.violation('C08:_cached_projection:weight_outside_window', dict(p, m=m, h=h, j=j), {'got': got})
                continue
            err = abs(got - ex) / ex
            if not err <= rel_tol:
                if ex < 1e-290:
                    continue
                col.violation('C08:_cached_projection:weight', dict(p, m=m, h=h, j=j), {'got': got, 'exact': ex, 'relerr': err})
            else:
                worst = max(worst, err / rel_tol)
        col.tick(weights=m + 1)
        s = float(w.sum())
        if abs(s - 1.0) > 1e-10:
            col.violation('C08:_cached_projection:row_sum', dict(p, m=m, h=h), {'sum': s})
    col.observe('weight_rel', worst)
    # second order (cache warm): bitwise equal
    for m, h in order2:
        w = Numerics._cached_projection(m, n, h)
        col.tick(transitions=1)
        if not np.array_equal(np.asarray(w), first[(m, h)]):
            col.violation('C08:_cached_projection:history_dependent', dict(p, m=m, h=h), 'value differs when queried in another order')
    # cold again, other order first: bitwise equal
    Numerics._projection_cache.clear()
    for m, h in order2:
        w = Numerics._cached_projection(m, n, h)
        col.tick(transitions=1)
        if not np.array_equal(np.asarray(w), first[(m, h)]):
            col.violation('C08:_cached_projection:history_dependent', dict(p, m=m, h=h), 'value differs after cache clear / other order')
    col.distinct('nontrivial', ('w', n, tuple(ms)))
    col.tick(states=len(order1))


# ------------------------------------------------------------------------------------------------ B
def _exact_row_table(n, m):
    return [[RS.hyper_w(n, m, h, j) for j in range(m + 1)] for h in range(n + 1)]


def case_operator(col, p):
    """shape (sample sizes) x one target vector: all unit spectra, all singleton masks"""
    import dadi
    ns_from, ns_to = tuple(p['from']), tuple(p['to'])
    shape = tuple(n + 1 for n in ns_from)
    tables = [_exact_row_table(n, m) for n, m in zip(ns_from, ns_to)]
    dense = 1.0 + np.arange(int(np.prod(shape)), dtype=float).reshape(shape) / 8.0
    worst = 0.0
    for idx in np.ndindex(*shape):
        data = np.zeros(shape)
        data[idx] = 1.0
        fs = dadi.Spectrum(data, mask_corners=False, pop_ids=['p%d' % i for i in range(len(shape))])
        out = fs.project(list(ns_to))
        col.tick(transitions=1)
        if out.shape != tuple(m + 1 for m in ns_to):
            col.violation('C08:project:shape', dict(p, unit=idx), str(out.shape))
            continue
        if out.pop_ids != fs.pop_ids or out.folded:
            col.violation('C08:project:labels', dict(p, unit=idx), {'pop_ids': out.pop_ids, 'folded': out.folded})
        if np.ma.getmaskarray(out).any():
            col.violation('C08:project:mask_from_nothing', dict(p, unit=idx), 'unmasked input produced masked output')
        od = np.asarray(out.data)
        # exact tensor product of rows
        rows = [tables[a][idx[a]] for a in range(len(shape))]
        ex = np.array(1.0).reshape(())
        exf = np.ones((), dtype=float)
        ex = np.array([float(v) for v in rows[0]])
        for r in rows[1:]:
            ex = np.multiply.outer(ex, np.array([float(v) for v in r]))
        err = np.abs(od - ex).max()
        if not err <= 1e-12:
            col.violation('C08:project:operator', dict(p, unit=idx), {'maxerr': float(err)})
        worst = max(worst, err / 1e-12)
        if abs(od.sum() - 1.0) > 1e-12:
            col.violation('C08:project:total', dict(p, unit=idx), {'total': float(od.sum())})
        # the projection is linear: a negative entry (residuals, differences of spectra, bias-corrected counts) projects to minus the row
        outn = dadi.Spectrum(-2.5 * data, mask_corners=False).project(list(ns_to))
        col.tick(transitions=1)
        if not float(np.abs(np.asarray(outn.data) + 2.5 * ex).max()) <= 1e-12 * 2.5:
            col.violation('C08:project:negative_entries', dict(p, unit=idx), {'maxerr': float(np.abs(np.asarray(outn.data) + 2.5 * ex).max())})
        # the same OBJECT changed in place and projected again (a second call must see the new contents)
        fs *= 3.0
        fs.mask[idx] = False
        out2 = fs.project(list(ns_to))
        col.tick(transitions=1)
        if not float(np.abs(np.asarray(out2.data) - 3.0 * ex).max()) <= 3e-12:
            col.violation('C08:project:stale_after_inplace_change', dict(p, unit=idx, change='fs *= 3'), {'maxerr': float(np.abs(np.asarray(out2.data) - 3.0 * ex).max())})
        fs.mask[idx] = True
        out3 = fs.project(list(ns_to))
        col.tick(transitions=1)
        exm3 = np.array([v != 0 for v in rows[0]])
        for r in rows[1:]:
            exm3 = np.logical_and.outer(exm3, np.array([v != 0 for v in r]))
        if not np.array_equal(np.ma.getmaskarray(out3), exm3):
            col.violation('C08:project:stale_after_inplace_change', dict(p, unit=idx, change='entry masked'), '')
        # singleton mask: image = support of the weight row
        mask = np.zeros(shape, dtype=bool)
        mask[idx] = True
        fsm = dadi.Spectrum(dense.copy(), mask=mask, mask_corners=False)
        outm = fsm.project(list(ns_to))
        col.tick(transitions=1)
        exm = np.array([v != 0 for v in rows[0]])
        for r in rows[1:]:
            exm = np.logical_and.outer(exm, np.array([v != 0 for v in r]))
        gm = np.ma.getmaskarray(outm)
        if not np.array_equal(gm, exm):
            col.violation('C08:project:mask_image', dict(p, masked=idx), {'got': gm.astype(int), 'expected': exm.astype(int)})
        # the mask image must not depend on the data: same singleton mask over an all-zero spectrum
        outz = dadi.Spectrum(np.zeros(shape), mask=mask, mask_corners=False).project(list(ns_to))
        col.tick(transitions=1)
        if not np.array_equal(np.ma.getmaskarray(outz), exm):
            col.violation('C08:project:mask_image_zero_data', dict(p, masked=idx), {'got': np.ma.getmaskarray(outz).astype(int), 'expected': exm.astype(int)})
    col.observe('operator_abs', worst)
    col.tick(states=int(np.prod(shape)))
    col.distinct('nontrivial', ('op', ns_from, ns_to))


def case_count_dict(col, p):
    """from_data_dict with the corners kept: every configuration of calls in two analysed populations (also the ones monomorphic in both: sites
    private to a third population, invariant sites) lands on its hypergeometric row, corners included"""
    import dadi
    nA, nB = p['ns']
    dd = {}
    k = 0
    for a in range(nA + 1):
        for b in range(nB + 1):
            for rep in range(1 + (a + b) % 2):
                dd['s%d' % k] = {'segregating': ['A', 'T'], 'calls': {'A': (nA - a, a), 'B': (nB - b, b), 'C': (1, 1)}, 'outgroup_allele': 'A',
                                 'context': '-A-', 'outgroup_context': '-A-'}
                k += 1
    n = 0
    for mA in range(1, nA + 1):
        for mB in range(1, nB + 1):
            fs = dadi.Spectrum.from_data_dict(dd, ['A', 'B'], [mA, mB], mask_corners=False)
            col.tick(transitions=1)
            n += 1
            tA, tB = _exact_row_table(nA, mA), _exact_row_table(nB, mB)
            ex = np.zeros((mA + 1, mB + 1))
            for a in range(nA + 1):
                for b in range(nB + 1):
                    w = 1 + (a + b) % 2
                    ex += w * np.multiply.outer(np.array([float(v) for v in tA[a]]), np.array([float(v) for v in tB[b]]))
            gd = np.asarray(fs.data)
            if gd.shape != ex.shape or not float(np.abs(gd - ex).max()) <= 1e-11 or np.ma.getmaskarray(fs).any():
                col.violation('C08:from_data_dict:corners_kept', dict(p, proj=(mA, mB)),
                              {'maxerr': float(np.abs(gd - ex).max()) if gd.shape == ex.shape else 'shape', 'corner_got': float(gd.flat[0]), 'corner_exp': float(ex.flat[0])})
    col.tick(states=n, traces=n)
    col.distinct('nontrivial', ('count_dict', nA, nB))


def case_maskpairs(col, p):
    """OR-homomorphism: mask(project(x | y)) == mask(project x) | mask(project y) for all pairs of singleton masks"""
    import dadi
    ns_from, ns_to = tuple(p['from']), tuple(p['to'])
    shape = tuple(n + 1 for n in ns_from)
    dense = 1.0 + np.arange(int(np.prod(shape)), dtype=float).reshape(shape)
    single = {}
    idxs = list(np.ndindex(*shape))
    for idx in idxs:
        mask = np.zeros(shape, dtype=bool)
        mask[idx] = True
        single[idx] = np.ma.getmaskarray(dadi.Spectrum(dense, mask=mask, mask_corners=False).project(list(ns_to))).copy()
    for a, b in itertools.combinations(idxs, 2):
        mask = np.zeros(shape, dtype=bool)
        mask[a] = mask[b] = True
        got = np.ma.getmaskarray(dadi.Spectrum(dense, mask=mask, mask_corners=False).project(list(ns_to)))
        col.tick(transitions=1)
        if not np.array_equal(got, single[a] | single[b]):
            col.violation('C08:project:mask_not_or_homomorphic', dict(p, a=a, b=b), {'got': got.astype(int)})
    # everything masked / nothing masked
    allm = np.ma.getmaskarray(dadi.Spectrum(dense, mask=np.ones(shape, bool), mask_corners=False).project(list(ns_to)))
    if not allm.all():
        col.violation('C08:project:mask_all', p, 'fully masked input gives partly unmasked output')
    col.tick(states=len(idxs) * (len(idxs) - 1) // 2)
    col.distinct('nontrivial', ('pairs', ns_from, ns_to))


def case_misc(col, p):
    import dadi
    what = p['what']
    if what == 'neutral_fixed_point':
        n = p['n']
        fs = dadi.Spectrum([0] + [1.0 / i for i in range(1, n)] + [0])
        for m in range(2, n + 1):
            out = fs.project([m])
            col.tick(transitions=1)
            ex = np.array([1.0 / i for i in range(1, m)])
            got = np.asarray(out.data)[1:m]
            if np.abs(got / ex - 1).max() > 1e-11:
                col.violation('C08:project:neutral_fixed_point', dict(p, m=m), {'maxrel': float(np.abs(got / ex - 1).max())})
            if not (out.mask[0] and out.mask[m] and not out.mask[1:m].any()):
                col.violation('C08:project:neutral_mask', dict(p, m=m), {'mask': np.ma.getmaskarray(out).astype(int)})
        col.tick(states=n - 1)
    elif what == 'upward':
        for ns_from, ns_to in (((3,), (4,)), ((3, 4), (3, 5)), ((3, 4), (4, 4)), ((2, 2, 2), (2, 3, 1)), ((3, 4), (2,)), ((3,), (2, 2))):
            fs = dadi.Spectrum(np.ones(tuple(n + 1 for n in ns_from)))
            try:
                fs.project(list(ns_to))
                col.violation('C08:project:upward_accepted', dict(p, frm=ns_from, to=ns_to), 'no exception')
            except ValueError:
                pass
            except Exception as e:
                col.violation('C08:project:upward_wrong_exception', dict(p, frm=ns_from, to=ns_to), repr(e))
            col.tick(transitions=1)
        col.tick(states=6)
    elif what == 'mask_window':
        # a masked source entry h masks exactly the targets j it contributes to, j in [max(0, m-(n-h)), min(m, h)], however small the weight;
        # for large samples the weights at the ends of the window are far below machine epsilon
        n = p['n']
        cnt = 0
        for m in sorted(set([1, 2, n // 3, n // 2, n - 1, n])):
            for h in sorted(set([0, 1, 2, n // 4, n // 2, n - 2, n - 1, n])):
                fs = dadi.Spectrum(np.ones(n + 1), mask_corners=False)
                fs.mask[h] = True
                out = fs.project([m])
                col.tick(transitions=1)
                cnt += 1
                lo, hi = max(0, m - (n - h)), min(m, h)
                ex = np.zeros(m + 1, bool)
                ex[lo:hi + 1] = True
                got = np.ma.getmaskarray(out)
                if not np.array_equal(got, ex):
                    col.violation('C08:project:mask_window', dict(p, m=m, h=h), {'unmasked_inside_window': [int(j) for j in np.where(ex & ~got)[0]][:10],
                                                                                 'masked_outside_window': [int(j) for j in np.where(got & ~ex)[0]][:10]})
        # many masked source entries at once (a block of the high-frequency classes): the target mask is the union of their windows
        for m in sorted(set([max(1, n // 10), n // 3, n - 1])):
            for lo_ in sorted(set([1, n // 3, n - 2])):
                fs = dadi.Spectrum(np.ones(n + 1), mask_corners=False)
                fs.mask[lo_:] = True
                got = np.ma.getmaskarray(fs.project([m]))
                col.tick(transitions=1)
                ex = np.zeros(m + 1, bool)
                for h in range(lo_, n + 1):
                    ex[max(0, m - (n - h)):min(m, h) + 1] = True
                if not np.array_equal(got, ex):
                    col.violation('C08:project:mask_window', dict(p, m=m, masked_from=lo_), {'unmasked_inside_union': [int(j) for j in np.where(ex & ~got)[0]][:10],
                                                                                           'masked_outside_union': [int(j) for j in np.where(got & ~ex)[0]][:10]})
        # two dimensions, one large axis
        fs = dadi.Spectrum(np.ones((n + 1, 4)), mask_corners=False)
        fs.mask[n // 2, 1] = True
        out = fs.project([n // 2, 3])
        got = np.ma.getmaskarray(out)
        ex = np.zeros((n // 2 + 1, 4), bool)
        ex[max(0, n // 2 - (n - n // 2)):min(n // 2, n // 2) + 1, 1] = True
        col.tick(transitions=1)
        if not np.array_equal(got, ex):
            col.violation('C08:project:mask_window', dict(p, m=[n // 2, 3], h=[n // 2, 1]), {'masked': int(got.sum()), 'expected': int(ex.sum())})
        col.tick(states=cnt + 1)
    elif what == 'upward_weights':
        # a target larger than the number of chromosomes called: no weight at all, whatever the number of derived alleles (the site is dropped)
        from dadi import Numerics
        for n_ in range(0, 9):
            for m_ in range(n_ + 1, 11):
                for h_ in range(n_ + 1):
                    w = np.asarray(Numerics._cached_projection(m_, n_, h_), dtype=float)
                    col.tick(transitions=1)
                    if w.shape != (m_ + 1,) or np.any(w != 0):
                        col.violation('C08:_cached_projection:upward_projection_has_weight', dict(p, m=m_, n=n_, h=h_), {'weights': w})
    elif what == 'lowpass_subsample':
        # the low-pass subsampling step under EVERY answer of its random source: each k-subset of the called genotypes is reachable, also when
        # every individual was called (subsampling is a draw without replacement, not 'the first k of the sorted genotypes')
        import itertools
        import dadi.LowPass.LowPass as LP
        from checks.C18 import _EnvRng
        old_rng = LP.rng
        try:
            for row, nsub_ in (([0, 0, 0, 2], 4), ([0, 1, 2], 2), ([0, 2, 2, 1, 99], 4), ([1, 1, 0, 99, 99], 2)):
                G = np.array([row], dtype=int)
                called = [g for g in row if g != 99]
                k_ = nsub_ // 2
                reach = set()
                nperm = len(list(itertools.permutations(range(len(called)))))
                for ans in range(nperm):
                    LP.rng = _EnvRng([ans])
                    out = LP.subsample_genotypes_1D(G.copy(), nsub_)
                    col.tick(transitions=1)
                    reach.add(tuple(sorted(int(v) for v in out[0])))
                want = set(tuple(sorted(c)) for c in itertools.combinations(called, k_))
                if reach != want:
                    col.violation('C08:lowpass_subsample:not_every_subset_reachable', dict(p, genotypes=row, nsub=nsub_),
                                  {'reachable': sorted(reach), 'expected': sorted(want)})
        finally:
            LP.rng = old_rng
    elif what == 'lowpass_symmetry':
        # the low-pass subsampling matrix (with or without inbreeding): relabelling the alleles mirrors it, and the expected derived count
        # is preserved in proportion (h * nsub / n) - subsampling individuals has no preferred allele
        import dadi.LowPass.LowPass as LP
        for n_ in (4, 6, 8):
            for nsub_ in range(2, n_ + 1, 2):
                for F in (0, 0.1, 0.5, 0.9):
                    M = np.asarray(LP.projection_matrix(n_, nsub_, F), dtype=float)
                    col.tick(transitions=1)
                    if not np.allclose(M, M[::-1, ::-1], rtol=0, atol=1e-10):
                        col.violation('C08:lowpass_projection_matrix:not_mirror_symmetric', dict(p, n=n_, nsub=nsub_, F=F),
                                      {'maxdiff': float(np.abs(M - M[::-1, ::-1]).max())})
                    mean = M @ np.arange(nsub_ + 1)
                    ex = np.arange(n_ + 1) * nsub_ / float(n_)
                    if not np.allclose(mean, ex, rtol=0, atol=1e-9):
                        col.violation('C08:lowpass_projection_matrix:expected_count', dict(p, n=n_, nsub=nsub_, F=F), {'got': mean, 'exp': ex})
    elif what == 'lowpass_deep':
        # the low-pass wrapper with every individual deeply covered is the plain projection, for 1-3 populations (incl. equal sizes in pops 2,3)
        from dadi.LowPass import LowPass as LP
        cov = np.zeros((2, 81)); cov[0] = np.arange(81); cov[1, 80] = 1.0
        for nseq, nsub in (((4,), (2,)), ((4, 4), (2, 4)), ((4, 2, 2), (2, 2, 2)), ((2, 4, 4), (2, 2, 4)), ((4, 4, 4), (2, 4, 2))):
            pops = ['pop%d' % k for k in range(len(nseq))]
            shape = tuple(x + 1 for x in nseq)
            data = (1.0 + (np.arange(int(np.prod(shape))) * 7 % 11).reshape(shape)) / 4.0
            data.flat[0] = 0.0

            def model(params, ns_, pts):
                return dadi.Spectrum(data.copy(), mask_corners=False)
            f = LP.make_low_pass_func_GATK_multisample(model, {q: cov for q in pops}, pops, list(nseq), list(nsub), sim_threshold=1e-2, Fx=[0] * len(nseq))
            try:
                out = np.asarray(getattr(f(None, list(nsub), None), 'data', None), dtype=float)
            except Exception as e:
                col.violation('C08:lowpass:deep_coverage:raises', dict(p, nseq=nseq, nsub=nsub), '%s: %s' % (type(e).__name__, str(e)[:200]))
                continue
            col.tick(transitions=1)
            ex = np.asarray(dadi.Spectrum(data.copy(), mask_corners=False).project(list(nsub)).data)
            if out.shape != ex.shape or not np.allclose(out, ex, rtol=0, atol=1e-9):
                col.violation('C08:lowpass:deep_coverage_not_projection', dict(p, nseq=nseq, nsub=nsub),
                              {'maxdiff': float(np.abs(out - ex).max()) if out.shape == ex.shape else 'shape'})
        col.tick(states=5)
    col.distinct('nontrivial', ('misc', what, p.get('n')))


# ------------------------------------------------------------------------------------------------ C
def case_bfs(col, p):
    """explicit-state BFS over {project(axis, m), fold, unfold} from a start spectrum (dense data + one masked entry);
    canonical state = exact reference (Fractions + mask + folded flag)."""
    import dadi
    ns0 = tuple(p['from'])
    shape = tuple(n + 1 for n in ns0)
    data0 = (1.0 + (np.arange(int(np.prod(shape))) * 7 % 11).reshape(shape)) / 4.0   # dyadic -> exact in Fractions
    mask0 = np.zeros(shape, dtype=bool)
    # dadi's convention: the two corners (absent / fixed everywhere) are always masked; fold() and unfold() re-mask
    # them unconditionally, so the BFS starts from spectra that follow the convention
    mask0[(0,) * len(shape)] = True
    mask0[tuple(s - 1 for s in shape)] = True
    if p.get('masked') is not None:
        mask0[tuple(p['masked'])] = True
    impl0 = dadi.Spectrum(data0.copy(), mask=mask0.copy(), mask_corners=False)
    ref0 = (RS.fr_array(data0), mask0.copy(), False)
    depth = p['depth']

    def enabled(state):
        impl, ref = state
        ops = []
        cur = tuple(s - 1 for s in ref[0].shape)
        for a, n in enumerate(cur):
            for m in range(max(1, n - 2), n):
                ops.append(('proj', a, m))
        ops.append(('fold',) if not ref[2] else ('unfold',))
        return ops

    def step(state, op):
        impl, ref = state
        d, m, folded = ref
        if op[0] == 'proj':
            cur = [s - 1 for s in d.shape]
            cur[op[1]] = op[2]
            ni = impl.project(cur)
            if folded:
                ud, um = RS.unfold(d, m)
                pd, pm = RS.project(ud, um, cur)
                nd, nm = RS.fold(pd, pm)
            else:
                nd, nm = RS.project(d, m, cur)
            nref = (nd, nm, folded)
        elif op[0] == 'fold':
            ni = impl.fold()
            nd, nm = RS.fold(d, m)
            nref = (nd, nm, True)
        else:
            ni = impl.unfold()
            nd, nm = RS.unfold(d, m)
            nref = (nd, nm, False)
        col.tick(transitions=1)
        return (ni, nref)

    def canon(state):
        d, m, folded = state[1]
        return (d.shape, tuple(d.flat), tuple(m.flat), folded)

    def compare(state, path, other_impl=None):
        impl, (d, m, folded) = state
        gd = np.asarray(impl.data, dtype=float)
        gm = np.ma.getmaskarray(impl)
        ex = RS.to_float(d)
        if gd.shape != ex.shape:
            col.violation('C08:bfs:shape', dict(p, path=path), {'got': gd.shape, 'exp': ex.shape})
            return
        if bool(impl.folded) != folded:
            col.violation('C08:bfs:folded_flag', dict(p, path=path), {'got': bool(impl.folded)})
        unm = ~m
        if not np.array_equal(gm, m):
            col.violation('C08:bfs:mask', dict(p, path=path), {'got': gm.astype(int), 'exp': m.astype(int)})
            return
        err = np.abs(gd - ex)[unm].max() if unm.any() else 0.0
        scale = max(1.0, np.abs(ex).max())
        if not err <= 1e-12 * scale:
            col.violation('C08:bfs:value', dict(p, path=path), {'maxerr': float(err), 'scale': scale})
        col.observe('bfs_value', err / (1e-12 * scale))
        # totals conserved over unmasked+masked data for unmasked runs
        if other_impl is not None:
            od = np.asarray(other_impl.data, dtype=float)
            e2 = np.abs(od - gd)[unm].max() if unm.any() else 0.0
            if not e2 <= 2e-12 * scale:
                col.violation('C08:bfs:paths_disagree', dict(p, path=path), {'maxdiff': float(e2)})
            col.tick(merged_path_comparisons=1)

    res = explore.bfs([(impl0, ref0)], enabled, step, canon,
                      on_state=lambda s, d, path: compare(s, path),
                      on_transition=lambda s, op, ns, path, prev: compare(ns, path, prev[0] if prev else None),
                      max_depth=depth)
    col.tick(states=res['states'], traces=res['transitions'])
    col.distinct('nontrivial', ('bfs', ns0, tuple(p.get('masked') or ())))
    col.observe('bfs_depth', res['max_depth'])


def _cache_ok(col, p, path):
    """invariant: every entry of Numerics._projection_cache equals the exact weights"""
    from dadi import Numerics
    bad = None
    for (m, n, h), w in list(Numerics._projection_cache.items()):
        m, n, h = int(m), int(n), int(h)
        if n < m:
            ex = np.zeros(m + 1)
        else:
            ex = np.array([float(RS.hyper_w(n, m, h, j)) for j in range(m + 1)])
        if np.shape(w) != ex.shape or not np.allclose(np.asarray(w, dtype=float), ex, rtol=1e-11, atol=1e-300):
            bad = {'key': (m, n, h), 'cached': np.asarray(w, dtype=float), 'exact': ex}
            break
    if bad:
        col.violation('C08:projection_cache:corrupted', dict(p, path=path), bad)
        Numerics._projection_cache.clear()
    return bad is None


def _lp_exact(nseq, nsub):
    return np.array([[float(RS.hyper_w(nseq, nsub, h, j)) for j in range(nsub + 1)] for h in range(nseq + 1)])


def case_cache_history(col, p):
    """all sequences (depth <= D) of operations that read the shared projection cache; after each one the cache must still
    hold exact weights and a fresh projection must be exact (memoisation is transparent)"""
    import dadi
    from dadi import Numerics
    import dadi.LowPass.LowPass as LP

    def dd(npop, repeat):
        d = {}
        for i in range(repeat):
            calls = {'A': (3, 3)} if npop == 1 else {'A': (3, 3), 'B': (4, 2)}
            d['snp%d' % i] = {'segregating': ['A', 'T'], 'calls': calls, 'outgroup_allele': 'A', 'context': '-A-', 'outgroup_context': '-A-'}
        return d

    def op_project():
        fs = dadi.Spectrum(np.arange(7.0))
        out = fs.project([4])
        ex, _ = RS.project(RS.fr_array(np.arange(7.0)), np.zeros(7, bool), [4])
        return np.allclose(np.asarray(out.data), RS.to_float(ex), rtol=0, atol=1e-12)

    def op_dd1():
        fs = dadi.Spectrum.from_data_dict(dd(1, 3), ['A'], [4])
        ex = np.array([3 * float(RS.hyper_w(6, 4, 3, j)) for j in range(5)])
        return np.allclose(np.asarray(fs.data), ex, rtol=0, atol=1e-12)

    def op_dd2():
        fs = dadi.Spectrum.from_data_dict(dd(2, 2), ['A', 'B'], [4, 3])
        ex = 2 * np.outer([float(RS.hyper_w(6, 4, 3, j)) for j in range(5)], [float(RS.hyper_w(6, 3, 2, j)) for j in range(4)])
        return np.allclose(np.asarray(fs.data), ex, rtol=0, atol=1e-12)

    def op_dd1_unpol():
        fs = dadi.Spectrum.from_data_dict(dd(1, 2), ['A'], [4], polarized=False)
        return abs(float(np.asarray(fs.data)[~np.ma.getmaskarray(fs)].sum()) - 2 * (1 - float(RS.hyper_w(6, 4, 3, 0)) - float(RS.hyper_w(6, 4, 3, 4)))) < 1e-12

    def op_lp0():
        return np.allclose(LP.projection_matrix(6, 4, 0), _lp_exact(6, 4), rtol=0, atol=1e-12)

    def op_lpF():
        M = LP.projection_matrix(6, 4, 0.5)
        return np.allclose(M.sum(axis=1), 1.0, atol=1e-12) and not np.allclose(M, _lp_exact(6, 4), atol=1e-6)

    def op_scale_result():
        # a caller scaling the weights it was handed must not disturb later callers
        w = Numerics._cached_projection(4, 6, 3)
        r = w * 3.0
        return r is not w

    OPS = {'project': op_project, 'dd1': op_dd1, 'dd2': op_dd2, 'dd1_unpol': op_dd1_unpol, 'lp_F0': op_lp0, 'lp_F.5': op_lpF, 'scale': op_scale_result}
    names = list(OPS)
    n = 0
    for depth in range(1, p['depth'] + 1):
        for seq in itertools.product(names, repeat=depth):
            Numerics._projection_cache.clear()
            for attr in ('_cache', '_proj_cache', '_projection_matrix_cache'):
                c = getattr(LP, attr, None)
                if isinstance(c, dict):
                    c.clear()
            okseq = True
            for i, name in enumerate(seq):
                try:
                    good = OPS[name]()
                except Exception as e:
                    col.violation('C08:cache_history:raises', dict(p, seq=seq, at=i), '%s: %s' % (type(e).__name__, e))
                    okseq = False
                    break
                col.tick(transitions=1)
                if not good:
                    col.violation('C08:cache_history:result_depends_on_history', dict(p, seq=seq, at=i), 'operation %s returned a wrong value after %s' % (name, list(seq[:i])))
                    okseq = False
                    break
                if not _cache_ok(col, p, seq[:i + 1]):
                    okseq = False
                    break
            n += 1
    col.tick(states=n, traces=n)
    col.distinct('nontrivial', ('cache_history', p['depth']))


CASES = {'count_dict': case_count_dict, 'cache_history': case_cache_history, 'weights': case_weights, 'operator': case_operator, 'maskpairs': case_maskpairs, 'misc': case_misc, 'bfs': case_bfs}


def _dispatch(col, case):
    CASES[case['kind']](col, case)


def replay(ctx, case):
    _dispatch(ctx, case)


def run(ctx):
    cases = []
    # A
    for n in range(1, 41):
        cases.append({'kind': 'weights', 'n': n, 'ms': list(range(1, n + 1))})
    for n in range(41, 201):
        ms = sorted(set([1, 2, n // 2, n - 1, n]))
        if not ctx.quick:
            ms = list(range(1, n + 1))
        cases.append({'kind': 'weights', 'n': n, 'ms': ms})
    ctx.note('n<=40: every (m,h,j); 41<=n<=200: m lattice {1,2,n/2,n-1,n} (thorough: every m for every n<=200, i.e. the whole stated domain)')
    # B
    shapes = [(2,), (3,), (5,), (40,)]
    shapes += [s for s in itertools.product((2, 3, 5), repeat=2)]
    shapes += [(2, 3, 5), (5, 3, 2), (3, 3, 3)]
    shapes += [(2, 3, 2, 3), (3, 2, 5, 2)]
    if not ctx.quick:
        shapes += [(n,) for n in (1, 4, 6, 7, 8, 9, 10, 11, 12, 20)]
        shapes += [(7, 2), (2, 7), (7, 7), (8, 5), (1, 6), (6, 1), (10, 3)]
        shapes += [(4, 4, 4), (2, 5, 7), (7, 2, 3), (1, 1, 4)]
        shapes += [(3, 3, 3, 3), (2, 2, 2, 6), (4, 1, 3, 2)]
    for s in shapes:
        targets = list(itertools.product(*[range(1, n + 1) for n in s]))
        if s == (40,):
            targets = [(m,) for m in (1, 2, 7, 20, 39, 40)]
        for t in targets:
            cases.append({'kind': 'operator', 'from': s, 'to': t})
    for s in [(3,), (5,), (2, 3), (3, 2), (3, 5)] + ([(2, 3, 2)] if not ctx.quick else []):
        targets = list(itertools.product(*[range(1, n + 1) for n in s]))
        for t in targets:
            cases.append({'kind': 'maskpairs', 'from': s, 'to': t})
    cases.append({'kind': 'maskpairs', 'from': (2, 3, 2), 'to': (1, 2, 1)})
    for n in (5, 12, 40):
        cases.append({'kind': 'misc', 'what': 'neutral_fixed_point', 'n': n})
    cases.append({'kind': 'misc', 'what': 'upward'})
    cases.append({'kind': 'misc', 'what': 'lowpass_deep'})
    cases.append({'kind': 'misc', 'what': 'upward_weights'})
    cases.append({'kind': 'misc', 'what': 'lowpass_symmetry'})
    cases.append({'kind': 'misc', 'what': 'lowpass_subsample'})
    for n in (41, 66, 100, 200):
        cases.append({'kind': 'misc', 'what': 'mask_window', 'n': n})
    cases.append({'kind': 'cache_history', 'depth': 2 if ctx.quick else 3})
    for ns_cd in ((4, 3), (6, 2), (5, 5)):
        cases.append({'kind': 'count_dict', 'ns': ns_cd})
    # C
    starts = [((4,), None), ((5,), (2,)), ((3, 4), None), ((3, 4), (1, 2)), ((4, 4), (0, 3)), ((3, 2, 3), None), ((3, 2, 3), (1, 1, 1))]
    if not ctx.quick:
        starts += [((6,), (3,)), ((5, 4), (2, 2)), ((3, 3, 3, 2), None), ((3, 3, 3, 2), (1, 0, 2, 1)),
                   ((8,), None), ((8,), (0,)), ((6, 5), None), ((6, 5), (3, 0)), ((4, 3, 4), (2, 1, 2)), ((2, 3, 2, 3), (1, 1, 1, 1))]
    for s, mk in starts:
        cases.append({'kind': 'bfs', 'from': s, 'masked': mk, 'depth': (3 if len(s) <= 2 else 2) if ctx.quick else (4 if len(s) <= 2 else 3)})
    # determinism self-test
    from mc.evidence import Collector
    a, b = Collector(), Collector()
    probe = {'kind': 'operator', 'from': (2, 3), 'to': (1, 2)}
    _dispatch(a, probe); _dispatch(b, probe)
    assert a.maxima == b.maxima and a.viol_count == b.viol_count
    # big cases first for load balance
    cases.sort(key=lambda c: -(c.get('n', 0) * len(c.get('ms', [])) + 50 * int(np.prod([x + 1 for x in c.get('from', (0,))]))))
    explore.pmap(ctx, _dispatch, cases, chunk=1)
    ctx.tick(evaluations=len(cases))
    for c in (cases[0], cases[len(cases) // 2], cases[-1]):
        ctx.sample(c)
    ctx.sample({'kind': 'bfs', 'example_path': [['proj', 0, 2], ['fold'], ['proj', 1, 3]]})
    ctx.rule = ('A: every (n,m,h,j) weight, n<=40 complete (+lattice to 200); B: every unit spectrum and every singleton mask for each '
                '(shape,target) pair; C: BFS depth<=3 over project/fold/unfold with states merged by exact reference value. '
                'distinct_nontrivial counts distinct (part, shape/target or n) groups whose every member was compared with the exact oracle')
    ctx.assume('projection is linear in the data and OR-homomorphic in the mask, so unit spectra / singleton masks form a basis (the pair cases re-check homomorphy)')
