"""C02 – every integration path (1-5 populations) solves the documented implicit scheme.

A. each of the 15 per-axis kernels: (grid tuple with a different grid on every axis) x parameter lattice x delj switch, and for each
   configuration ALL unit densities (operator extraction) + a dense density (linearity).  Oracle: the documented scheme coded twice
   (a/b/c assembly R1 and conservative flux form R2) in exact Fractions on the exact float inputs; R1 == R2 exactly, impl == R1 to 1e-10.
B. the 5 precomputed-coefficient kernels on arbitrary (pairwise distinct, diagonally dominant) coefficient arrays, all unit densities.
C. the tridiagonal solver, n = 1..8.
D. drivers one_pop..five_pops with T <= one time step: scalar parameters vs the same parameters as functions of time (dispatch between
   precomputed-coefficient and on-the-fly drivers) and both against inject -> x -> y -> z ... sweeps of the reference; zero density
   (influx term), every unit density.
"""
import itertools
import json
from fractions import Fraction

import numpy as np

from mc import explore, space
from mc.refs import scheme as RS

LEVEL = 'model_checking'
AX = 'xyzab'
NUS = [1e-2, 1.0, 1e2]
DTS = [1e-6, 1e-3, 1e-1]
GH = [(0.0, 0.5)] + [(g, h) for g in (-40.0, 40.0) for h in (0.0, 0.5, 1.0)]
BETAS = [0.2, 1.0, 5.0]
MPOOL = [0.7, 20.0, 3.1, 0.25]


def m_patterns(k, axis):
    if k == 0:
        return [()]
    a = tuple(MPOOL[(i + axis) % 4] for i in range(k))
    b = tuple(reversed(a)) if k > 1 else (20.0,)
    return [tuple([0.0] * k), a, b]


def kernel_call(ic, d, axis, phi, grids, nu, ms, gamma, h, dt, delj, beta=None):
    if d == 1:
        return ic.implicit_1Dx(phi, grids[0], nu, gamma, h, beta, dt, delj)
    fn = getattr(ic, 'implicit_%dD%s' % (d, AX[axis]))
    return fn(phi, *grids, nu, *ms, gamma, h, dt, delj)


def full_reference(grids, axis, op):
    """N x N matrix R[j_flat, i_flat] = response at i to a unit density at j"""
    shape = tuple(len(g) for g in grids)
    N = int(np.prod(shape))
    d = len(shape)
    R = np.zeros((N, N))
    flat = np.arange(N).reshape(shape)
    oth = [k for k in range(d) if k != axis]
    for oidx, mat in op.items():
        if oidx == '__pivots__':
            continue
        sl = [None] * d
        for k, i in zip(oth, oidx):
            sl[k] = i
        sl[axis] = slice(None)
        idx = flat[tuple(sl)]
        R[np.ix_(idx, idx)] = mat
    return R


def line_amplification(grids, axis, op):
    """per unit density (flat index): 1 / (smallest relative pivot of the exact elimination on its line), >= 1"""
    shape = tuple(len(g) for g in grids)
    N = int(np.prod(shape))
    d = len(shape)
    amp = np.ones(N)
    flat = np.arange(N).reshape(shape)
    oth = [k for k in range(d) if k != axis]
    for oidx, piv in op.get('__pivots__', {}).items():
        sl = [None] * d
        for k, i in zip(oth, oidx):
            sl[k] = i
        sl[axis] = slice(None)
        amp[flat[tuple(sl)]] = max(1.0, 1.0 / max(piv, 1e-300))
    return amp


def case_kernel(col, p):
    import dadi.integration_c as ic
    d, axis, G, rot = p['d'], p['axis'], p['G'], p['rot']
    grids = space.grids_for_axes(d, G, seed=p['seed'], rot=rot)
    if p.get('lens'):
        # a different NUMBER of grid points on every axis (the kernels take one grid per axis): strides and extents no longer coincide
        kinds = ['D', 'E', 'U', 'D2', 'E']
        grids = [space.grid(kinds[(q + rot) % 5], n_q, p['seed'] + q) for q, n_q in enumerate(p['lens'])]
    shape = tuple(len(g) for g in grids)
    N = int(np.prod(shape))
    k = d - 1
    eye = np.eye(N)
    rng = np.random.RandomState(p['seed'] + 99)
    dense = rng.uniform(0.1, 2.0, size=shape)
    nconf = 0
    for ci, conf in enumerate(p['configs']):
        nu, ms, gamma, h, dt, delj, beta = conf
        # implementation operator by basis exhaustion
        Rimpl = np.empty((N, N))
        for j in range(N):
            phi = eye[j].reshape(shape).copy()
            out = kernel_call(ic, d, axis, phi, grids, nu, ms, gamma, h, dt, delj, beta)
            Rimpl[j] = out.ravel()
        col.tick(transitions=N)
        op1 = RS.sweep_operator(grids, axis, nu, ms, gamma, h, dt, beta=beta, use_delj=bool(delj), form='R1')
        R1 = full_reference(grids, axis, op1)
        info = dict(d=d, axis=axis, G=G, rot=rot, seed=p['seed'], conf=conf, kind='kernel', configs=[conf], lens=p.get('lens'))
        if p.get('r2') and (ci % p['r2'] == 0):
            op2 = RS.sweep_operator(grids, axis, nu, ms, gamma, h, dt, beta=beta, use_delj=bool(delj), form='R2')
            R2 = full_reference(grids, axis, op2)
            if delj:
                # float references (exp): the two codings differ by round-off, amplified on lines with a near-vanishing pivot exactly as
                # the implementation's elimination is (same per-line amplification factor as in the verdict below)
                amp12 = line_amplification(grids, axis, op1)
                okr = bool((np.abs(R1 - R2) / amp12[:, None] <= 1e-11 * max(1.0, np.abs(R1).max())).all())
            else:
                okr = np.array_equal(R1, R2)
            col.tick(reference_cross_checks=1)
            if not okr:
                col.violation('harness:C02:R1_vs_R2', info, {'maxdiff': float(np.abs(R1 - R2).max())})
        scale = max(np.abs(R1).max(), 1e-300)
        tol = (1e-10 if not delj else 1e-9) * scale
        # the documented solver is Thomas elimination without pivoting: its backward error grows with 1/(smallest relative pivot).
        # Lines whose exact elimination has a (near-)vanishing pivot are compared with a proportionally wider tolerance and counted.
        rowamp = line_amplification(grids, axis, op1)
        n_ill = int((rowamp > 1e3).sum())
        if n_ill:
            col.tick(ill_conditioned_unit_rows=n_ill)
        err = np.abs(Rimpl - R1) / rowamp[:, None]
        if (not np.isfinite(Rimpl).all() and not n_ill) or np.nanmax(err) > tol:
            j, i = np.unravel_index(np.nanargmax(np.where(np.isfinite(err), err, np.inf)), err.shape)
            col.violation('C02:implicit_%dD%s:operator' % (d, AX[axis]), info,
                          {'maxerr': float(err.max()) if np.isfinite(err).all() else 'nonfinite', 'scale': float(scale),
                           'unit_at': np.unravel_index(j, shape), 'entry': np.unravel_index(i, shape),
                           'impl': float(Rimpl[j, i]), 'exact': float(R1[j, i])})
        else:
            col.observe('kernel_operator', err.max() / tol)
        # no coupling between lines is implied by comparing the full N x N matrix (reference is block diagonal)
        # linearity on a dense density
        out = kernel_call(ic, d, axis, dense.copy(), grids, nu, ms, gamma, h, dt, delj, beta)
        col.tick(transitions=1)
        lin = (dense.ravel() @ Rimpl)
        e2 = np.abs(out.ravel() - lin).max()
        if not n_ill and not e2 <= 1e-11 * max(1.0, np.abs(lin).max()):
            col.violation('C02:implicit_%dD%s:nonlinear' % (d, AX[axis]), info, {'maxerr': float(e2)})
        nconf += 1
    col.tick(states=nconf * N, traces=nconf)
    col.distinct('nontrivial', ('kernel', d, axis, G, rot, len(p['configs']), p['configs'][0], tuple(p.get('lens') or ())))


def _coef_arrays(shape, seed, which):
    rng = np.random.RandomState(seed * 31 + which)
    n = int(np.prod(shape))
    perm = rng.permutation(n).reshape(shape)
    a = -(1.0 + perm / (4.0 * n))
    c = -(1.3 + rng.permutation(n).reshape(shape) / (4.0 * n))
    b = 4.0 + rng.permutation(n).reshape(shape) / (2.0 * n)
    return a, b, c


def case_precalc(col, p):
    import dadi.integration_c as ic
    d, axis, G, dt = p['d'], p['axis'], p['G'], p['dt']
    shape = tuple(p['lens']) if p.get('lens') else (G,) * d       # lens: a different number of grid points on every axis
    N = int(np.prod(shape))
    G = shape[axis]
    a, b, c = _coef_arrays(shape, p['seed'], axis)
    fn = getattr(ic, 'implicit_precalc_%dD%s' % (d, AX[axis]))
    eye = np.eye(N)
    Rimpl = np.empty((N, N))
    for j in range(N):
        phi = eye[j].reshape(shape).copy()
        out = fn(phi, a.copy(), b.copy(), c.copy(), dt)
        Rimpl[j] = out.ravel()
    col.tick(transitions=N)
    # exact reference: per line solve (a, b+1/dt, c) u = phi/dt
    R = np.zeros((N, N))
    flat = np.arange(N).reshape(shape)
    oth = [k for k in range(d) if k != axis]
    fdt = Fraction(dt)
    for oidx in np.ndindex(*[shape[k] for k in oth]):
        sl = [None] * d
        for k, i in zip(oth, oidx):
            sl[k] = i
        sl[axis] = slice(None)
        sl = tuple(sl)
        la = [Fraction(v) for v in a[sl]]
        lb = [Fraction(v) + 1 / fdt for v in b[sl]]
        lc = [Fraction(v) for v in c[sl]]
        idx = flat[sl]
        for j in range(G):
            r = [Fraction(0)] * G
            r[j] = 1 / fdt
            u = RS.thomas(la, lb, lc, r)
            R[idx[j], idx] = [float(v) for v in u]
    err = np.abs(Rimpl - R).max()
    tol = 1e-11 * max(np.abs(R).max(), 1e-300)
    info = dict(p)
    if not err <= tol:
        col.violation('C02:implicit_precalc_%dD%s:operator' % (d, AX[axis]), info, {'maxerr': float(err)})
    else:
        col.observe('precalc_operator', err / tol)
    # inputs untouched
    a0, b0, c0 = _coef_arrays(shape, p['seed'], axis)
    a1, b1, c1 = a.copy(), b.copy(), c.copy()
    fn(np.ones(shape), a1, b1, c1, dt)
    if not (np.array_equal(a0, a1) and np.array_equal(b0, b1) and np.array_equal(c0, c1)):
        col.violation('C02:implicit_precalc_%dD%s:coefficients_modified' % (d, AX[axis]), info, '')
    col.tick(states=N, traces=1)
    col.distinct('nontrivial', ('precalc', d, axis, shape, dt))


def case_tridiag(col, p):
    import dadi.tridiag_cython as tc
    n = p['n']
    for variant in range(6):
        rng = np.random.RandomState(p['seed'] * 13 + n * 7 + variant)
        a = -rng.uniform(0.1, 2.0, n)
        c = -rng.uniform(0.1, 2.0, n)
        b = np.abs(a) + np.abs(c) + rng.uniform(0.05, 3.0, n)
        if variant == 5:
            b = b * 1e6      # the 1/dt-dominated regime
        for j in range(n):
            r = np.zeros(n)
            r[j] = 1.0
            u = tc.tridiag(a.copy(), b.copy(), c.copy(), r.copy())
            col.tick(transitions=1)
            ex = RS.thomas([Fraction(v) for v in a], [Fraction(v) for v in b], [Fraction(v) for v in c], [Fraction(v) for v in r])
            exf = np.array([float(v) for v in ex])
            err = np.abs(u - exf).max()
            tol = 1e-12 * np.abs(exf).max()
            if not err <= tol:
                col.violation('C02:tridiag:solution', dict(p, variant=variant, unit=j), {'maxerr': float(err), 'got': u, 'exact': exf})
            else:
                col.observe('tridiag', err / tol)
    col.tick(states=6 * n, traces=6)
    col.distinct('nontrivial', ('tridiag', n))


# ------------------------------------------------------------------------------------------------ D: drivers
def _mig_names(d):
    return ['m%d%d' % (i + 1, j + 1) for i in range(d) for j in range(d) if i != j]


def _driver(d):
    import dadi
    return [None, dadi.Integration.one_pop, dadi.Integration.two_pops, dadi.Integration.three_pops,
            dadi.Integration.four_pops, dadi.Integration.five_pops][d]


def _ref_step(phi, xx, d, T, nus, mig, gammas, hs, theta0, delj, beta=None):
    """inject mutations then sweep along every axis in order, each with the exact reference operator"""
    phi = phi.copy()
    grids = [xx] * d
    # influx: theta0/2 * dt / x_1 deposited at the first interior point of each axis, normalised by the trapezoid cell
    for k in range(d):
        idx = [0] * d
        idx[k] = 1
        w = (xx[2] - xx[0]) / 2.0
        for j in range(d):
            if j != k:
                w *= xx[1] / 2.0
        phi[tuple(idx)] += T * theta0 / 2.0 / xx[1] / w
    for k in range(d):
        ms = [mig.get((k, j), 0.0) for j in range(d) if j != k]
        op = RS.sweep_operator(grids, k, nus[k], ms, gammas[k], hs[k], T, beta=beta, use_delj=bool(delj), form='R1')
        phi = RS.apply_sweep(phi, op, k)
    return phi


def case_driver(col, p):
    import dadi
    from dadi import Integration
    d, G = p['d'], p['G']
    xx = space.grid(p['grid'], G, p['seed'])
    shape = (G,) * d
    N = G ** d
    nus, gammas, hs, theta0, T, delj, tf = p['nus'], p['gammas'], p['hs'], p['theta0'], p['T'], p['delj'], p['tf']
    mig = {tuple(k): v for k, v in p['mig']}
    beta = p.get('beta')
    # T must not exceed one time step of the documented time-step rule (coded here independently of Integration._compute_dt)
    dts = []
    for k in range(d):
        sm = sum(mig.get((k, j), 0.0) for j in range(d) if j != k)
        hk, gk = hs[k], gammas[k]
        maxVM = max(0.25 / nus[k], sm, abs(gk) * 2 * max(abs(hk + (1 - 2 * hk) * 0.5) * 0.25, abs(hk + (1 - 2 * hk) * 0.25) * 0.1875))
        dts.append(tf / maxVM)
    multistep = bool(p.get('multistep'))
    if multistep:
        # several steps: the constant-parameter and the time-dependent drivers must size their steps by the same rule and agree throughout
        T = 3.5 * min(dts)
    else:
        T = min(T, 0.9 * min(dts))
    old = (Integration.timescale_factor, Integration.use_delj_trick)
    Integration.timescale_factor = tf
    Integration.use_delj_trick = bool(delj)
    try:
        kw = {}
        if d == 1:
            kw = dict(nu=nus[0], gamma=gammas[0], h=hs[0], theta0=theta0, beta=beta if beta is not None else 1)
        else:
            for k in range(d):
                kw['nu%d' % (k + 1)] = nus[k]
                kw['gamma%d' % (k + 1)] = gammas[k]
                kw['h%d' % (k + 1)] = hs[k]
            for (i, j), v in mig.items():
                kw['m%d%d' % (i + 1, j + 1)] = v
            kw['theta0'] = theta0

        def as_func(v):
            return (lambda t, v=v: v)
        # which parameters are passed as functions: all of them, and each group alone (dispatch must not depend on which one is a function)
        variants = {'const': dict(kw)}
        variants['all_funcs'] = {k: as_func(v) for k, v in kw.items()}
        one = dict(kw)
        first = 'nu' if d == 1 else 'nu1'
        one[first] = as_func(kw[first])
        variants['nu_func'] = one
        one = dict(kw)
        one['theta0'] = as_func(theta0)
        variants['theta_func'] = one
        frozen = p.get('frozen')
        if frozen:
            # frozen populations: no reference here (C04 owns that clause), but the constant and the time-dependent driver must still agree
            for vv in variants.values():
                for k_, fz in enumerate(frozen):
                    vv['frozen%d' % (k_ + 1) if d > 1 else 'frozen'] = bool(fz)
        drv = _driver(d)
        inputs = [('zero', np.zeros(shape))]
        lo, hi = p.get('units', (0, N))
        for j in range(lo, hi):
            e = np.zeros(N)
            e[j] = 1.0
            inputs.append(('unit%d' % j, e.reshape(shape)))
        for name, phi0 in inputs:
            ref = _ref_step(phi0, xx, d, T, nus, mig, gammas, hs, theta0, delj, beta=beta if d == 1 else None) if not (multistep or frozen) else None
            scale = max(1.0, np.abs(ref).max()) if ref is not None else max(1.0, float(np.abs(phi0).max()))
            outs = {}
            for vname, kws in variants.items():
                try:
                    out = drv(phi0.copy(), xx, T, **kws)
                except Exception as e:
                    col.violation('C02:driver%d:%s:raises' % (d, vname), dict(p, input=name), '%s: %s' % (type(e).__name__, e))
                    continue
                col.tick(transitions=1)
                outs[vname] = out
                if multistep or frozen:
                    continue
                err = np.abs(out - ref).max()
                tol = (1e-9 if delj else 1e-10) * scale
                if not err <= tol:
                    col.violation('C02:driver%d:%s:vs_scheme' % (d, vname), dict(p, input=name), {'maxerr': float(err), 'scale': float(scale)})
                else:
                    col.observe('driver_vs_scheme', err / tol)
            if 'const' in outs and d >= 2:
                # the same density as a transposed (non-contiguous) view, as PhiManip.reorder_pops hands it over
                perm = list(range(1, d)) + [0]
                inv = list(np.argsort(perm))
                view = np.ascontiguousarray(phi0.transpose(perm)).transpose(inv)
                try:
                    outv = drv(view, xx, T, **variants['const'])
                    col.tick(transitions=1)
                    ev = float(np.abs(np.asarray(outv) - outs['const']).max())
                    if not ev <= 1e-12 * scale:
                        col.violation('C02:driver%d:noncontiguous_density' % d, dict(p, input=name), {'maxdiff': ev, 'scale': float(scale)})
                except Exception as e:
                    col.violation('C02:driver%d:noncontiguous_density:raises' % d, dict(p, input=name), '%s: %s' % (type(e).__name__, e))
            if 'const' in outs:
                # the same step written in absolute time (initial_t = t0, T = t0 + length): constant parameters do not know what time it is
                try:
                    outt = drv(phi0.copy(), xx, T + 0.37, initial_t=0.37, **variants['const'])
                    col.tick(transitions=1)
                    et = float(np.abs(np.asarray(outt) - outs['const']).max())
                    # (T + t0) - t0 differs from T by a rounding error of t0, which moves the length of the last step by as much: 1e-10
                    if not et <= 1e-10 * scale:
                        col.violation('C02:driver%d:const:depends_on_initial_t' % d, dict(p, input=name), {'maxdiff': et, 'scale': float(scale)})
                except Exception as e:
                    col.violation('C02:driver%d:const:initial_t:raises' % d, dict(p, input=name), '%s: %s' % (type(e).__name__, e))
            if 'const' in outs:
                for vname, out in outs.items():
                    if vname == 'const':
                        continue
                    e2 = np.abs(out - outs['const']).max()
                    if not e2 <= (1e-12 if not multistep else 1e-11) * scale:
                        col.violation('C02:driver%d:const_vs_%s' % (d, vname), dict(p, input=name), {'maxdiff': float(e2), 'scale': float(scale)})
                    else:
                        col.observe('driver_const_vs_func', e2 / (1e-12 * scale))
        col.tick(states=len(inputs), traces=len(inputs))
    finally:
        Integration.timescale_factor, Integration.use_delj_trick = old
    col.distinct('nontrivial', ('driver', d, G, p['grid'], tuple(nus), tuple(gammas), T, delj, tuple(p.get('units', ())), multistep, json.dumps(p['mig'])[:80],
                                tuple(frozen or ())))


def case_driver_varying(col, p):
    """several steps with parameters that really change in time.  The documented scheme is fully implicit: the step [t, t+dt] is sized by the
    time-step rule from the parameters in force at t and solved with the parameters of t+dt - every family (sizes, migration rates, selection,
    dominance, influx) alike.  Reference: the exact one-step operator applied step by step with those parameters.  Families vary one at a time
    and all together."""
    from dadi import Integration
    d, G = p['d'], p['G']
    xx = space.grid(p['grid'], G, p['seed'])
    shape = (G,) * d
    N = G ** d
    tf, delj = p['tf'], p['delj']
    nus0, gammas0, hs0, theta00 = p['nus'], p['gammas'], p['hs'], p['theta0']
    mig0 = {tuple(k): v for k, v in p['mig']}
    fam = p['family']

    def rule_dt(nus, mig, gammas, hs):
        dts = []
        for k in range(d):
            sm = sum(mig.get((k, j), 0.0) for j in range(d) if j != k)
            hk, gk = hs[k], gammas[k]
            maxVM = max(0.25 / nus[k], sm, abs(gk) * 2 * max(abs(hk + (1 - 2 * hk) * 0.5) * 0.25, abs(hk + (1 - 2 * hk) * 0.25) * 0.1875))
            dts.append(tf / maxVM)
        return min(dts)
    T = 3.5 * rule_dt(nus0, mig0, gammas0, hs0)

    def vary(name, v, q):
        # a distinct, strictly monotone time course per parameter (so that a parameter read at the wrong time, or another parameter's value, shows)
        on = fam == 'all' or fam == name
        if not on:
            return (lambda t, v=v: v)
        if name == 'h':
            return (lambda t, v=v, q=q: v + (0.3 + 0.05 * q) * t / T)
        if name == 'nu':
            return (lambda t, v=v, q=q: v / (1.0 + (1.0 + 0.5 * q) * t / T))
        return (lambda t, v=v, q=q: v * (1.0 + (1.5 + 0.25 * q) * t / T))
    f_nu = [vary('nu', nus0[k], k) for k in range(d)]
    f_ga = [vary('gamma', gammas0[k], k) for k in range(d)]
    f_h = [vary('h', hs0[k], k) for k in range(d)]
    f_m = {ij: vary('m', v, 2 * ij[0] + ij[1]) for ij, v in mig0.items()}
    f_th = vary('theta0', theta00, 0)
    f_beta = vary('beta', float(p.get('beta', 1)), 1)
    if d == 1:
        kw = dict(nu=f_nu[0], gamma=f_ga[0], h=f_h[0], theta0=f_th, beta=f_beta if fam in ('beta', 'all') else p.get('beta', 1))
    else:
        kw = {'theta0': f_th}
        for k in range(d):
            kw['nu%d' % (k + 1)], kw['gamma%d' % (k + 1)], kw['h%d' % (k + 1)] = f_nu[k], f_ga[k], f_h[k]
        for (i, j), f in f_m.items():
            kw['m%d%d' % (i + 1, j + 1)] = f

    def at(t):
        return ([f(t) for f in f_nu], {ij: f(t) for ij, f in f_m.items()}, [f(t) for f in f_ga], [f(t) for f in f_h], f_th(t))

    def reference(phi0):
        phi, t, n = phi0.copy(), 0.0, 0
        while t < T:
            nus, mig, gammas, hs, _ = at(t)
            this_dt = min(rule_dt(nus, mig, gammas, hs), T - t)
            nus, mig, gammas, hs, th = at(t + this_dt)
            phi = _ref_step(phi, xx, d, this_dt, nus, mig, gammas, hs, th, delj, beta=f_beta(t + this_dt) if d == 1 else None)
            t += this_dt
            n += 1
        return phi, n
    old = (Integration.timescale_factor, Integration.use_delj_trick)
    Integration.timescale_factor, Integration.use_delj_trick = tf, bool(delj)
    try:
        drv = _driver(d)
        inputs = [('zero', np.zeros(shape))]
        lo, hi = p.get('units', (0, N))
        for j in range(lo, hi):
            e = np.zeros(N)
            e[j] = 1.0
            inputs.append(('unit%d' % j, e.reshape(shape)))
        for name, phi0 in inputs:
            ref, nsteps = reference(phi0)
            if nsteps < 3:
                col.violation('harness:C02:varying_steps', dict(p, input=name), {'steps': nsteps})
            try:
                out = np.array(drv(phi0.copy(), xx, T, **kw))
            except Exception as e:
                col.violation('C02:driver%d:varying:raises' % d, dict(p, input=name), '%s: %s' % (type(e).__name__, e))
                continue
            col.tick(transitions=1)
            scale = max(1.0, float(np.abs(ref).max()))
            err = float(np.abs(out - ref).max())
            tol = (1e-8 if delj else 1e-9) * scale
            if not err <= tol:
                col.violation('C02:driver%d:varying_%s:vs_scheme' % (d, fam), dict(p, input=name), {'maxerr': err, 'scale': scale, 'steps': nsteps})
            else:
                col.observe('driver_varying_vs_scheme', err / tol)
        col.tick(states=len(inputs), traces=len(inputs))
    finally:
        Integration.timescale_factor, Integration.use_delj_trick = old
    col.distinct('nontrivial', ('driver_varying', d, G, fam, tuple(p.get('units', ()))))


def case_driver_history(col, p):
    """constant-parameter drivers called in sequence on different grids of the SAME length (and again on the first): every call must equal
    the reference for its own grid (precomputed coefficients / normalisation factors must not leak between calls)"""
    from dadi import Integration
    d, G = p['d'], p['G']
    old = (Integration.timescale_factor, Integration.use_delj_trick)
    Integration.timescale_factor, Integration.use_delj_trick = 10.0, False
    try:
        nus = [0.7, 2.0, 1.3][:d]
        gammas = [-3.0, 2.0, 0.0][:d]
        hs = [0.3, 0.5, 0.5][:d]
        mig = {(i, j): 0.4 + 0.3 * i + 0.1 * j for i in range(d) for j in range(d) if i != j}
        T = 0.01
        rng = np.random.RandomState(3)
        phi0 = rng.uniform(0.1, 1.0, size=(G,) * d)
        n = 0
        for order in itertools.permutations(['E', 'D', 'U', 'D2']):
            seq = list(order) + [order[0]]
            for gk in seq:
                xx = space.grid(gk, G, p['seed'])
                kw = {}
                if d == 1:
                    kw = dict(nu=nus[0], gamma=gammas[0], h=hs[0], theta0=1.0)
                else:
                    for k in range(d):
                        kw['nu%d' % (k + 1)] = nus[k]; kw['gamma%d' % (k + 1)] = gammas[k]; kw['h%d' % (k + 1)] = hs[k]
                    for (i, j), v in mig.items():
                        kw['m%d%d' % (i + 1, j + 1)] = v
                out = _driver(d)(phi0.copy(), xx, T, **kw)
                col.tick(transitions=1)
                n += 1
                ref = _ref_step(phi0, xx, d, T, nus, mig if d > 1 else {}, gammas, hs, 1.0, 0)
                err = float(np.abs(out - ref).max())
                if not err <= 1e-10 * max(1.0, float(np.abs(ref).max())):
                    col.violation('C02:driver%d:const:depends_on_call_history' % d, dict(p, order=seq, at=gk), {'maxerr': err})
                    break
        col.tick(states=n, traces=n)
    finally:
        Integration.timescale_factor, Integration.use_delj_trick = old
    col.distinct('nontrivial', ('driver_history', d, G))


CASES = {'driver_history': case_driver_history, 'kernel': case_kernel, 'precalc': case_precalc, 'tridiag': case_tridiag, 'driver': case_driver, 'driver_varying': case_driver_varying}


def _dispatch(col, case):
    CASES[case['kind']](col, case)


def replay(ctx, case):
    case = dict(case)
    if case.get('kind') == 'kernel' and 'conf' in case:
        case['configs'] = [tuple(tuple(x) if isinstance(x, list) else x for x in case['conf'])]
    _dispatch(ctx, case)


def kernel_configs(d, axis, quick):
    k = d - 1
    full = []
    for nu, ms, (gamma, h), dt, delj in itertools.product(NUS, m_patterns(k, axis), GH, DTS, (0, 1)):
        for beta in (BETAS if d == 1 else [None]):
            full.append((nu, ms, gamma, h, dt, delj, beta))
    if not quick:
        return full
    thin = []
    i = 0
    for ms in m_patterns(k, axis):
        for (gamma, h) in GH:
            for beta in (BETAS if d == 1 else [None]):
                thin.append((NUS[i % 3], ms, gamma, h, DTS[(i // 3) % 3], i % 2, beta))
                i += 1
    return thin


def run(ctx):
    cases = []
    Gs = {1: [3, 4, 5, 8], 2: [3, 4, 5, 6], 3: [3, 4, 5], 4: [3, 4], 5: [3, 4]}
    if ctx.quick:
        Gs = {1: [3, 5, 8], 2: [3, 5], 3: [3, 4], 4: [3], 5: [3, 4]}
    for d in range(1, 6):
        for axis in range(d):
            for G in Gs[d]:
                for rot in ((0, 1) if not ctx.quick else (ctx.seed % 2,)):
                    confs = kernel_configs(d, axis, ctx.quick)
                    per = max(1, 3000 // (G ** d * (d + 2)))
                    for lo in range(0, len(confs), per):
                        cases.append({'kind': 'kernel', 'd': d, 'axis': axis, 'G': G, 'rot': rot, 'seed': ctx.seed,
                                      'configs': confs[lo:lo + per], 'r2': 1 if d <= 3 else 4})
    LENS = {2: [(3, 5), (5, 4)], 3: [(3, 4, 5), (5, 3, 4)], 4: [(3, 4, 5, 3), (4, 3, 4, 5)], 5: [(3, 4, 3, 4, 3), (4, 3, 4, 3, 4)]}
    for d in range(2, 6):
        for axis in range(d):
            for li, lens in enumerate(LENS[d]):
                confs = kernel_configs(d, axis, True)
                confs = confs[(li + axis) % 3::3] if (ctx.quick or d == 5) else confs
                per = max(1, 3000 // (int(np.prod(lens)) * (d + 2)))
                for lo in range(0, len(confs), per):
                    cases.append({'kind': 'kernel', 'd': d, 'axis': axis, 'G': max(lens), 'rot': li, 'seed': ctx.seed, 'lens': lens,
                                  'configs': confs[lo:lo + per], 'r2': 1 if d <= 3 else 4})
    if ctx.quick:
        ctx.cap_hit('quick: parameter lattice thinned to %d configurations per kernel (every (m pattern, gamma, h) with nu, dt, delj rotated); '
                    'thorough runs the full product (378 per kernel; 1134 in 1-D)' % len(kernel_configs(3, 0, True)))
    for d, axes in ((2, (0, 1)), (3, (0, 1, 2))):
        for axis in axes:
            for G in (3, 4, 5):
                for dt in (1e-6, 1e-3, 1e-1):
                    cases.append({'kind': 'precalc', 'd': d, 'axis': axis, 'G': G, 'dt': dt, 'seed': ctx.seed})
            for lens in LENS[d]:
                cases.append({'kind': 'precalc', 'd': d, 'axis': axis, 'G': max(lens), 'dt': 1e-3, 'seed': ctx.seed, 'lens': lens})
    for n in range(1, 9):
        cases.append({'kind': 'tridiag', 'n': n, 'seed': ctx.seed})
    # drivers
    for d in range(1, 6):
        G = {1: 6, 2: 5, 3: 4, 4: 3, 5: 3}[d]
        N = G ** d
        paramsets = []
        nus_a = [1e-2, 1.0, 1e2, 0.5, 3.0][:d]
        nus_b = [2.0, 0.3, 1.0, 7.0, 0.05][:d]
        gam_a = [-40.0, 0.0, 40.0, 5.0, -3.0][:d]
        gam_b = [3.0, -7.0, 0.0, 0.0, 1.0][:d]
        hs_a = [0.0, 0.5, 1.0, 0.3, 0.8][:d]
        hs_b = [0.5] * d
        mig_a = [((i, j), MPOOL[(i + 2 * j) % 4] * (1 + i)) for i in range(d) for j in range(d) if i != j]
        mig_0 = []
        for nus, gammas, hs, mig, theta0 in ((nus_a, gam_a, hs_a, mig_a, 1.0), (nus_b, gam_b, hs_b, mig_0, 2.5), (nus_b, [0.0] * d, hs_b, mig_a, 0.5)):
            for tf, T in ((1e-3, 1e-5), (10.0, 0.05)):
                for delj in (0, 1):
                    for grid in (('E', 'D') if not ctx.quick else ('D',)):      # asymmetric grid in quick (default grid has dx[0]==dx[-1])
                        paramsets.append(dict(nus=nus, gammas=gammas, hs=hs, mig=mig, theta0=theta0, T=T, tf=tf, delj=delj, grid=grid))
        for ps in paramsets:
            chunk = 64 if d <= 3 else 27
            for lo in range(0, N, chunk):
                c = dict(kind='driver', d=d, G=G, seed=ctx.seed, units=(lo, min(N, lo + chunk)))
                c.update(ps)
                if d == 1:
                    for beta in BETAS:
                        cc = dict(c)
                        cc['beta'] = beta
                        cases.append(cc)
                else:
                    cases.append(c)
    # several steps with every single migration rate in turn limiting the step (strongly asymmetric rates), and with selection limiting it
    for d, G in ((2, 4), (3, 3)):
        for (ii, jj) in [(a_, b_) for a_ in range(d) for b_ in range(d) if a_ != b_]:
            mig = [((a_, b_), 20.0 if (a_, b_) == (ii, jj) else 0.05) for a_ in range(d) for b_ in range(d) if a_ != b_]
            cases.append(dict(kind='driver', d=d, G=G, seed=ctx.seed, units=(0, min(G ** d, 8)), nus=[4.0, 5.0, 6.0][:d], gammas=[0.0] * d, hs=[0.5] * d,
                              mig=mig, theta0=1.0, T=1.0, tf=1e-2, delj=0, grid='D', multistep=True))
        for k_ in range(d):
            gam = [0.0] * d
            gam[k_] = 30.0
            cases.append(dict(kind='driver', d=d, G=G, seed=ctx.seed, units=(0, min(G ** d, 8)), nus=[4.0, 5.0, 6.0][:d], gammas=gam, hs=[0.2, 0.8, 0.4][:d],
                              mig=[], theta0=1.0, T=1.0, tf=1e-2, delj=0, grid='D', multistep=True))
    cases.append(dict(kind='driver', d=1, G=6, seed=ctx.seed, units=(0, 6), nus=[4.0], gammas=[30.0], hs=[0.2], mig=[], theta0=1.0, T=1.0, tf=1e-2, delj=0, grid='D',
                      multistep=True, beta=1.0))
    # every frozen pattern (no migration into or out of frozen populations): constant and time-dependent drivers agree
    for d, G in ((2, 4), (3, 3), (4, 3), (5, 3)):
        for fr in itertools.product((0, 1), repeat=d):
            if not any(fr) or all(fr):
                continue
            if d >= 4 and sum(fr) != 1:
                continue
            unf = [k_ for k_ in range(d) if not fr[k_]]
            mig = [((a_, b_), 0.4 + 0.3 * a_ + 0.1 * b_) for a_ in unf for b_ in unf if a_ != b_]
            cases.append(dict(kind='driver', d=d, G=G, seed=ctx.seed, units=(0, min(G ** d, 8)), nus=[2.0, 1.5, 3.0, 2.5, 1.2][:d], gammas=[1.0, -2.0, 0.5, -1.0, 1.5][:d],
                              hs=[0.2, 0.5, 0.7, 0.4, 0.3][:d], mig=mig, theta0=1.0, T=1.0, tf=1e-2, delj=0, grid='D', multistep=True, frozen=list(fr)))
    # parameters that change in time, one family at a time and all together
    for d, G in ((1, 6), (2, 4), (3, 3), (4, 3), (5, 3)):
        mig = [((a_, b_), 0.4 + 0.3 * a_ + 0.1 * b_) for a_ in range(d) for b_ in range(d) if a_ != b_]
        for fam in ('nu', 'm', 'gamma', 'h', 'theta0', 'all', 'beta'):
            if (d == 1 and fam == 'm') or (d > 1 and fam == 'beta'):
                continue
            if ctx.quick and d >= 4 and fam not in ('m', 'all'):
                continue
            cases.append(dict(kind='driver_varying', d=d, G=G, seed=ctx.seed, units=(0, min(G ** d, 9 if d <= 3 else 4)), nus=[2.0, 1.5, 3.0, 2.5, 1.2][:d],
                              gammas=[1.0, -2.0, 0.5, -1.0, 1.5][:d], hs=[0.2, 0.5, 0.7, 0.4, 0.3][:d], mig=mig, theta0=1.0, tf=1e-2, delj=0, grid='D',
                              family=fam))
    for d, G in ((1, 6), (2, 5), (3, 4)):
        cases.append({'kind': 'driver_history', 'd': d, 'G': G, 'seed': ctx.seed})
    from mc.evidence import Collector
    a, b = Collector(), Collector()
    _dispatch(a, cases[0]); _dispatch(b, cases[0])
    assert a.viol_count == b.viol_count and a.maxima == b.maxima
    cases.sort(key=lambda c: -(c.get('G', 3) ** c.get('d', 1)) * len(c.get('configs', [1, 1, 1])))
    explore.pmap(ctx, _dispatch, cases, chunk=1)
    ctx.tick(evaluations=len(cases))
    for c in (cases[0], cases[len(cases) // 2], cases[-1]):
        cc = dict(c)
        if 'configs' in cc:
            cc['configs'] = cc['configs'][:2]
        ctx.sample(cc)
    ctx.rule = ('per kernel: grid tuples (different grid per axis) x parameter lattice x delj, each with ALL unit densities (full operator '
                'matrix) + a dense density; precalc kernels on arbitrary coefficients; tridiag n<=8; drivers 1-5 pops at T<=dt with constant '
                'vs function parameters vs reference composition. distinct_nontrivial = distinct (part, d, axis, G, grid rotation, config chunk) '
                'groups whose full operator was compared with the exact scheme')
    ctx.assume('arrays have the same number of grid points on every axis (as every dadi driver uses them); the .pyx wrappers pass loop bounds '
               'that are only correct for such arrays, and cannot be rebuilt here (no Cython)')
    ctx.assume("the 1-D absorbing term uses 0.5/nu also when beta != 1 (as both the C kernel and the Python driver do); recorded as an observation in DESIGN.md")
