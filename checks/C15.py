"""C15 – library models are well-formed and reduce exactly to their nested special cases.

The catalogue is discovered by introspection (every function with __param_names__ in Demographics1D/2D/3D, PortikModels, DFE.DemogSelModels), so a
new model is picked up.  For EVERY model:
  (1) arity: exactly the named parameters are accepted;
  (2) well-formedness on a parameter lattice (incl. zero-length epochs, zero migration, zero selection): finite, non-negative, right shape, tagged;
  (3) generic nesting rules derived from names: X_sel(gammas=0) == X;  X_sel_single_gamma(g) == X_sel(g,g);  X_asym*(m12=m21=m) == X_sym*(m);
      continuity at every zero-length epoch;
  (4) label-swap equivariance for every model whose parameter names are closed under 1<->2 (2-D) or 2<->3 (3-D, where symmetric), on a time-step ladder
      (error proportional to the step);
plus (5) an explicit nesting graph (edges written out from the docstrings) evaluated on the lattice: '==' edges (same sequence of numerical calls) must
agree to round-off, '~' edges (two epochs merged into one, constant vs function parameters) on the time-step ladder.
"""
import inspect
import itertools

import numpy as np

from mc import explore

LEVEL = 'model_checking'
NS = {1: (4,), 2: (3, 4), 3: (2, 3, 2)}
PTS = {1: 30, 2: 16, 3: 10}
PTS_WF = {1: 40, 2: 30, 3: 18}      # well-formedness is asserted at grids comparable to recommended use (pts > sample size)


def catalogue():
    import dadi
    import dadi.DFE.DemogSelModels as DS
    from dadi.PortikModels import portik_models_2d as P2, portik_models_3d as P3
    cat = {}
    for mname, mod in (('Demographics1D', dadi.Demographics1D), ('Demographics2D', dadi.Demographics2D), ('Demographics3D', dadi.Demographics3D),
                       ('portik_models_2d', P2), ('portik_models_3d', P3), ('DemogSelModels', DS)):
        for fn, f in inspect.getmembers(mod, inspect.isfunction):
            if hasattr(f, '__param_names__') and not fn.endswith('_mscore'):
                cat.setdefault(fn, (f, mname))          # re-exports share one entry
    return cat


def npop_of(name, f):
    """number of populations from the signature of the returned spectrum (probed once)"""
    for d in (1, 2, 3):
        try:
            fs = f(default_params(f.__param_names__, 0), NS[d], PTS[d])
            if fs.ndim == d:
                return d
        except Exception:
            continue
    return None


def value_for(pname, variant=0):
    """lattice value by parameter-name pattern; variant 0/1 give two distinct interior points"""
    v = variant
    if pname == 's':
        return [0.3, 0.6, 0.1, 0.9, 0.5, 0.75][v]
    if pname == 'f':
        return [0.25, 0.6, 0.05, 0.95, 0.5, 0.8][v]
    if pname == 'F':
        return [0.2, 0.5, 0.05, 0.8, 0.35, 0.65][v]
    if pname.startswith('gamma'):
        base = [-2.0, 1.0, -8.0, 4.0, -0.5, 10.0][v]
        return base * (1.5 if pname.endswith('2') else 1.0)
    if pname.startswith('nu'):
        table = {'nu1': 0.7, 'nu2': 2.0, 'nu3': 1.3, 'nuA': 0.9, 'nuB': 0.4, 'nuF': 3.0, 'nu': 2.5, 'nuPre': 1.8, 'nu1a': 0.6, 'nu2a': 1.7, 'nu3a': 1.2,
                 'nu1b': 2.2, 'nu2b': 0.8, 'nu3b': 0.5, 'nuAf': 1.5, 'nuEu0': 0.3, 'nuEu': 2.0, 'nuAs0': 0.4, 'nuAs': 2.6}
        return table.get(pname, 1.1) * [1.0, 1.4, 0.5, 3.0, 0.25, 6.0][v]
    if pname.startswith('m'):
        table = {'m': 1.0, 'm12': 0.8, 'm21': 1.7, 'mA': 0.6, 'm1': 1.2, 'm2': 0.5, 'm3': 1.6, 'm12a': 0.7, 'm21a': 1.4, 'm12b': 0.3, 'm21b': 1.9, 'm32': 0.9, 'm31': 0.4,
                 'mAfB': 0.5, 'mAfEu': 0.3, 'mAfAs': 0.2, 'mEuAs': 0.9}
        return table.get(pname, 1.0) * [1.0, 0.5, 2.5, 0.1, 4.0, 0.0][v]
    if pname.startswith('T'):
        table = {'T': 0.12, 'T1': 0.1, 'T2': 0.07, 'T3': 0.05, 'TB': 0.08, 'TF': 0.11, 'Ts': 0.2, 'Tpre': 0.09, 'Tmig': 0.06, 'TPre': 0.1, 'T1a': 0.05, 'T1b': 0.06,
                 'TAf': 0.1, 'TEuAs': 0.05}
        return table.get(pname, 0.1) * [1.0, 1.6, 0.4, 2.5, 0.15, 3.5][v]
    return 1.0


def default_params(names, variant=0):
    return [value_for(n, variant) for n in names]


def call(f, names, pdict, d, tf=None, pts=None):
    import dadi
    old = dadi.Integration.timescale_factor
    if tf is not None:
        dadi.Integration.timescale_factor = tf
    try:
        return f([pdict[n] for n in names], NS[d], pts or PTS[d])
    finally:
        dadi.Integration.timescale_factor = old


def arr(fs):
    return np.array(fs.data, dtype=float)


def inner_mask(shape):
    m = np.ones(shape, bool)
    m.flat[0] = m.flat[-1] = False
    return m


def close(a, b, rtol):
    """compare the observable (unmasked) entries: the two corners are not part of a spectrum"""
    a, b = arr(a), arr(b)
    if a.shape != b.shape:
        return False, 'shape'
    m = inner_mask(a.shape)
    sc = max(float(np.abs(b[m]).max()), 1e-300)
    err = float(np.abs(a - b)[m].max()) / sc
    return err <= rtol, err


# ------------------------------------------------------------------------------------------------ per-model generic checks
def rule_points(names):
    """parameter points at which the name-derived identities are evaluated: the two interior lattice points, plus - for models whose code
    branches on the order of two times (T and Ts) - a point with the order reversed"""
    pts_ = [dict(zip(names, default_params(names, v))) for v in (0, 1)]
    if 'T' in names and 'Ts' in names:
        q = dict(pts_[0])
        q['Ts'] = 0.5 * q['T']
        pts_.append(q)
        q = dict(pts_[1])
        q['Ts'] = q['T']
        pts_.append(q)
    return pts_


def case_model(col, p):
    import dadi
    cat = catalogue()
    name = p['model']
    f, modname = cat[name]
    names = list(f.__param_names__)
    d = p['npop']
    info0 = dict(kind='model', model=name, npop=d)
    n = 0
    # (1) arity
    base = default_params(names, 0)
    for delta in (-1, 1):
        if delta == -1 and not names:
            continue
        bad = base[:-1] if delta == -1 else base + [0.5]
        try:
            f(bad, NS[d], PTS[d])
            if names:
                col.violation('C15:%s:arity' % name, dict(info0, given=len(bad), named=len(names)), 'accepted %d parameters although it names %d' % (len(bad), len(names)))
        except Exception:
            pass
        col.tick(transitions=1)
    # (2) well-formedness on the lattice: both interior points, plus each parameter in turn at its corner values
    points = [dict(zip(names, default_params(names, v))) for v in p.get('variants', (0, 1))]
    for i, pn in enumerate(names):
        corners = []
        if pn.startswith('T'):
            corners = [0.0, 1e-3, 1.0]
        elif pn.startswith('m'):
            corners = [0.0, 5.0]
        elif pn.startswith('nu'):
            corners = [0.1, 10.0]
        elif pn in ('s', 'f'):
            corners = [0.2, 0.8]
        elif pn.startswith('gamma'):
            corners = [0.0, -5.0, 5.0]
        elif pn == 'F':
            corners = [1e-3, 0.9]
        for cval in corners:
            q = dict(points[0])
            q[pn] = cval
            points.append(q)
    for q in points:
        try:
            fs = call(f, names, q, d, pts=PTS_WF[d])
        except Exception as e:
            col.violation('C15:%s:raises' % name, dict(info0, params=q), '%s: %s' % (type(e).__name__, str(e)[:200]))
            continue
        col.tick(transitions=1)
        n += 1
        a = arr(fs)
        inner = np.ones(a.shape, bool)
        inner.flat[0] = inner.flat[-1] = False
        if a.shape != tuple(x + 1 for x in NS[d]):
            col.violation('C15:%s:shape' % name, dict(info0, params=q), str(a.shape))
            continue
        if not np.isfinite(a[inner]).all():
            col.violation('C15:%s:not_finite' % name, dict(info0, params=q), '')
        elif a[inner].min() < -2e-3 * max(1e-300, a[inner].max()):       # tiny negative entries are discretisation error at a single grid (removed by extrapolation)
            col.violation('C15:%s:negative' % name, dict(info0, params=q), {'min': float(a[inner].min())})
        xx1 = dadi.Numerics.default_grid(PTS_WF[d])[1]
        if getattr(fs, 'extrap_x', None) != xx1:
            col.violation('C15:%s:not_tagged_for_extrapolation' % name, dict(info0, params=q), repr(getattr(fs, 'extrap_x', None)))
    # (3a) continuity at every zero-length epoch
    for pn in names:
        if not pn.startswith('T'):
            continue
        q0 = dict(points[0]); q0[pn] = 0.0
        q1 = dict(points[0]); q1[pn] = 1e-8
        try:
            a, b = call(f, names, q0, d), call(f, names, q1, d)
        except Exception as e:
            col.violation('C15:%s:raises' % name, dict(info0, params=q0, note='zero-length epoch %s' % pn), '%s: %s' % (type(e).__name__, str(e)[:200]))
            continue
        col.tick(transitions=2)
        ok, err = close(a, b, 1e-5)
        if not ok:
            col.violation('C15:%s:discontinuous_at_zero_length_epoch' % name, dict(info0, param=pn, params=q0), {'relerr': err})
        else:
            col.observe('epoch_continuity', err / 1e-5)
    # (3b) selection nesting by name
    if '_sel' in name:
        basename = name.replace('_single_gamma', '').replace('_sel', '')
        gnames = [x for x in names if x.startswith('gamma')]
        if name.endswith('_single_gamma'):
            two = name.replace('_single_gamma', '')
            if two in cat:
                g, _ = cat[two]
                for q in rule_points(names):
                    q2 = {k: q[k] for k in q if k != 'gamma'}
                    q2['gamma1'] = q2['gamma2'] = q['gamma']
                    a, b = call(f, names, q, d), call(g, list(g.__param_names__), q2, d)
                    col.tick(transitions=2)
                    ok, err = close(a, b, 1e-12)
                    if not ok:
                        col.violation('C15:%s:single_gamma_vs_two_gammas' % name, dict(info0, params=q), {'relerr': err})
        target = {'equil': 'snm_1d'}.get(name, basename)
        if target in cat and target != name:
            g, _ = cat[target]
            gn = list(g.__param_names__)
            for q in rule_points(names):
                for x in gnames:
                    q[x] = 0.0
                if all(k in q for k in gn):
                    a, b = call(f, names, q, d), call(g, gn, q, d)
                    col.tick(transitions=2)
                    ok, err = close(a, b, 1e-12)
                    if not ok:
                        col.violation('C15:%s:zero_selection_vs_%s' % (name, target), dict(info0, params=q), {'relerr': err})
    # (3c) asymmetric -> symmetric migration by name
    if 'asym' in name:
        sym = name.replace('asym', 'sym')
        if sym in cat:
            g, _ = cat[sym]
            gn = list(g.__param_names__)
            mmap = {'m12': 'm', 'm21': 'm', 'm12a': 'm1', 'm21a': 'm1', 'm12b': 'm2', 'm21b': 'm2'}
            for v in (0, 1):
                qs = dict(zip(gn, default_params(gn, v)))
                qa = {}
                okmap = True
                for x in names:
                    if x in qs:
                        qa[x] = qs[x]
                    elif x in mmap and mmap[x] in qs:
                        qa[x] = qs[mmap[x]]
                    else:
                        okmap = False
                if not okmap:
                    continue
                if name == 'sec_contact_asym_mig_three_epoch':
                    qs = dict(qs); qs['T3'] = qs['T2']      # documented: the asymmetric variant has no T3 (uses T2 twice)
                a, b = call(f, names, qa, d), call(g, gn, qs, d)
                col.tick(transitions=2)
                ok, err = close(a, b, 1e-12)
                if not ok:
                    col.violation('C15:%s:equal_rates_vs_%s' % (name, sym), dict(info0, params=qa), {'relerr': err})
    # (3b) a pre-split epoch at the reference size (nuPre = 1) keeps the ancestral population at its equilibrium - with selection too: the
    #      model must then agree with TPre = 0 up to a grid error that contracts under grid refinement
    if 'nuPre' in names and 'TPre' in names:
        for v in (0, 1):
            q = dict(zip(names, default_params(names, v)))
            q['nuPre'] = 1.0
            q0 = dict(q)
            q0['TPre'] = 0.0
            errs = []
            for pts in ({2: (16, 32, 64)}.get(d, (30, 60, 120))):
                a, b = arr(call(f, names, q, d, pts=pts)), arr(call(f, names, q0, d, pts=pts))
                col.tick(transitions=2)
                mk = inner_mask(a.shape)
                errs.append(float(np.abs(a - b)[mk].max() / np.abs(b[mk]).max()))
            if not ((errs[2] <= 0.6 * errs[0] and errs[2] <= 0.05) or errs[2] < 1e-4):
                col.violation('C15:%s:pre_epoch_at_reference_size_changes_the_model' % name, dict(info0, params=q), {'relerr_by_grid': errs})
            else:
                col.observe('pre_epoch_persistence', errs[2] / 0.05)
    # (4) label-swap equivariance on a time-step ladder
    swapmap = swap_rule(names, d)
    if 'f' in names or 'admix_origin' in name:
        swapmap = None            # admixture is directional: these models are not symmetric in the labels
    if swapmap is not None:
        for v in (0, 1):
            q = dict(zip(names, default_params(names, v)))
            if 'gamma1' in q and 'gamma2' in q:
                q['gamma2'] = q['gamma1']      # the ancestral population carries gamma1: the models are label-symmetric only for equal selection
            qs = {}
            for x in names:
                y = swapmap.get(x, x)
                qs[x] = (1.0 - q[x]) if y == '1-s' else q[y]
            errs = []
            for tf in (1e-3, 1e-4):
                a = arr(call(f, names, q, d, tf=tf))
                nsrev = swap_ns(NS[d], d)
                import dadi as _d
                old = _d.Integration.timescale_factor
                _d.Integration.timescale_factor = tf
                try:
                    b = arr(f([qs[x] for x in names], nsrev, PTS[d]))
                finally:
                    _d.Integration.timescale_factor = old
                col.tick(transitions=2)
                bt = np.swapaxes(b, 0, 1) if d == 2 else np.swapaxes(b, 1, 2)
                mk = inner_mask(a.shape)
                sc = float(np.abs(a[mk]).max())
                errs.append(float(np.abs(a - bt)[mk].max()) / sc)
            if not (errs[1] <= 2e-3 and (errs[0] < 1e-9 or errs[1] <= 0.6 * errs[0] + 1e-10 or errs[1] <= 5e-5)):
                col.violation('C15:%s:not_equivariant_under_label_swap' % name, dict(info0, params=q, swapped=qs), {'relerr_by_step': errs})
            else:
                col.observe('swap_equivariance', errs[1] / 2e-3)
    col.tick(states=n, traces=n)
    col.distinct('nontrivial', ('model', name))


def swap_ns(ns, d):
    if d == 2:
        return (ns[1], ns[0])
    return (ns[0], ns[2], ns[1])


def swap_rule(names, d):
    """parameter-name map for exchanging population labels, or None if the name set is not closed under it"""
    if d == 2:
        a, b = '1', '2'
    elif d == 3:
        a, b = '2', '3'
    else:
        return None
    m = {}
    if d == 3 and 'nuEu' in names and 'nuAs' in names:
        # populations 2 and 3 named Eu / As (out_of_africa): exchange the two tokens in every parameter name
        for x in names:
            y = x.replace('Eu', '\0').replace('As', 'Eu').replace('\0', 'As')
            if 'Eu' in x and 'As' in x:
                continue            # mEuAs: symmetric rate between the two
            if y != x:
                if y not in names:
                    return None
                m[x] = y
        return m or None
    for x in names:
        if x == 's' and d == 2:
            m[x] = '1-s'
            continue
        if x in ('f',) or x.startswith('T') or x in ('m', 'nuB', 'nuF', 'nuPre', 'nuA', 'mA'):
            continue
        y = x
        if x.startswith('m') and len(x) >= 3 and x[1].isdigit() and x[2].isdigit():
            y = 'm' + ''.join({a: b, b: a}.get(ch, ch) for ch in x[1:3]) + x[3:]
        elif x.startswith('nu') or x.startswith('gamma'):
            stem = x.rstrip('ab')
            suf = x[len(stem):]
            if stem.endswith(a):
                y = stem[:-1] + b + suf
            elif stem.endswith(b):
                y = stem[:-1] + a + suf
        elif d == 3 and x in ('m1', 'm2', 'm3'):
            return None          # adjacency-coded migration parameters: no generic rule
        if y != x:
            if y not in names:
                return None
            m[x] = y
    if d == 2 and not any(x.startswith('nu') and x != 'nuB' and x != 'nuF' and x != 'nuPre' for x in names) and 's' not in names:
        return None
    if d == 2 and ('founder' in ''.join(names)):
        return None
    return m if m else None


# ------------------------------------------------------------------------------------------------ explicit nesting graph
def EDGES():
    """(A, B, param map for A (dict over generic lattice L), param map for B, class)   class '==' round-off, '~' time-step ladder"""
    E = []

    def e(A, B, pa, pb, cls='=='):
        E.append((A, B, pa, pb, cls))
    # 1-D
    e('two_epoch', 'snm_1d', lambda L: dict(nu=L['nu'], T=0.0), lambda L: {})
    e('three_epoch', 'two_epoch', lambda L: dict(nuB=L['nuB'], nuF=L['nuF'], TB=L['TB'], TF=0.0), lambda L: dict(nu=L['nuB'], T=L['TB']))
    e('three_epoch', 'two_epoch', lambda L: dict(nuB=L['nuB'], nuF=L['nuF'], TB=0.0, TF=L['TF']), lambda L: dict(nu=L['nuF'], T=L['TF']))
    e('three_epoch', 'two_epoch', lambda L: dict(nuB=L['nu'], nuF=L['nu'], TB=L['TB'], TF=L['TF']), lambda L: dict(nu=L['nu'], T=L['TB'] + L['TF']), '~')
    e('bottlegrowth_1d', 'growth', lambda L: dict(nuB=1.0, nuF=L['nuF'], T=L['T']), lambda L: dict(nu=L['nuF'], T=L['T']))
    e('growth', 'two_epoch', lambda L: dict(nu=1.0, T=L['T']), lambda L: dict(nu=1.0, T=L['T']), '~')
    e('two_epoch_sel', 'equil', lambda L: dict(nu=L['nu'], T=0.0, gamma=L['gamma']), lambda L: dict(gamma=L['gamma']))
    # 2-D core
    e('bottlegrowth_2d', 'bottlegrowth_split_mig', lambda L: dict(nuB=L['nuB'], nuF=L['nuF'], T=L['T']), lambda L: dict(nuB=L['nuB'], nuF=L['nuF'], m=0.0, T=L['T'], Ts=0.0))
    e('bottlegrowth_split', 'bottlegrowth_split_mig', lambda L: dict(nuB=L['nuB'], nuF=L['nuF'], T=L['T'], Ts=L['Ts'] * 0.4), lambda L: dict(nuB=L['nuB'], nuF=L['nuF'], m=0.0, T=L['T'], Ts=L['Ts'] * 0.4))
    e('split_mig', 'split_asym_mig', lambda L: dict(nu1=L['nu1'], nu2=L['nu2'], T=L['T'], m=L['m']), lambda L: dict(nu1=L['nu1'], nu2=L['nu2'], T=L['T'], m12=L['m'], m21=L['m']))
    e('split_mig', 'sym_mig', lambda L: dict(nu1=L['nu1'], nu2=L['nu2'], T=L['T'], m=L['m']), lambda L: dict(nu1=L['nu1'], nu2=L['nu2'], m=L['m'], T=L['T']))
    e('split_asym_mig', 'asym_mig', lambda L: dict(nu1=L['nu1'], nu2=L['nu2'], T=L['T'], m12=L['m12'], m21=L['m21']), lambda L: dict(nu1=L['nu1'], nu2=L['nu2'], m12=L['m12'], m21=L['m21'], T=L['T']))
    e('split_mig', 'no_mig', lambda L: dict(nu1=L['nu1'], nu2=L['nu2'], T=L['T'], m=0.0), lambda L: dict(nu1=L['nu1'], nu2=L['nu2'], T=L['T']))
    e('split_delay_mig', 'split_asym_mig', lambda L: dict(nu1=L['nu1'], nu2=L['nu2'], Tpre=0.0, Tmig=L['T'], m12=L['m12'], m21=L['m21']), lambda L: dict(nu1=L['nu1'], nu2=L['nu2'], T=L['T'], m12=L['m12'], m21=L['m21']))
    e('split_delay_mig', 'no_mig', lambda L: dict(nu1=L['nu1'], nu2=L['nu2'], Tpre=L['T'], Tmig=0.0, m12=L['m12'], m21=L['m21']), lambda L: dict(nu1=L['nu1'], nu2=L['nu2'], T=L['T']))
    e('split_delay_mig', 'sec_contact_asym_mig', lambda L: dict(nu1=L['nu1'], nu2=L['nu2'], Tpre=L['T1'], Tmig=L['T2'], m12=L['m12'], m21=L['m21']), lambda L: dict(nu1=L['nu1'], nu2=L['nu2'], m12=L['m12'], m21=L['m21'], T1=L['T1'], T2=L['T2']))
    e('IM_pre', 'IM', lambda L: dict(nuPre=1.0, TPre=0.0, s=L['s'], nu1=L['nu1'], nu2=L['nu2'], T=L['T'], m12=L['m12'], m21=L['m21']), lambda L: dict(s=L['s'], nu1=L['nu1'], nu2=L['nu2'], T=L['T'], m12=L['m12'], m21=L['m21']))
    e('IM_pre', 'IM_pre_sel', lambda L: dict(nuPre=L['nuPre'], TPre=0.0, s=L['s'], nu1=L['nu1'], nu2=L['nu2'], T=L['T'], m12=L['m12'], m21=L['m21']),
      lambda L: dict(nuPre=L['nuPre'], TPre=0.0, s=L['s'], nu1=L['nu1'], nu2=L['nu2'], T=L['T'], m12=L['m12'], m21=L['m21'], gamma1=0.0, gamma2=0.0))
    e('IM', 'split_asym_mig', lambda L: dict(s=L['s'], nu1=L['s'], nu2=1 - L['s'], T=L['T'], m12=L['m12'], m21=L['m21']), lambda L: dict(nu1=L['s'], nu2=1 - L['s'], T=L['T'], m12=L['m12'], m21=L['m21']), '~')
    e('IM_sel', 'IM_pre_sel', lambda L: dict(s=L['s'], nu1=L['nu1'], nu2=L['nu2'], T=L['T'], m12=L['m12'], m21=L['m21'], gamma1=L['gamma1'], gamma2=L['gamma2']),
      lambda L: dict(nuPre=1.0, TPre=0.0, s=L['s'], nu1=L['nu1'], nu2=L['nu2'], T=L['T'], m12=L['m12'], m21=L['m21'], gamma1=L['gamma1'], gamma2=L['gamma2']))
    e('bottlegrowth_2d_sel', 'bottlegrowth_split_mig_sel', lambda L: dict(nuB=L['nuB'], nuF=L['nuF'], T=L['T'], gamma1=L['gamma1'], gamma2=L['gamma2']),
      lambda L: dict(nuB=L['nuB'], nuF=L['nuF'], m=0.0, T=L['T'], Ts=0.0, gamma1=L['gamma1'], gamma2=L['gamma2']))
    e('bottlegrowth_split_sel', 'bottlegrowth_split_mig_sel', lambda L: dict(nuB=L['nuB'], nuF=L['nuF'], T=L['T'], Ts=L['Ts'] * 0.4, gamma1=L['gamma1'], gamma2=L['gamma2']),
      lambda L: dict(nuB=L['nuB'], nuF=L['nuF'], m=0.0, T=L['T'], Ts=L['Ts'] * 0.4, gamma1=L['gamma1'], gamma2=L['gamma2']))
    # constant-size special case of the bottleneck-growth-split family (both regimes Ts < T and Ts > T) against the plain split model
    for fac in (1.6,):      # Ts > T only: for Ts < T the one-population phase makes the identity hold only up to grid error
        e('bottlegrowth_split_mig_sel', 'split_mig_sel', lambda L, fac=fac: dict(nuB=1.0, nuF=1.0, m=L['m'], T=L['T'], Ts=L['T'] * fac, gamma1=L['gamma1'], gamma2=L['gamma2']),
          lambda L, fac=fac: dict(nu1=1.0, nu2=1.0, T=L['T'] * fac, m=L['m'], gamma1=L['gamma1'], gamma2=L['gamma2']), '~')
        e('bottlegrowth_split_mig', 'split_mig', lambda L, fac=fac: dict(nuB=1.0, nuF=1.0, m=L['m'], T=L['T'], Ts=L['T'] * fac),
          lambda L, fac=fac: dict(nu1=1.0, nu2=1.0, T=L['T'] * fac, m=L['m']), '~')
    # Portik 2-D
    P = lambda **kw: (lambda L: {k: (L[v] if isinstance(v, str) else v) for k, v in kw.items()})
    e('anc_sym_mig', 'sym_mig', P(nu1='nu1', nu2='nu2', m='m', T1='T1', T2=0.0), P(nu1='nu1', nu2='nu2', m='m', T='T1'))
    e('anc_sym_mig', 'no_mig', P(nu1='nu1', nu2='nu2', m='m', T1=0.0, T2='T2'), P(nu1='nu1', nu2='nu2', T='T2'))
    e('anc_sym_mig', 'no_mig', P(nu1='nu1', nu2='nu2', m=0.0, T1='T1', T2='T2'), lambda L: dict(nu1=L['nu1'], nu2=L['nu2'], T=L['T1'] + L['T2']), '~')
    e('sec_contact_sym_mig', 'sym_mig', P(nu1='nu1', nu2='nu2', m='m', T1=0.0, T2='T2'), P(nu1='nu1', nu2='nu2', m='m', T='T2'))
    e('sec_contact_sym_mig', 'no_mig', P(nu1='nu1', nu2='nu2', m='m', T1='T1', T2=0.0), P(nu1='nu1', nu2='nu2', T='T1'))
    e('no_mig_size', 'no_mig', P(nu1a='nu1a', nu2a='nu2a', nu1b='nu1b', nu2b='nu2b', T1='T1', T2=0.0), P(nu1='nu1a', nu2='nu2a', T='T1'))
    e('no_mig_size', 'no_mig', P(nu1a='nu1a', nu2a='nu2a', nu1b='nu1b', nu2b='nu2b', T1=0.0, T2='T2'), P(nu1='nu1b', nu2='nu2b', T='T2'))
    e('no_mig_size', 'no_mig', P(nu1a='nu1', nu2a='nu2', nu1b='nu1', nu2b='nu2', T1='T1', T2='T2'), lambda L: dict(nu1=L['nu1'], nu2=L['nu2'], T=L['T1'] + L['T2']), '~')
    e('sym_mig_size', 'no_mig_size', P(nu1a='nu1a', nu2a='nu2a', nu1b='nu1b', nu2b='nu2b', m=0.0, T1='T1', T2='T2'), P(nu1a='nu1a', nu2a='nu2a', nu1b='nu1b', nu2b='nu2b', T1='T1', T2='T2'))
    e('sym_mig_size', 'sym_mig', P(nu1a='nu1a', nu2a='nu2a', nu1b='nu1b', nu2b='nu2b', m='m', T1='T1', T2=0.0), P(nu1='nu1a', nu2='nu2a', m='m', T='T1'))
    e('anc_sym_mig_size', 'no_mig_size', P(nu1a='nu1a', nu2a='nu2a', nu1b='nu1b', nu2b='nu2b', m=0.0, T1='T1', T2='T2'), P(nu1a='nu1a', nu2a='nu2a', nu1b='nu1b', nu2b='nu2b', T1='T1', T2='T2'))
    e('anc_sym_mig_size', 'sym_mig', P(nu1a='nu1a', nu2a='nu2a', nu1b='nu1b', nu2b='nu2b', m='m', T1='T1', T2=0.0), P(nu1='nu1a', nu2='nu2a', m='m', T='T1'))
    e('sec_contact_sym_mig_size', 'no_mig_size', P(nu1a='nu1a', nu2a='nu2a', nu1b='nu1b', nu2b='nu2b', m=0.0, T1='T1', T2='T2'), P(nu1a='nu1a', nu2a='nu2a', nu1b='nu1b', nu2b='nu2b', T1='T1', T2='T2'))
    e('sec_contact_sym_mig_size', 'sym_mig', P(nu1a='nu1a', nu2a='nu2a', nu1b='nu1b', nu2b='nu2b', m='m', T1=0.0, T2='T2'), P(nu1='nu1b', nu2='nu2b', m='m', T='T2'))
    e('sym_mig_twoepoch', 'anc_sym_mig', P(nu1='nu1', nu2='nu2', m1='m1', m2=0.0, T1='T1', T2='T2'), P(nu1='nu1', nu2='nu2', m='m1', T1='T1', T2='T2'))
    e('sym_mig_twoepoch', 'sec_contact_sym_mig', P(nu1='nu1', nu2='nu2', m1=0.0, m2='m2', T1='T1', T2='T2'), P(nu1='nu1', nu2='nu2', m='m2', T1='T1', T2='T2'))
    e('sym_mig_twoepoch', 'sym_mig', P(nu1='nu1', nu2='nu2', m1='m1', m2='m2', T1='T1', T2=0.0), P(nu1='nu1', nu2='nu2', m='m1', T='T1'))
    e('sym_mig_twoepoch', 'sym_mig', P(nu1='nu1', nu2='nu2', m1='m', m2='m', T1='T1', T2='T2'), lambda L: dict(nu1=L['nu1'], nu2=L['nu2'], m=L['m'], T=L['T1'] + L['T2']), '~')
    e('sec_contact_sym_mig_three_epoch', 'sec_contact_sym_mig', P(nu1='nu1', nu2='nu2', m='m', T1='T1', T2='T2', T3=0.0), P(nu1='nu1', nu2='nu2', m='m', T1='T1', T2='T2'))
    e('sec_contact_sym_mig_three_epoch', 'anc_sym_mig', P(nu1='nu1', nu2='nu2', m='m', T1=0.0, T2='T2', T3='T3'), P(nu1='nu1', nu2='nu2', m='m', T1='T2', T2='T3'))
    e('sec_contact_sym_mig_size_three_epoch', 'sec_contact_sym_mig_size', P(nu1a='nu1a', nu2a='nu2a', nu1b='nu1b', nu2b='nu2b', m='m', T1='T1', T2='T2', T3=0.0),
      P(nu1a='nu1a', nu2a='nu2a', nu1b='nu1b', nu2b='nu2b', m='m', T1='T1', T2='T2'))
    e('vic_no_mig', 'no_mig', P(T='T', s='s'), lambda L: dict(nu1=1 - L['s'], nu2=L['s'], T=L['T']))
    e('vic_anc_sym_mig', 'anc_sym_mig', P(m='m', T1='T1', T2='T2', s='s'), lambda L: dict(nu1=1 - L['s'], nu2=L['s'], m=L['m'], T1=L['T1'], T2=L['T2']))
    e('vic_sec_contact_sym_mig', 'sec_contact_sym_mig', P(m='m', T1='T1', T2='T2', s='s'), lambda L: dict(nu1=1 - L['s'], nu2=L['s'], m=L['m'], T1=L['T1'], T2=L['T2']))
    e('founder_sym', 'founder_nomig', P(nu2='nu2', m=0.0, T='T', s='s'), P(nu2='nu2', T='T', s='s'))
    e('founder_nomig', 'vic_no_mig', lambda L: dict(nu2=L['s'], T=L['T'], s=L['s']), P(T='T', s='s'), '~')
    e('vic_no_mig_admix_early', 'vic_no_mig', P(T='T', s='s', f=0.0), P(T='T', s='s'), '~')
    e('vic_no_mig_admix_late', 'vic_no_mig', P(T='T', s='s', f=0.0), P(T='T', s='s'), '~')
    e('vic_two_epoch_admix', 'vic_no_mig_admix_late', P(T1='T1', T2=0.0, s='s', f='f'), P(T='T1', s='s', f='f'))
    e('vic_two_epoch_admix', 'vic_no_mig_admix_early', P(T1=0.0, T2='T2', s='s', f='f'), P(T='T2', s='s', f='f'))
    e('founder_nomig_admix_early', 'founder_nomig', P(nu2='nu2', T='T', s='s', f=0.0), P(nu2='nu2', T='T', s='s'), '~')
    e('founder_nomig_admix_late', 'founder_nomig', P(nu2='nu2', T='T', s='s', f=0.0), P(nu2='nu2', T='T', s='s'), '~')
    e('founder_nomig_admix_two_epoch', 'founder_nomig_admix_late', P(nu2='nu2', T1='T1', T2=0.0, s='s', f='f'), P(nu2='nu2', T='T1', s='s', f='f'))
    # 3-D
    e('split_symmig_all', 'split_nomig', P(nu1='nu1', nuA='nuA', nu2='nu2', nu3='nu3', mA=0.0, m1=0.0, m2=0.0, m3=0.0, T1='T1', T2='T2'), P(nu1='nu1', nuA='nuA', nu2='nu2', nu3='nu3', T1='T1', T2='T2'))
    e('split_symmig_adjacent', 'split_symmig_all', P(nu1='nu1', nuA='nuA', nu2='nu2', nu3='nu3', mA='mA', m1='m1', m2='m2', T1='T1', T2='T2'),
      P(nu1='nu1', nuA='nuA', nu2='nu2', nu3='nu3', mA='mA', m1='m1', m2='m2', m3=0.0, T1='T1', T2='T2'))
    e('split_nomig', 'sim_split_no_mig', P(nu1='nu1', nuA='nuA', nu2='nu2', nu3='nu3', T1=0.0, T2='T2'), P(nu1='nu1', nu2='nu2', nu3='nu3', T1='T2'))
    e('refugia_adj_2', 'split_symmig_adjacent', P(nu1='nu1', nuA='nuA', nu2='nu2', nu3='nu3', m1='m1', m2='m2', T1='T1', T2='T2'),
      P(nu1='nu1', nuA='nuA', nu2='nu2', nu3='nu3', mA=0.0, m1='m1', m2='m2', T1='T1', T2='T2'))
    e('refugia_adj_1', 'split_nomig', P(nu1='nu1', nuA='nuA', nu2='nu2', nu3='nu3', m1='m1', m2='m2', T1='T1', T2='T2', T3=0.0), P(nu1='nu1', nuA='nuA', nu2='nu2', nu3='nu3', T1='T1', T2='T2'))
    e('refugia_adj_1', 'refugia_adj_2', P(nu1='nu1', nuA='nuA', nu2='nu2', nu3='nu3', m1='m1', m2='m2', T1='T1', T2=0.0, T3='T3'), P(nu1='nu1', nuA='nuA', nu2='nu2', nu3='nu3', m1='m1', m2='m2', T1='T1', T2='T3'))
    e('refugia_adj_3', 'split_symmig_adjacent', P(nu1='nu1', nuA='nuA', nu2='nu2', nu3='nu3', mA='mA', m1='m1', m2='m2', T1a=0.0, T1b='T1', T2='T2'),
      P(nu1='nu1', nuA='nuA', nu2='nu2', nu3='nu3', mA='mA', m1='m1', m2='m2', T1='T1', T2='T2'))
    e('refugia_adj_3', 'refugia_adj_2', P(nu1='nu1', nuA='nuA', nu2='nu2', nu3='nu3', mA='mA', m1='m1', m2='m2', T1a='T1', T1b=0.0, T2='T2'),
      P(nu1='nu1', nuA='nuA', nu2='nu2', nu3='nu3', m1='m1', m2='m2', T1='T1', T2='T2'))
    e('ancmig_adj_2', 'split_symmig_adjacent', P(nu1='nu1', nuA='nuA', nu2='nu2', nu3='nu3', mA='mA', T1='T1', T2='T2'),
      P(nu1='nu1', nuA='nuA', nu2='nu2', nu3='nu3', mA='mA', m1=0.0, m2=0.0, T1='T1', T2='T2'))
    e('ancmig_adj_3', 'ancmig_adj_2', P(nu1='nu1', nuA='nuA', nu2='nu2', nu3='nu3', mA='mA', T1a='T1', T1b=0.0, T2='T2'), P(nu1='nu1', nuA='nuA', nu2='nu2', nu3='nu3', mA='mA', T1='T1', T2='T2'))
    e('ancmig_adj_3', 'split_nomig', P(nu1='nu1', nuA='nuA', nu2='nu2', nu3='nu3', mA='mA', T1a=0.0, T1b='T1', T2='T2'), P(nu1='nu1', nuA='nuA', nu2='nu2', nu3='nu3', T1='T1', T2='T2'))
    e('ancmig_adj_1', 'split_symmig_adjacent', P(nu1='nu1', nuA='nuA', nu2='nu2', nu3='nu3', mA='mA', m1='m1', m2='m2', T1='T1', T2='T2', T3=0.0),
      P(nu1='nu1', nuA='nuA', nu2='nu2', nu3='nu3', mA='mA', m1='m1', m2='m2', T1='T1', T2='T2'))
    e('sim_split_sym_mig_adjacent', 'sim_split_sym_mig_all', P(nu1='nu1', nu2='nu2', nu3='nu3', m1='m1', m2='m2', T1='T1'), P(nu1='nu1', nu2='nu2', nu3='nu3', m1='m1', m2='m2', m3=0.0, T1='T1'))
    e('sim_split_sym_mig_all', 'sim_split_no_mig', P(nu1='nu1', nu2='nu2', nu3='nu3', m1=0.0, m2=0.0, m3=0.0, T1='T1'), P(nu1='nu1', nu2='nu2', nu3='nu3', T1='T1'))
    e('sim_split_no_mig_size', 'sim_split_no_mig', P(nu1a='nu1a', nu2a='nu2a', nu3a='nu3a', nu1b='nu1b', nu2b='nu2b', nu3b='nu3b', T1='T1', T2=0.0), P(nu1='nu1a', nu2='nu2a', nu3='nu3a', T1='T1'))
    e('sim_split_refugia_sym_mig_all', 'sim_split_sym_mig_all', P(nu1='nu1', nu2='nu2', nu3='nu3', m1='m1', m2='m2', m3='m3', T1=0.0, T2='T2'), P(nu1='nu1', nu2='nu2', nu3='nu3', m1='m1', m2='m2', m3='m3', T1='T2'))
    e('sim_split_refugia_sym_mig_all', 'sim_split_no_mig', P(nu1='nu1', nu2='nu2', nu3='nu3', m1='m1', m2='m2', m3='m3', T1='T1', T2=0.0), P(nu1='nu1', nu2='nu2', nu3='nu3', T1='T1'))
    e('split_nomig_size', 'split_nomig', P(nu1a='nu1a', nuA='nuA', nu2a='nu2a', nu3a='nu3a', nu1b='nu1b', nu2b='nu2b', nu3b='nu3b', T1='T1', T2='T2', T3=0.0), P(nu1='nu1a', nuA='nuA', nu2='nu2a', nu3='nu3a', T1='T1', T2='T2'))
    e('ancmig_2_size', 'split_nomig_size', P(nu1a='nu1a', nuA='nuA', nu2a='nu2a', nu3a='nu3a', nu1b='nu1b', nu2b='nu2b', nu3b='nu3b', mA=0.0, T1='T1', T2='T2', T3='T3'),
      P(nu1a='nu1a', nuA='nuA', nu2a='nu2a', nu3a='nu3a', nu1b='nu1b', nu2b='nu2b', nu3b='nu3b', T1='T1', T2='T2', T3='T3'))
    e('ancmig_2_size', 'ancmig_adj_2', P(nu1a='nu1a', nuA='nuA', nu2a='nu2a', nu3a='nu3a', nu1b='nu1b', nu2b='nu2b', nu3b='nu3b', mA='mA', T1='T1', T2='T2', T3=0.0),
      P(nu1='nu1a', nuA='nuA', nu2='nu2a', nu3='nu3a', mA='mA', T1='T1', T2='T2'))
    e('admix_origin_sym_mig_adj', 'admix_origin_no_mig', P(nu1='nu1', nu2='nu2', nu3='nu3', m2=0.0, m3=0.0, T1='T1', T2='T2', f='f'), P(nu1='nu1', nu2='nu2', nu3='nu3', T1='T1', T2='T2', f='f'))
    e('admix_origin_uni_mig_adj', 'admix_origin_no_mig', P(nu1='nu1', nu2='nu2', nu3='nu3', m32=0.0, m31=0.0, T1='T1', T2='T2', f='f'), P(nu1='nu1', nu2='nu2', nu3='nu3', T1='T1', T2='T2', f='f'))
    for var, par in (('refugia_adj_2_var_sym', 'refugia_adj_2'), ('refugia_adj_2_var_uni', 'refugia_adj_2')):
        mm = ('m2', 'm3') if var.endswith('sym') else ('m32', 'm31')
        e(var, 'split_nomig', lambda L, mm=mm: dict(nu1=L['nu1'], nuA=L['nuA'], nu2=L['nu2'], nu3=L['nu3'], T1=L['T1'], T2=L['T2'], **{mm[0]: 0.0, mm[1]: 0.0}),
          P(nu1='nu1', nuA='nuA', nu2='nu2', nu3='nu3', T1='T1', T2='T2'))
    for var in ('sim_split_sym_mig_adjacent_var', 'sim_split_uni_mig_adjacent_var'):
        mm = ('m2', 'm3') if 'sym' in var else ('m32', 'm31')
        e(var, 'sim_split_no_mig', lambda L, mm=mm: dict(nu1=L['nu1'], nu2=L['nu2'], nu3=L['nu3'], T1=L['T1'], **{mm[0]: 0.0, mm[1]: 0.0}), P(nu1='nu1', nu2='nu2', nu3='nu3', T1='T1'))
    return E


def lattice_point(v):
    keys = ['nu', 'nu1', 'nu2', 'nu3', 'nuA', 'nuB', 'nuF', 'nuPre', 'nu1a', 'nu2a', 'nu3a', 'nu1b', 'nu2b', 'nu3b', 'm', 'm12', 'm21', 'mA', 'm1', 'm2', 'm3', 'T', 'T1', 'T2', 'T3',
            'TB', 'TF', 'Ts', 's', 'f', 'gamma', 'gamma1', 'gamma2']
    return {k: value_for(k, v) for k in keys}


def case_edge(col, p):
    cat = catalogue()
    A, B, pa, pb, cls = EDGES()[p['edge']]
    if A not in cat or B not in cat:
        col.violation('C15:nesting_graph:model_missing', dict(kind='edge', edge=p['edge'], A=A, B=B), '')
        return
    fa, fb = cat[A][0], cat[B][0]
    na, nb = list(fa.__param_names__), list(fb.__param_names__)
    d = p['npop']
    n = 0
    for v in p.get('variants', (0, 1)):
        L = lattice_point(v)
        qa, qb = pa(L), pb(L)
        if set(qa) != set(na) or set(qb) != set(nb):
            col.violation('harness:C15:edge_parameter_names', dict(kind='edge', edge=p['edge'], A=A, B=B), {'A': sorted(set(qa) ^ set(na)), 'B': sorted(set(qb) ^ set(nb))})
            return
        info = dict(kind='edge', edge=p['edge'], npop=d, A=A, B=B, paramsA=qa, paramsB=qb, cls=cls)
        try:
            if cls == '==':
                a, b = call(fa, na, qa, d), call(fb, nb, qb, d)
                col.tick(transitions=2)
                ok, err = close(a, b, 1e-11)
                if not ok:
                    col.violation('C15:nesting:%s->%s' % (A, B), info, {'relerr': err})
                else:
                    col.observe('nesting_exact', err / 1e-11 if err else 0.0)
            else:
                errs = []
                for tf in (1e-3, 1e-4):
                    a, b = call(fa, na, qa, d, tf=tf), call(fb, nb, qb, d, tf=tf)
                    col.tick(transitions=2)
                    errs.append(close(a, b, 1.0)[1])
                if not (errs[1] <= 2e-3 and (errs[0] < 1e-9 or errs[1] <= 0.6 * errs[0] + 1e-10 or errs[1] <= 5e-5)):
                    col.violation('C15:nesting:%s~>%s' % (A, B), info, {'relerr_by_step': errs})
                else:
                    col.observe('nesting_ladder', errs[1] / 2e-3)
        except Exception as e:
            col.violation('C15:nesting:%s->%s:raises' % (A, B), info, '%s: %s' % (type(e).__name__, str(e)[:200]))
        n += 1
    col.tick(states=n, traces=n)
    col.distinct('nontrivial', ('edge', A, B, p['edge']))


def auto_edges():
    """nesting edges derived from the models' call programs by tools/discover_c15_edges.py (data file, reviewed; never written at check time)"""
    import json
    import os
    fn = os.path.join(os.path.dirname(os.path.abspath(__file__)), 'C15_auto_edges.json')
    return json.load(open(fn)) if os.path.exists(fn) else []


def case_auto_edge(col, p):
    cat = catalogue()
    n = 0
    for e in p['edges']:
        A, B = e['A'], e['B']
        if A not in cat or B not in cat:
            col.violation('C15:nesting_graph:model_missing', dict(kind='auto_edge', A=A, B=B), '')
            continue
        fa, fb = cat[A][0], cat[B][0]
        na, nb = list(fa.__param_names__), list(fb.__param_names__)
        d = e['npop']
        for v in p.get('variants', (0, 1)):
            qa = {x: (0.0 if x in e['zero'] else value_for(x, v)) for x in na}
            if set(e['qb']) != set(nb) or any(isinstance(val, str) and val[2:] not in qa for val in e['qb'].values()):
                col.violation('harness:C15:edge_parameter_names', dict(kind='auto_edge', A=A, B=B), 'parameter names changed since the edge file was derived')
                break
            qb = {k: (qa[val[2:]] if isinstance(val, str) else val) for k, val in e['qb'].items()}
            info = dict(kind='auto_edge', edges=[e], variants=[v], A=A, B=B, paramsA=qa, paramsB=qb)
            try:
                a, b = call(fa, na, qa, d), call(fb, nb, qb, d)
                col.tick(transitions=2)
                ok, err = close(a, b, 1e-11)
                if not ok:
                    col.violation('C15:nesting:%s->%s' % (A, B), info, {'relerr': err, 'at': 'zero ' + ','.join(e['zero'])})
                else:
                    col.observe('nesting_exact', err / 1e-11 if err else 0.0)
            except Exception as ex:
                col.violation('C15:nesting:%s->%s:raises' % (A, B), info, '%s: %s' % (type(ex).__name__, str(ex)[:200]))
            n += 1
        col.distinct('nontrivial', ('auto_edge', A, B, tuple(e['zero'])))
    col.tick(states=n, traces=n)


CASES = {'model': case_model, 'edge': case_edge, 'auto_edge': case_auto_edge}


def _dispatch(col, case):
    CASES[case['kind']](col, case)


def replay(ctx, case):
    _dispatch(ctx, case)


def run(ctx):
    cat = catalogue()
    npops = {}
    for name, (f, modname) in cat.items():
        npops[name] = npop_of(name, f)
    cases = []
    variants = [0, 1] if ctx.quick else [0, 1, 2, 3, 4, 5]
    for name in sorted(cat):
        if npops[name] is None:
            ctx.violation('C15:%s:cannot_be_evaluated' % name, {'model': name}, 'no sample-size signature worked')
            continue
        cases.append({'kind': 'model', 'model': name, 'npop': npops[name], 'variants': variants})
    edges = EDGES()
    for i, (A, B, pa, pb, cls) in enumerate(edges):
        d = npops.get(A)
        if d is None:
            continue
        cases.append({'kind': 'edge', 'edge': i, 'npop': d, 'variants': variants})
    AE = auto_edges()
    per = 6
    for lo in range(0, len(AE), per):
        cases.append({'kind': 'auto_edge', 'edges': AE[lo:lo + per], 'npop': max(e['npop'] for e in AE[lo:lo + per]), 'variants': variants})
    ctx.note('program-derived nesting edges (zero-length epochs, zero migration): %d' % len(AE))
    ctx.note('catalogue: %d models (%s); explicit nesting edges: %d' % (len(cat), ', '.join('%dD:%d' % (d, sum(1 for v in npops.values() if v == d)) for d in (1, 2, 3)), len(edges)))
    cases.sort(key=lambda c: -c['npop'])
    explore.pmap(ctx, _dispatch, cases, chunk=1)
    ctx.tick(evaluations=len(cases))
    for c in (cases[0], cases[len(cases) // 2], cases[-1]):
        ctx.sample(c)
    ctx.rule = ('every model of the catalogue x (arity, parameter lattice with per-parameter corners, zero-length epochs, name-derived nesting rules, label swap) and '
                'every edge of the explicit nesting graph x 2 (quick) / 6 (thorough) lattice points. distinct_nontrivial = distinct models / edges evaluated')
    ctx.assume('grids are coarse (identities hold at any grid); "~" edges and label swaps are exact only up to operator splitting and are decided on a time-step ladder')
