"""C07 – grid extrapolation is exact for polynomial grid dependence, k = 1..6.

Exhaustive over: k in 1..7, every monomial degree < k (+ one full-degree polynomial with seed coefficients),
ALL k! orderings of k distinct grid sizes, x-source {explicit list, extrap_x attribute, default_grid(pts)[1]},
result type {ndarray, Spectrum with mask+labels}, mode {linear, log}, call style {positional, pts= keyword},
fallback thresholds (fail_mag 10 and 5, both sides), no_extrap, scalar pts.
Oracle: exact Lagrange value at x=0 computed in Fractions from the very floats the implementation sees.
"""
import itertools
import math
from fractions import Fraction

import numpy as np

from mc import explore

LEVEL = 'model_checking'
PTS_POOL = [40, 50, 60, 70, 80, 90, 100]
NENT = 6     # entries per result (Spectrum with ns=5)


def lagrange0(xs, ys):
    """exact Lagrange interpolation value at 0; xs floats, ys floats (exact binary values)"""
    fx = [Fraction(x) for x in xs]
    tot = Fraction(0)
    cond = Fraction(0)
    for i, xi in enumerate(fx):
        w = Fraction(1)
        for j, xj in enumerate(fx):
            if j != i:
                w *= xj / (xj - xi)
        t = w * Fraction(ys[i])
        tot += t
        cond += abs(t)
    return tot, cond


def x_of(pts, xsrc):
    import dadi
    if xsrc == 'dyadic':
        # explicit list: exact dyadic rationals, decreasing with pts
        return (13 - pts // 10) / 64.0
    return float(dadi.Numerics.default_grid(pts)[1])


def coeffs(seed, k, deg, ent):
    """polynomial coefficients c_0..c_{k-1} for entry `ent`.  deg>=0: monomial (ent+1)*x^deg; deg==-1: full."""
    if deg >= 0:
        # constant part keeps the exact value away from 0 (an exact 0 is 'infinitely many decades' from the
        # finest-grid value and legitimately triggers the documented fallback)
        c = [0] * k
        c[0] = ent + 2
        c[deg] += ent + 1
        return c
    rng = np.random.RandomState(1000 * seed + 10 * k + ent)
    c = [int(v) for v in rng.randint(-9, 10, size=k)]
    if c[0] == 0:
        c[0] = 1      # see above: exact 0 legitimately triggers the fallback
    return c


def model_value(x, seed, k, deg, mode):
    vals = []
    for e in range(NENT):
        c = coeffs(seed, k, deg, e)
        p = sum(cj * x ** j for j, cj in enumerate(c))
        vals.append(math.exp(p) if mode == 'log' else p)
    return np.array(vals, dtype=float)


def case_extrap(col, p):
    import dadi
    k, order, deg, mode, rtype, call, xsrc = p['k'], p['order'], p['deg'], p['mode'], p['rtype'], p['call'], p['xsrc']
    seed = p.get('seed', 0)
    override = xsrc == 'dyadic_override'       # explicit x list given although the results carry their own extrap_x: the explicit list wins
    if override:
        xsrc = 'dyadic'
    # 'tiny': the same dyadic x values scaled by 2^-33 (about 1e-9, the size of the first grid spacing for several thousand grid points), the model a
    # polynomial in x / 2^-33: extrapolation has no absolute scale in x
    xunit = 2.0 ** -33 if xsrc == 'tiny' else 1.0
    xmap = {pts: x_of(pts, 'dyadic' if xsrc == 'tiny' else xsrc) * xunit for pts in order}

    def model(scale, pts):
        y = scale * model_value(xmap[pts] / xunit, seed, k, deg, mode) if mode != 'log' else model_value(xmap[pts] / xunit, seed, k, deg, mode) * scale
        if rtype == 'spectrum':
            fs = dadi.Spectrum(y, mask_corners=True, pop_ids=['popA'])
            fs.mask[2] = True
            fs.extrap_x = xmap[pts] if not override else x_of(pts, 'grid')
            return fs
        if xsrc == 'attr':
            class A(np.ndarray):
                pass
            a = y.view(A)
            a.extrap_x = xmap[pts]
            return a
        return y

    if xsrc in ('attr',) or rtype == 'spectrum' and xsrc == 'grid':
        x_l_arg = None
    else:
        x_l_arg = [xmap[pts] for pts in order]
    if rtype != 'spectrum' and xsrc == 'grid':
        x_l_arg = [xmap[pts] for pts in order]
    if mode == 'log':
        f = dadi.Numerics.make_extrap_log_func(model, extrap_x_l=x_l_arg)
    else:
        f = dadi.Numerics.make_extrap_func(model, extrap_x_l=x_l_arg)
    key_base = 'C07:make_extrap_func:k=%d' % k
    scale = p.get('scale', 1.0)      # the whole model multiplied by a constant (1e-305: entries far below 1e-300 are ordinary numbers in log mode)
    try:
        if call == 'kw':
            res = f(scale, pts=list(order))
        else:
            res = f(scale, list(order))
    except ValueError as e:
        if k > 6 or k == 0:
            col.tick(transitions=1, rejected=1)
            return
        col.violation(key_base + ':raises', p, 'ValueError: %s' % e)
        return
    except Exception as e:
        col.tick(transitions=1)
        col.violation(key_base + ':raises', p, '%s: %s' % (type(e).__name__, e))
        return
    col.tick(transitions=1)
    if k > 6 or k == 0:
        col.violation('C07:make_extrap_func:accepts_k=%d' % k, p, 'no ValueError for %d grid sizes' % k)
        return
    # oracle
    ys = {pts: scale * model_value(xmap[pts] / xunit, seed, k, deg, mode) for pts in order}
    xs = [xmap[pts] for pts in order]
    resd = np.ma.getdata(res) if rtype == 'spectrum' else np.asarray(res)
    ents = range(NENT)
    if rtype == 'spectrum':
        m = np.ma.getmaskarray(res)
        exp_mask = [True, False, True, False, False, True]
        if list(m) != exp_mask:
            col.violation('C07:make_extrap_func:mask', p, {'mask': list(map(bool, m)), 'expected': exp_mask})
        if not isinstance(res, dadi.Spectrum):
            col.violation('C07:make_extrap_func:type', p, str(type(res)))
        elif res.pop_ids != ['popA'] or res.folded:
            col.violation('C07:make_extrap_func:labels', p, {'pop_ids': res.pop_ids, 'folded': res.folded})
        ents = [i for i in range(NENT) if not exp_mask[i]]
    worst = 0.0
    for e in ents:
        yl = [float(np.log(ys[pts][e])) if mode == 'log' else float(ys[pts][e]) for pts in order]
        ex, cond = lagrange0(xs, yl)
        got = float(resd[e])
        if mode == 'log':
            got_l = math.log(got) if got > 0 else float('nan')
            tol = 1e-12 * float(cond) + 1e-13
            err = abs(got_l - float(ex))
        else:
            tol = 1e-12 * float(cond) + 1e-300
            err = abs(Fraction(got) - ex)
            err = float(err)
        if not err <= tol:
            col.violation(key_base + ':value', p, {'entry': e, 'got': got, 'exact': float(ex), 'err': err, 'tol': tol})
            return
        worst = max(worst, err / tol)
        # exactness for polynomial dependence: dyadic x's and integer coefficients make every y exact, so the
        # Lagrange value IS c_0 (linear mode)
        if mode == 'lin' and xsrc in ('dyadic', 'tiny') and scale == 1.0:
            c0 = coeffs(seed, k, deg, e)[0]
            if ex != c0:
                col.violation('harness:oracle', p, 'exact Lagrange %s != c0 %s' % (ex, c0))
    col.observe('value', worst)
    col.distinct('nontrivial', (k, deg, mode, rtype, xsrc, tuple(sorted(order)), scale))


def case_fallback(col, p):
    """Engineer y's so that extrap/best = 10**target; compare with the documented fallback rule."""
    import dadi
    k, order, target, fail_mag, mode = p['k'], p['order'], p['target'], p['fail_mag'], p['mode']
    xmap = {pts: x_of(pts, 'grid') for pts in order}
    xs_sorted = sorted(xmap.values())
    best_pts = min(order, key=lambda q: xmap[q])
    others = [q for q in order if q != best_pts]
    # entries: 0 -> engineered to hit the target ratio, 1 -> harmless (constant 2.0)
    # choose y_best = 1, all other y equal to v, solve  w_best*1 + (1-w_best)*v = 10**target  (weights sum to 1)
    fx = {q: Fraction(xmap[q]) for q in order}
    wb = Fraction(1)
    for q in others:
        wb *= fx[q] / (fx[q] - fx[best_pts])
    T = Fraction(10) ** int(target) * Fraction(10 ** (target - int(target))) if mode == 'lin' else None
    if p.get('sign_change') and mode == 'lin':
        T = -T          # the extrapolated value has the opposite sign of the finest-grid value: no number of decades separates them
    if mode == 'lin':
        v = float((T - wb) / (1 - wb))
        yb = 1.0
    else:
        # log mode: log y_best = 0, log others = v ; extrap log = (1-wb) v ; want = target*ln10
        v = float(Fraction(target * math.log(10)) / (1 - wb))
        yb = 1.0

    spectrum = p.get('rtype') == 'spectrum'

    def model(pts):
        if mode == 'lin':
            y0 = yb if pts == best_pts else v
        else:
            y0 = 1.0 if pts == best_pts else math.exp(v)
        if spectrum:
            fs = dadi.Spectrum([5.0, y0, 2.0, 5.0], mask_corners=True, pop_ids=['popA'])
            fs.extrap_x = xmap[pts]
            return fs
        return np.array([y0, 2.0])

    if p.get('wrapper') and mode == 'log' and fail_mag == 10:
        # the log variant through its own constructor (documented threshold: 10 decades)
        f = dadi.Numerics.make_extrap_log_func(model, extrap_x_l=None if spectrum else [xmap[q] for q in order])
    else:
        f = dadi.Numerics.make_extrap_func(model, extrap_x_l=None if spectrum else [xmap[q] for q in order], extrap_log=(mode == 'log'),
                                           fail_mag=fail_mag)
    try:
        res = f(list(order))
    except Exception as e:
        col.tick(transitions=1)
        col.violation('C07:make_extrap_func:k=%d:raises' % k, p, '%s: %s' % (type(e).__name__, e))
        return
    col.tick(transitions=1)
    if spectrum:
        # whether or not an entry fell back, a Spectrum-valued model gives a Spectrum with its labels, mask and folding status
        if not isinstance(res, dadi.Spectrum) or res.pop_ids != ['popA'] or res.folded or list(np.ma.getmaskarray(res)) != [True, False, False, True]:
            col.violation('C07:fallback:spectrum_attributes_lost', p, {'type': type(res).__name__, 'pop_ids': getattr(res, 'pop_ids', None),
                                                                       'mask': [bool(x) for x in np.ma.getmaskarray(res)] if isinstance(res, np.ma.MaskedArray) else None})
            return
        res = np.asarray(res.data)[1:3]
    ylist = [(float(np.asarray(model(q).data)[1]) if spectrum else model(q)[0]) for q in order]
    if mode == 'log':
        if not all(np.isfinite(ylist)) or min(ylist) <= 0:
            col.tick(skipped=1)
            return
        ex, _ = lagrange0([xmap[q] for q in order], [float(np.log(y)) for y in ylist])
        dec = float(ex) / math.log(10)
    else:
        ex, _ = lagrange0([xmap[q] for q in order], ylist)
        if ex < 0 and p.get('sign_change'):
            # documented rule: fall back when the extrapolation lands more than fail_mag decades away; a sign change is not that - the
            # extrapolated value is returned
            got = float(res[0])
            if not abs(got - float(ex)) <= 1e-9 * abs(float(ex)):
                col.violation('C07:fallback:taken_on_sign_change', p, {'got': got, 'extrapolated': float(ex)})
            col.distinct('nontrivial', ('fb_sign', k, tuple(order), target, fail_mag, spectrum))
            return
        if ex <= 0:
            col.tick(skipped=1)
            return
        dec = math.log10(float(ex))       # best = 1
    margin = abs(abs(dec) - fail_mag)
    if margin < 0.05:
        col.tick(skipped=1)
        return
    should_fall_back = abs(dec) > fail_mag
    got = float(res[0])
    if should_fall_back:
        if got != 1.0:
            col.violation('C07:fallback:not_taken', p, {'got': got, 'decades': dec, 'fail_mag': fail_mag})
    else:
        want = math.exp(float(ex)) if mode == 'log' else float(ex)
        if got == 1.0 or not abs(math.log10(got / want)) < 0.01:
            col.violation('C07:fallback:taken_wrongly', p, {'got': got, 'want': want, 'decades': dec, 'fail_mag': fail_mag})
    if float(res[1]) != 2.0 and abs(float(res[1]) - 2.0) > 1e-9:
        col.violation('C07:fallback:harmless_entry_changed', p, {'got': float(res[1])})
    col.distinct('nontrivial', ('fb', k, tuple(order), target, fail_mag, mode, spectrum, bool(p.get('wrapper'))))


def case_misc(col, p):
    import dadi
    kind = p['what']
    if kind == 'no_extrap':
        f = dadi.Numerics.make_extrap_func(lambda a, pts: np.array([a * pts, 1.0]), extrap_x_l=[1, 2, 3])
        for call in ('pos', 'kw'):
            r = f(2.0, [40, 50, 60], no_extrap=True) if call == 'pos' else f(2.0, pts=[40, 50, 60], no_extrap=True)
            col.tick(transitions=1)
            if not (isinstance(r, list) and [float(v[0]) for v in r] == [80.0, 100.0, 120.0]):
                col.violation('C07:no_extrap', p, repr(r))
    elif kind == 'scalar_pts':
        f = dadi.Numerics.make_extrap_func(lambda a, pts: np.array([a * pts, 1.0]), extrap_x_l=[0.5])
        for call in ('pos', 'kw'):
            # a single grid size as a Python int or as a numpy integer (ns.max() + 20 is one)
            for pv in (40, np.int64(40), np.int32(40)):
                try:
                    r = f(2.0, pv) if call == 'pos' else f(2.0, pts=pv)
                except Exception as e:
                    col.violation('C07:scalar_pts', dict(p, pts_type=type(pv).__name__), '%s: %s' % (type(e).__name__, e))
                    continue
                col.tick(transitions=1)
                if list(map(float, r)) != [80.0, 1.0]:
                    col.violation('C07:scalar_pts', dict(p, pts_type=type(pv).__name__), repr(r))
    elif kind == 'extrap_x_recorded':
        # Spectrum.from_phi must tag its result with the first interior grid point
        for d in (1, 2, 3):
            for pts in (8, 11):
                xx = dadi.Numerics.default_grid(pts)
                phi = np.ones((pts,) * d)
                fs = dadi.Spectrum.from_phi(phi, (3,) * d, (xx,) * d)
                col.tick(transitions=1)
                if getattr(fs, 'extrap_x', None) != xx[1]:
                    col.violation('C07:from_phi:extrap_x', dict(p, d=d, pts=pts), repr(getattr(fs, 'extrap_x', None)))
                if d >= 2:
                    # grids that differ between dimensions (direct path): the tag is the FIRST population's first interior point (documented)
                    grids = [np.linspace(0, 1, pts) ** (1.0 + 0.5 * q) for q in range(d)]
                    fs2 = dadi.Spectrum.from_phi(phi, (3,) * d, grids, force_direct=True)
                    col.tick(transitions=1)
                    if getattr(fs2, 'extrap_x', None) != grids[0][1]:
                        col.violation('C07:from_phi:extrap_x', dict(p, d=d, pts=pts, grids='different per dimension'),
                                      {'got': repr(getattr(fs2, 'extrap_x', None)), 'first_grid': float(grids[0][1])})
                    # the inbreeding sampler tags its result by the same rule
                    fs3 = dadi.Spectrum.from_phi_inbreeding(phi, (2,) * d, grids, [0.3] * d, [2] * d)
                    col.tick(transitions=1)
                    if getattr(fs3, 'extrap_x', None) != grids[0][1]:
                        col.violation('C07:from_phi_inbreeding:extrap_x', dict(p, d=d, pts=pts, grids='different per dimension'),
                                      {'got': repr(getattr(fs3, 'extrap_x', None)), 'first_grid': float(grids[0][1])})
    elif kind == 'memoised_model':
        # a model that keeps its per-grid results and hands the same object out again (caching models do): every call sequence over single
        # and multiple grid sizes gives the same extrapolation as a model without memory, and the cached objects keep their x
        pool = [40, 60, 80]
        def xof(pts):
            return (13 - pts // 10) / 64.0
        def value(pts):
            x = xof(pts)
            return np.array([1.0, 3.0 + 2.0 * x - 5.0 * x * x, 2.0 - x, 7.0 + x * x, 1.0])
        def fresh_model(a, pts):
            fs = dadi.Spectrum(a * value(pts))
            fs.extrap_x = xof(pts)
            return fs
        calls = [[40], [60], [40, 60], [60, 40, 80], [80], [40, 60, 80]]
        want = {tuple(c): np.asarray(dadi.Numerics.make_extrap_func(fresh_model)(1.0, c).data).copy() for c in calls}
        for seq in itertools.permutations(range(len(calls)), 3):
            store = {}
            def memo_model(a, pts):
                if pts not in store:
                    store[pts] = fresh_model(a, pts)
                return store[pts]
            f = dadi.Numerics.make_extrap_func(memo_model)
            for pos, ci in enumerate(seq):
                c = calls[ci]
                r = f(1.0, c)
                col.tick(transitions=1)
                if not np.allclose(np.asarray(r.data)[1:-1], want[tuple(c)][1:-1], rtol=1e-13, atol=0):
                    col.violation('C07:make_extrap_func:result_depends_on_call_history', dict(p, sequence=[calls[i] for i in seq], at=pos),
                                  {'got': np.asarray(r.data), 'memoryless': want[tuple(c)]})
                    break
                bad = [q for q, fs in store.items() if fs.extrap_x != xof(q) or not np.array_equal(np.asarray(fs.data)[1:-1], value(q)[1:-1])]
                if bad:
                    col.violation('C07:make_extrap_func:model_results_modified', dict(p, sequence=[calls[i] for i in seq], at=pos), {'grids': bad})
                    break
    elif kind == 'missing_x':
        f = dadi.Numerics.make_extrap_func(lambda pts: np.array([1.0 * pts]))
        try:
            f([40, 50])
            col.violation('C07:missing_extrap_x:accepted', p, 'no error although results carry no extrap_x')
        except ValueError:
            pass
        except Exception as e:
            col.violation('C07:missing_extrap_x:wrong_exception', p, repr(e))
        col.tick(transitions=1)
    col.distinct('nontrivial', ('misc', kind))


CASES = {'extrap': case_extrap, 'fallback': case_fallback, 'misc': case_misc}


def _dispatch(col, case):
    CASES[case['kind']](col, case)


def replay(ctx, case):
    _dispatch(ctx, case)


def run(ctx):
    seed = ctx.seed
    cases = []
    # rotate which pts pool members are used with the seed (alphabet rotation; enumeration stays complete)
    pool = PTS_POOL[seed % 2:] + PTS_POOL[:seed % 2]
    for k in range(1, 8):
        sizes = pool[:k]
        if k <= 6:
            if k == 6 and ctx.quick:
                orders = [list(o) for i, o in enumerate(itertools.permutations(sizes)) if i % 6 == 0 or i in (1, 719)]
                if len(orders) < 720:
                    pass
            else:
                orders = [list(o) for o in itertools.permutations(sizes)]
        else:
            orders = [list(sizes)]
        degs = list(range(k)) + [-1] if k <= 6 else [0]
        for order in orders:
            for deg in degs:
                for mode in ('lin', 'log'):
                    for rtype, xsrc in (('array', 'dyadic'), ('array', 'grid'), ('array', 'attr'), ('spectrum', 'grid'), ('spectrum', 'dyadic_override'), ('array', 'tiny')):
                        for call in ('pos', 'kw'):
                            if k == 6 and call == 'kw' and order != sorted(order):
                                continue
                            cases.append({'kind': 'extrap', 'k': k, 'order': order, 'deg': deg, 'mode': mode,
                                          'rtype': rtype, 'call': call, 'xsrc': xsrc, 'seed': seed})
    # the whole model scaled by 1e-305 and by 1e+290 (entries below 1e-300 / above 1e290): log mode works on logarithms, nothing special there
    for k in range(1, 7):
        sizes = pool[:k]
        for order in (list(sizes), list(reversed(sizes))):
            for scl in (1e-305, 1e290):
                cases.append({'kind': 'extrap', 'k': k, 'order': order, 'deg': -1, 'mode': 'log', 'rtype': 'array', 'call': 'pos', 'xsrc': 'dyadic',
                              'seed': seed, 'scale': scl})
    if not ctx.quick:
        # every k-subset of the 7-size pool (unequal node spacings), ascending and descending
        seen = set(tuple(c['order']) for c in cases)
        for k in range(1, 7):
            for sub in itertools.combinations(PTS_POOL, k):
                for order in (list(sub), list(reversed(sub))):
                    if tuple(order) in seen:
                        continue
                    seen.add(tuple(order))
                    for deg in list(range(k)) + [-1]:
                        for mode in ('lin', 'log'):
                            for rtype, xsrc in (('array', 'dyadic'), ('spectrum', 'grid')):
                                cases.append({'kind': 'extrap', 'k': k, 'order': order, 'deg': deg, 'mode': mode,
                                              'rtype': rtype, 'call': 'pos', 'xsrc': xsrc, 'seed': seed})
        ctx.note('thorough tier: additionally every k-subset of the pool %s, ascending and descending' % PTS_POOL)
    if ctx.quick:
        ctx.note('quick tier: for k=6, every 6th ordering (122 of 720) is enumerated; thorough enumerates all 720')
        ctx.cap_hit('k=6 orderings thinned to 122/720 in quick tier; k<=5 complete (153 orderings)')
    for k in (2, 3, 4, 5, 6):
        sizes = pool[:k]
        orders = [list(o) for o in itertools.permutations(sizes)] if k <= 3 else [list(sizes), list(reversed(sizes))]
        for order in orders:
            for fail_mag in (10, 5):
                for sgn in (1, -1):
                    for off in (-0.5, 0.5):
                        for mode in ('lin', 'log'):
                            for rt in ('array', 'spectrum'):
                                cases.append({'kind': 'fallback', 'k': k, 'order': order, 'target': sgn * (fail_mag + off),
                                              'fail_mag': fail_mag, 'mode': mode, 'rtype': rt})
                            if mode == 'log' and fail_mag == 10:
                                cases.append({'kind': 'fallback', 'k': k, 'order': order, 'target': sgn * (fail_mag + off), 'fail_mag': fail_mag,
                                              'mode': mode, 'rtype': 'array', 'wrapper': True})
                                cases.append({'kind': 'fallback', 'k': k, 'order': order, 'target': sgn * 3.0, 'fail_mag': fail_mag,
                                              'mode': mode, 'rtype': 'array', 'wrapper': True})
                            if mode == 'lin':
                                cases.append({'kind': 'fallback', 'k': k, 'order': order, 'target': sgn * 0.3, 'fail_mag': fail_mag,
                                              'mode': mode, 'rtype': 'array', 'sign_change': True})
    for what in ('no_extrap', 'scalar_pts', 'extrap_x_recorded', 'missing_x', 'memoised_model'):
        cases.append({'kind': 'misc', 'what': what})
    # determinism self-test: first case twice
    from mc.evidence import Collector
    a, b = Collector(), Collector()
    _dispatch(a, cases[len(cases) // 2]); _dispatch(b, cases[len(cases) // 2])
    assert a.viol_count == b.viol_count and a.maxima == b.maxima, 'nondeterministic harness'
    explore.pmap(ctx, _dispatch, cases)
    ctx.tick(states=len(cases), traces=len(cases), evaluations=len(cases))
    for c in (cases[0], cases[len(cases) // 3], cases[-10], cases[-1]):
        ctx.sample(c)
    ctx.rule = ('cartesian enumeration of (k, ordering of k grid sizes, degree, mode, result type, x source, call style) '
                '+ fallback thresholds; a case is non-trivial/distinct by (k, degree, mode, type, x source, set of grid sizes) '
                'when the result was compared entrywise with the exact Fraction Lagrange value')
    ctx.assume('Lagrange extrapolation is linear in the y values, so monomials x^d (d<k) are a basis of all polynomial grid dependences')
    ctx.assume('a configuration is counted as a state, a call of the extrapolating function as a transition')
