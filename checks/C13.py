"""C13 – genotype data become the spectrum and statistics that direct counting gives.

A. One synthetic VCF (and the equivalent SNP-table file) per population layout containing EVERY configuration of one SNP: every genotype vector over
   {0/0,0/1,1/1,./.,0|1,1|0} x ancestral-allele field x FILTER x REF/ALT form; spectra for ALL projection vectors; oracle = independent counter over
   the genotype matrix with exact (Fraction) hypergeometric projection.
B. Subsampling: every answer of numpy.random.choice (all k-subsets) for every row.
C. Chunking: every chunk size on a position set with boundary positions, '.info' suffixes and chromosome names containing '_' and '.'.
D. Bootstraps: every answer of random.choices for <= 4 chunks.
E. Statistics: every 1-D spectrum with <= 3 SNPs (n <= 6) and 2-D spectra, realised as haplotype matrices: S, pi (brute-force pairwise differences),
   Watterson, Tajima's D (constants from Tajima 1989), theta_L, Weir-Cockerham Fst.
"""
import copy
import itertools
import math
import os
import shutil
import tempfile
from fractions import Fraction
from math import comb

import numpy as np

from mc import explore

LEVEL = 'model_checking'
SCRATCH = os.path.join(os.path.dirname(os.path.dirname(os.path.abspath(__file__))), '.scratch')
GT = ['0/0', '0/1', '1/1', './.', '0|1', '1|0', '0/.', './1']      # the last two: half calls (one allele missing)
AA_FORMS = ['ref', 'alt', 'missing', 'third', 'multi', 'lower_alt', 'dot']
FILTERS = ['PASS', '.', 'q10']
ALLELE_FORMS = ['plain', 'lower', 'multichar_alt', 'multiallelic', 'indel_ref']


def _tmp():
    os.makedirs(SCRATCH, exist_ok=True)
    return tempfile.mkdtemp(prefix='c13_', dir=SCRATCH)


def allele_strings(form):
    if form == 'plain':
        return 'A', 'G'
    if form == 'lower':
        return 'a', 'g'
    if form == 'multichar_alt':
        return 'A', 'GT'
    if form == 'multiallelic':
        return 'A', 'G,T'
    if form == 'indel_ref':
        return 'AC', 'G'


def aa_field(form):
    """INFO string and the ancestral base it denotes ('' = unknown)"""
    if form == 'ref':
        return 'AA=A', 'A'
    if form == 'alt':
        return 'AA=G', 'G'
    if form == 'missing':
        return 'NS=3', ''
    if form == 'third':
        return 'AA=C', 'C'
    if form == 'multi':
        return 'DP=9;AA=g|x|y', 'G'
    if form == 'lower_alt':
        return 'AA=g', 'G'
    if form == 'dot':
        return 'AA=.', ''


class Row(object):
    __slots__ = ('chrom', 'pos', 'gts', 'aa', 'filt', 'alleles', 'pops')


def build_rows(layout, chrom_names):
    """every configuration of one SNP for the layout (tuple of individuals per population)"""
    nind = sum(layout)
    rows = []
    pos = 0
    combos = list(itertools.product(AA_FORMS, FILTERS, ALLELE_FORMS))
    for gts in itertools.product(GT, repeat=nind):
        for ci, (aa, filt, al) in enumerate(combos):
            # the full genotype product is crossed with the plain format; the format lattice is crossed with a covering set of genotype vectors
            if (aa, filt, al) != ('ref', 'PASS', 'plain') and not _covering(gts, ci):
                continue
            r = Row()
            pos += 1
            r.chrom = chrom_names[pos % len(chrom_names)]
            r.pos = pos
            r.gts, r.aa, r.filt, r.alleles = gts, aa, filt, al
            rows.append(r)
    return rows


def _covering(gts, ci):
    # genotype vectors used with non-default formats: no missing data + all-het + one missing, rotated so that each format sees several
    code = sum(GT.index(g) * 6 ** i for i, g in enumerate(gts))
    return code % 17 == ci % 17


def zero_depth(ri, i):
    """which samples carry a genotype but no reads at all (DP=0 / AD=0,0 - the newer way of marking a missing call) when a depth format is used"""
    return (ri + 2 * i) % 3 == 0


def depth_fields(fmt, zero):
    out = []
    for f in fmt.split(':')[1:]:
        out.append(('0' if zero else '7') if f == 'DP' else ('0,0' if zero else '4,3'))
    return ':'.join(out)


def write_vcf(path, rows, layout, with_dp=False, unlisted=(), fmt=None):
    """unlisted: column positions (in the final sample-column order) of extra samples that the population file does not mention - they are
    documented to be skipped, wherever they stand"""
    names = []
    for p, k in enumerate(layout):
        for i in range(k):
            names.append('ind%d_%d' % (p, i))
    cols = list(names)
    for q, pos in enumerate(sorted(unlisted)):
        cols.insert(pos, 'stranger%d' % q)
    with open(path, 'w') as f:
        f.write('##fileformat=VCFv4.2\n##source=verif\n')
        f.write('#CHROM\tPOS\tID\tREF\tALT\tQUAL\tFILTER\tINFO\tFORMAT\t' + '\t'.join(cols) + '\n')
        for ri, r in enumerate(rows):
            ref, alt = allele_strings(r.alleles)
            info, _ = aa_field(r.aa)
            fmt_s = fmt if fmt else ('GT:DP' if with_dp else 'GT')
            samples = [(g + ':7') if with_dp else g for g in r.gts]
            if fmt:
                samples = [g + ':' + depth_fields(fmt, zero_depth(ri, i) and '.' not in g) for i, g in enumerate(r.gts)]
            for q, pos in enumerate(sorted(unlisted)):
                g = ('1/1', '0/1', './.', '0|0')[(ri + q) % 4]
                samples.insert(pos, (g + ':7') if with_dp else g)
            f.write('\t'.join([r.chrom, str(r.pos), '.', ref, alt, '50', r.filt, info, fmt_s] + samples) + '\n')
    return names


def write_popinfo(path, names, layout):
    with open(path, 'w') as f:
        f.write('# sample population file\n')
        k = 0
        for p, n in enumerate(layout):
            for i in range(n):
                f.write('%s\tpop%d\n' % (names[k], p))
                k += 1


def oracle_calls(r, layout):
    """(usable?, calls per population (ref count, alt count), ancestral base or '')"""
    ref, alt = allele_strings(r.alleles)
    if ref.upper() not in 'ACGT' or alt.upper() not in 'ACGT' or len(ref) != 1 or len(alt) != 1:
        return False, None, None
    if r.filt not in ('PASS', '.'):
        return False, None, None
    calls = []
    k = 0
    for n in layout:
        rc = ac = 0
        for g in r.gts[k:k + n]:
            for ch in (g[0], g[2]):
                if ch == '0':
                    rc += 1
                elif ch == '1':
                    ac += 1
        calls.append((rc, ac))
        k += n
    _, anc = aa_field(r.aa)
    return True, calls, anc


def proj_weights(n, m, h):
    return [Fraction(comb(m, j) * comb(n - m, h - j), comb(n, h)) if 0 <= h - j <= n - m else Fraction(0) for j in range(m + 1)]


def oracle_spectrum(rows, layout, proj, polarized):
    shape = tuple(m + 1 for m in proj)
    tot = np.zeros(shape, dtype=object)
    for idx in np.ndindex(*shape):
        tot[idx] = Fraction(0)
    nused = 0
    for r in rows:
        ok, calls, anc = oracle_calls(r, layout)
        if not ok:
            continue
        ref, alt = (a.upper() for a in allele_strings(r.alleles))
        if anc in (ref, alt):
            derived = [c[1] if anc == ref else c[0] for c in calls]
            is_pol = True
        else:
            derived = [c[1] for c in calls]
            is_pol = False
        if polarized and not is_pol:
            continue
        called = [c[0] + c[1] for c in calls]
        if any(c < m for c, m in zip(called, proj)):
            continue
        nused += 1
        ws = [proj_weights(c, m, d) for c, m, d in zip(called, proj, derived)]
        for idx in np.ndindex(*shape):
            w = Fraction(1)
            for k, j in enumerate(idx):
                w *= ws[k][j]
            if w:
                tot[idx] += w
    data = np.array([[float(v)] for v in tot.flat]).reshape(shape)
    if not polarized:
        from mc.refs import spectrum as RS
        fd, fm = RS.fold(tot, np.zeros(shape, bool))
        data = RS.to_float(fd)
    return data, nused


def case_vcf(col, p):
    import dadi
    layout = tuple(p['layout'])
    chroms = ['1', 'chr_2', 'sc.3_x']
    rows = build_rows(layout, chroms)
    tmp = _tmp()
    try:
        vcf = os.path.join(tmp, 'x.vcf')
        pop = os.path.join(tmp, 'pop.txt')
        names = write_vcf(vcf, rows, layout, with_dp=p.get('dp', False), unlisted=p.get('unlisted', ()), fmt=p.get('fmt'))
        if p.get('fmt'):
            # a genotype without a single read is a missing call, whichever depth field says so: the oracle sees it as './.'
            eff = []
            for ri, r in enumerate(rows):
                r2 = copy.copy(r)
                r2.gts = tuple('./.' if (zero_depth(ri, i) and '.' not in g) else g for i, g in enumerate(r.gts))
                eff.append(r2)
            rows = eff
        write_popinfo(pop, names, layout)
        dd = dadi.Misc.make_data_dict_vcf(vcf, pop)
        col.tick(transitions=len(rows))
        pops = ['pop%d' % k for k in range(len(layout))]
        # per-SNP dictionary entries
        usable = 0
        for r in rows:
            key = '%s_%d' % (r.chrom, r.pos)
            ok, calls, anc = oracle_calls(r, layout)
            info = dict(p, layout=layout, gts=r.gts, aa=r.aa, filter=r.filt, alleles=r.alleles, kind='vcf')
            if not ok:
                if key in dd:
                    col.violation('C13:make_data_dict_vcf:unusable_snp_kept', info, {'entry': repr(dd[key])[:200]})
                continue
            usable += 1
            if key not in dd:
                col.violation('C13:make_data_dict_vcf:usable_snp_dropped', info, '')
                continue
            e = dd[key]
            got_calls = [tuple(e['calls'][q]) for q in pops]
            if got_calls != calls:
                col.violation('C13:make_data_dict_vcf:calls', info, {'got': got_calls, 'exp': calls})
            ref, alt = (a.upper() for a in allele_strings(r.alleles))
            if tuple(e['segregating']) != (ref, alt):
                col.violation('C13:make_data_dict_vcf:segregating', info, {'got': e['segregating']})
            exp_anc = anc if anc in 'ACGT' and anc else '-'
            if e['outgroup_allele'] != exp_anc:
                col.violation('C13:make_data_dict_vcf:outgroup_allele', info, {'got': e['outgroup_allele'], 'exp': exp_anc})
        # spectra for all projection vectors
        maxn = [2 * n for n in layout]
        projs = list(itertools.product(*[range(1, m + 1) for m in maxn]))
        for proj in projs:
            for polarized in (True, False):
                fs = dadi.Spectrum.from_data_dict(dd, pops, list(proj), polarized=polarized, mask_corners=False)
                col.tick(transitions=1)
                ex, nused = oracle_spectrum(rows, layout, proj, polarized)
                gd = np.asarray(fs.data)
                info = dict(p, layout=layout, proj=proj, polarized=polarized, kind='vcf')
                if gd.shape != ex.shape or not np.allclose(gd, ex, rtol=1e-11, atol=1e-9):
                    col.violation('C13:from_data_dict:spectrum', info, {'maxerr': float(np.abs(gd - ex).max()) if gd.shape == ex.shape else 'shape'})
                else:
                    col.observe('spectrum', float(np.abs(gd - ex).max()) / 1e-9)
                if abs(float(gd.sum()) - nused) > 1e-8 * max(1, nused):
                    col.violation('C13:from_data_dict:total_vs_usable_snps', info, {'total': float(gd.sum()), 'usable': nused})
                if bool(fs.folded) != (not polarized) or fs.pop_ids != pops:
                    col.violation('C13:from_data_dict:attributes', info, {'folded': fs.folded, 'pop_ids': fs.pop_ids})
        col.tick(states=len(rows), traces=len(projs) * 2)
    finally:
        shutil.rmtree(tmp, ignore_errors=True)
    col.distinct('nontrivial', ('vcf', layout, p.get('dp', False), tuple(p.get('unlisted', ())), p.get('fmt')))


def case_snpfile(col, p):
    """the SNP-table format: every allele-count configuration for 2 populations x outgroup forms"""
    import dadi
    tmp = _tmp()
    try:
        path = os.path.join(tmp, 'snps.txt')
        rows = []
        with open(path, 'w') as f:
            f.write('# comment line\n')
            f.write('Human\tChimp\tAllele1\tYRI\tCEU\tAllele2\tYRI\tCEU\tGene\tPosition\n')
            k = 0
            for (a1y, a2y, a1c, a2c) in itertools.product(range(0, 4), repeat=4):
                for out in ('A', 'G', 'C', '-', 'a'):
                    k += 1
                    f.write('tAc\tt%sc\tA\t%d\t%d\tG\t%d\t%d\tgene%d\t%d\n' % (out, a1y, a1c, a2y, a2c, k % 3, k))
                    rows.append((a1y, a2y, a1c, a2c, out, 'gene%d_%d' % (k % 3, k)))
        dd = dadi.Misc.make_data_dict(path)
        col.tick(transitions=len(rows))
        for a1y, a2y, a1c, a2c, out, key in rows:
            e = dd.get(key)
            if e is None or tuple(e['calls']['YRI']) != (a1y, a2y) or tuple(e['calls']['CEU']) != (a1c, a2c) or e['outgroup_allele'] != out.upper() \
                    or tuple(e['segregating']) != ('A', 'G'):
                col.violation('C13:make_data_dict:entry', dict(kind='snpfile', row=(a1y, a2y, a1c, a2c, out)), {'entry': repr(e)[:200]})
        for proj in itertools.product((1, 2, 3), repeat=2):
            for polarized in (True, False):
                fs = dadi.Spectrum.from_data_dict(dd, ['YRI', 'CEU'], list(proj), polarized=polarized, mask_corners=False)
                shape = tuple(m + 1 for m in proj)
                tot = np.zeros(shape)
                nused = 0
                for a1y, a2y, a1c, a2c, out, key in rows:
                    o = out.upper()
                    pol = o in ('A', 'G')
                    if polarized and not pol:
                        continue
                    called = (a1y + a2y, a1c + a2c)
                    if called[0] < proj[0] or called[1] < proj[1]:
                        continue
                    der = (a2y, a2c) if (o == 'A' or not pol) else (a1y, a1c)
                    w0 = proj_weights(called[0], proj[0], der[0])
                    w1 = proj_weights(called[1], proj[1], der[1])
                    tot += np.outer([float(v) for v in w0], [float(v) for v in w1])
                    nused += 1
                if not polarized:
                    from mc.refs import spectrum as RS
                    fd, _ = RS.fold(RS.fr_array(tot), np.zeros(shape, bool))
                    tot = RS.to_float(fd)
                col.tick(transitions=1)
                if not np.allclose(np.asarray(fs.data), tot, rtol=1e-11, atol=1e-9):
                    col.violation('C13:from_data_dict:spectrum', dict(kind='snpfile', proj=proj, polarized=polarized), {'maxerr': float(np.abs(np.asarray(fs.data) - tot).max())})
        col.tick(states=len(rows), traces=18)
    finally:
        shutil.rmtree(tmp, ignore_errors=True)
    col.distinct('nontrivial', ('snpfile',))


def case_subsample(col, p):
    """every answer of numpy.random.choice: the a-th k-subset (lexicographic) for every row and population"""
    import numpy
    import dadi
    layout = tuple(p['layout'])
    sub = tuple(p['subsample'])
    chroms = ['1', 'chr_2']
    nind = sum(layout)
    rows = []
    pos = 0
    for gts in itertools.product(GT[:5] + GT[6:], repeat=nind):
        r = Row()
        pos += 1
        r.chrom, r.pos, r.gts, r.aa, r.filt, r.alleles = chroms[pos % 2], pos, gts, 'ref', 'PASS', 'plain'
        rows.append(r)
    fmt = p.get('fmt')
    eff_gts = {}
    for ri, r in enumerate(rows):
        # with a DP field, a genotype without reads is a missing call for the subsampling too
        eff_gts[id(r)] = tuple('./.' if (fmt and 'DP' in fmt and zero_depth(ri, i) and '.' not in g) else g for i, g in enumerate(r.gts))
    tmp = _tmp()
    real_choice = numpy.random.choice
    try:
        vcf = os.path.join(tmp, 'x.vcf')
        popf = os.path.join(tmp, 'pop.txt')
        names = write_vcf(vcf, rows, layout, fmt=fmt)
        write_popinfo(popf, names, layout)
        pops = ['pop%d' % k for k in range(len(layout))]
        subs = {q: s for q, s in zip(pops, sub)}
        max_answers = max(comb(n, s) for n, s in zip(layout, sub))
        for a in range(max_answers):
            log = []

            def fake_choice(seq, size=None, replace=True, p=None, a=a):
                seq = list(seq)
                subsets = list(itertools.combinations(range(len(seq)), size))
                pick = subsets[a % len(subsets)]
                # answer in a non-sorted order as the real function may
                pick = tuple(reversed(pick)) if a % 2 else pick
                log.append((len(seq), size, pick))
                return numpy.array([seq[i] for i in pick])
            numpy.random.choice = fake_choice
            import warnings
            with warnings.catch_warnings():
                warnings.simplefilter('ignore')
                dd = dadi.Misc.make_data_dict_vcf(vcf, popf, subsample=dict(subs))
            numpy.random.choice = real_choice
            col.tick(transitions=len(rows))
            for r in rows:
                key = '%s_%d' % (r.chrom, r.pos)
                info = dict(p, kind='subsample', layout=layout, subsample=sub, answer=a, gts=r.gts)
                k = 0
                exp = []
                enough = True
                for n, s in zip(layout, sub):
                    called = [g for g in eff_gts[id(r)][k:k + n] if '.' not in g]
                    k += n
                    if len(called) < s:
                        enough = False
                        break
                    subsets = list(itertools.combinations(range(len(called)), s))
                    pick = subsets[a % len(subsets)]
                    rc = sum(called[i][::2].count('0') for i in pick)
                    ac = sum(called[i][::2].count('1') for i in pick)
                    exp.append((rc, ac))
                if not enough:
                    if key in dd:
                        col.violation('C13:make_data_dict_vcf:subsample:kept_without_enough_calls', info, {'entry': repr(dd[key]['calls'])})
                    continue
                if key not in dd:
                    col.violation('C13:make_data_dict_vcf:subsample:dropped_with_enough_calls', info, '')
                    continue
                got = [tuple(dd[key]['calls'][q]) for q in pops]
                if got != exp:
                    col.violation('C13:make_data_dict_vcf:subsample:calls', info, {'got': got, 'exp': exp})
                elif any(sum(c) != 2 * s for c, s in zip(got, sub)):
                    col.violation('C13:make_data_dict_vcf:subsample:wrong_number_of_chromosomes', info, {'got': got})
        col.tick(states=len(rows) * max_answers, traces=max_answers)
    finally:
        numpy.random.choice = real_choice
        shutil.rmtree(tmp, ignore_errors=True)
    col.distinct('nontrivial', ('subsample', layout, sub, fmt))


def case_chunks(col, p):
    import dadi
    # positions incl. chunk boundaries; keys with '.info' suffixes (recurrent mutations); chromosome names with '_' and '.'
    keys = []
    for chrom in ('1', 'chr_2', 'sc.3_x', 'a_b_c'):
        for pos in (1, 5, 9, 10, 11, 20, 21, 37):
            keys.append('%s_%d' % (chrom, pos))
        keys.append('%s_10.1' % chrom)
        keys.append('%s_10.alt.2' % chrom)
    dd = {}
    for i, k in enumerate(keys):
        dd[k] = {'segregating': ['A', 'T'], 'calls': {'A': (2 + i % 3, 2 - i % 3 + 1)}, 'outgroup_allele': 'A' if i % 4 else 'T', 'context': '-A-', 'outgroup_context': '-A-'}
    whole = dadi.Spectrum.from_data_dict(dd, ['A'], [3], mask_corners=False)
    n = 0
    for cs in range(1, 40):
        frags = dadi.Misc.fragment_data_dict(dd, cs)
        col.tick(transitions=1)
        n += 1
        info = dict(kind='chunks', chunk_size=cs)
        allk = [k for fr in frags for k in fr]
        if sorted(allk) != sorted(keys):
            col.violation('C13:fragment_data_dict:not_a_partition', info, {'missing': sorted(set(keys) - set(allk))[:5], 'duplicated': len(allk) - len(set(allk))})
            continue
        for fr in frags:
            for k in fr:
                if fr[k] is not dd[k] and fr[k] != dd[k]:
                    col.violation('C13:fragment_data_dict:entry_changed', info, k)
            # each fragment holds one chromosome and one window of width chunk_size
            chroms = set('_'.join(k.split('_')[:-1]) for k in fr)
            if len(chroms) > 1:
                col.violation('C13:fragment_data_dict:mixes_chromosomes', info, sorted(chroms))
            poss = [int(k.split('_')[-1].split('.')[0]) for k in fr]
            if poss and (max(poss) - 1) // cs != (min(poss) - 1) // cs:
                col.violation('C13:fragment_data_dict:window', info, {'positions': sorted(poss)})
        tot = sum(np.asarray(dadi.Spectrum.from_data_dict(fr, ['A'], [3], mask_corners=False).data) for fr in frags if fr) if any(frags) else 0
        if not np.allclose(tot, np.asarray(whole.data), rtol=1e-12, atol=1e-12):
            col.violation('C13:fragment_data_dict:chunk_spectra_do_not_sum_to_whole', info, '')
    col.tick(states=n, traces=n)
    col.distinct('nontrivial', ('chunks',))


def case_bootstrap(col, p):
    """every answer of random.choices for nchunks chunks"""
    import random
    import dadi
    nchunks = p['nchunks']
    frags = []
    for c in range(nchunks):
        fr = {}
        for i in range(c + 1):
            fr['c%d_%d' % (c, i + 1)] = {'segregating': ['A', 'T'], 'calls': {'A': (3, 1 + (c + i) % 3)}, 'outgroup_allele': 'A', 'context': '-A-', 'outgroup_context': '-A-'}
        frags.append(fr)
    if p.get('empty_chunk') is not None:
        frags[p['empty_chunk']] = {}          # a genomic chunk without SNPs: it is drawn like any other and contributes nothing
    spectra = [np.asarray(dadi.Spectrum.from_data_dict(fr, ['A'], [3], mask_corners=False).data) if fr else np.zeros(4) for fr in frags]
    real = random.choices
    n = 0
    try:
        for answer in itertools.product(range(nchunks), repeat=nchunks):
            def fake(population, weights=None, cum_weights=None, k=1, answer=answer):
                return [population[i] for i in answer]
            random.choices = fake
            for polarized in (True, False):
                boots = dadi.Misc.bootstraps_from_dd_chunks(frags, 2, ['A'], [3], mask_corners=False, polarized=polarized)
                col.tick(transitions=1)
                n += 1
                ex = sum(spectra[i] for i in answer)
                if not polarized:
                    from mc.refs import spectrum as RS
                    ex = RS.to_float(RS.fold(RS.fr_array(ex), np.zeros(ex.shape, bool))[0])
                for b in boots:
                    if not np.allclose(np.asarray(b.data), ex, rtol=1e-12, atol=1e-12) or bool(b.folded) != (not polarized) or b.pop_ids != ['A']:
                        col.violation('C13:bootstraps_from_dd_chunks:not_sum_of_chosen_chunks', dict(kind='bootstrap', nchunks=nchunks, answer=answer, polarized=polarized), '')
                        break
                    if polarized and np.ma.getmaskarray(b).any():
                        # corners were asked to stay unmasked: the bootstrap's total is the number of SNPs drawn
                        col.violation('C13:bootstraps_from_dd_chunks:mask_corners_ignored', dict(kind='bootstrap', nchunks=nchunks, answer=answer), '')
                        break
                if len(boots) != 2:
                    col.violation('C13:bootstraps_from_dd_chunks:count', dict(kind='bootstrap', nchunks=nchunks), len(boots))
    finally:
        random.choices = real
    col.tick(states=n, traces=n)
    col.distinct('nontrivial', ('bootstrap', nchunks, p.get('empty_chunk')))


def case_boot_subsample(col, p):
    """bootstraps_subsample_vcf for every (mask_corners, polarized) pair: with the subsample equal to the full sample and one chunk there is
    nothing random, so every bootstrap equals from_data_dict of the same data with the same two flags"""
    import dadi
    layout = tuple(p['layout'])
    nind = sum(layout)
    rows = []
    pos = 0
    for gts in itertools.product(GT[:3], repeat=nind):      # fully called genotypes only
        for aa in ('ref', 'alt'):
            r = Row()
            pos += 1
            # every third line fails a filter: kept when the caller says filter=False
            r.chrom, r.pos, r.gts, r.aa, r.filt, r.alleles = '1', pos, gts, aa, ('PASS' if pos % 3 else 'q10'), 'plain'
            rows.append(r)
    tmp = _tmp()
    n = 0
    try:
        vcf = os.path.join(tmp, 'b.vcf')
        popf = os.path.join(tmp, 'pop.txt')
        names = write_vcf(vcf, rows, layout)
        write_popinfo(popf, names, layout)
        pops = ['pop%d' % k for k in range(len(layout))]
        subs = {q: k for q, k in zip(pops, layout)}
        proj = [2 * k for k in layout]
        import warnings
        with warnings.catch_warnings():
            warnings.simplefilter('ignore')
            dds = {flt: dadi.Misc.make_data_dict_vcf(vcf, popf, filter=flt) for flt in (True, False)}
            if not len(dds[False]) > len(dds[True]) > 0:
                col.violation('harness:C13:boot_subsample_filter_rows', dict(p), {'kept': len(dds[True]), 'all': len(dds[False])})
            for mc, pol, rev, flt in itertools.product((True, False), (True, False), (False, True), (True, False)):
                ex = dadi.Spectrum.from_data_dict(dds[flt], pops, proj, mask_corners=mc, polarized=pol)
                # the subsample dictionary is looked up by population name: the order of its keys is the caller's business
                sub_arg = dict(reversed(list(subs.items()))) if rev else dict(subs)
                boots = dadi.Misc.bootstraps_subsample_vcf(vcf, popf, sub_arg, 2, 10 ** 9, pops, mask_corners=mc, polarized=pol, filter=flt)
                col.tick(transitions=2)
                n += 1
                info = dict(kind='boot_subsample', layout=layout, mask_corners=mc, polarized=pol, subsample_keys_reversed=rev, filter=flt)
                if len(boots) != 2:
                    col.violation('C13:bootstraps_subsample_vcf:count', info, len(boots))
                for b in boots:
                    if bool(b.folded) != (not pol) or not np.array_equal(np.ma.getmaskarray(b), np.ma.getmaskarray(ex)) or \
                            not np.allclose(np.asarray(b.data), np.asarray(ex.data), rtol=1e-12, atol=1e-12):
                        col.violation('C13:bootstraps_subsample_vcf:differs_from_from_data_dict', info,
                                      {'folded': bool(b.folded), 'total': float(np.asarray(b.data).sum()), 'expected_total': float(np.asarray(ex.data).sum())})
                        break
    finally:
        shutil.rmtree(tmp, ignore_errors=True)
    col.tick(states=n, traces=n)
    col.distinct('nontrivial', ('boot_subsample', layout))


def tajima_constants(n):
    a1 = sum(1.0 / i for i in range(1, n))
    a2 = sum(1.0 / i ** 2 for i in range(1, n))
    b1 = (n + 1.0) / (3.0 * (n - 1))
    b2 = 2.0 * (n * n + n + 3) / (9.0 * n * (n - 1))
    c1 = b1 - 1.0 / a1
    c2 = b2 - (n + 2.0) / (a1 * n) + a2 / a1 ** 2
    return a1, a2, c1 / a1, c2 / (a1 ** 2 + a2)


def case_stats1d(col, p):
    """every spectrum with <= 3 SNPs for sample size n, realised as a haplotype matrix"""
    import dadi
    n = p['n']
    cnt = 0
    for nsnp in (1, 2, 3):
        for freqs in itertools.combinations_with_replacement(range(1, n), nsnp):
            H = np.zeros((nsnp, n), dtype=int)
            for s, k in enumerate(freqs):
                H[s, [(s + j) % n for j in range(k)]] = 1
            data = np.zeros(n + 1)
            for k in freqs:
                data[k] += 1
            fs = dadi.Spectrum(data)
            S = nsnp
            pairs = list(itertools.combinations(range(n), 2))
            pi = sum(int((H[:, a] != H[:, b]).sum()) for a, b in pairs) / float(len(pairs))
            a1, a2, e1, e2 = tajima_constants(n)
            thw = S / a1
            var = e1 * S + e2 * S * (S - 1)
            D = (pi - thw) / math.sqrt(var) if var > 1e-14 else None
            thL = sum(int(H[s].sum()) for s in range(nsnp)) / float(n - 1)
            got = [float(fs.S()), float(fs.pi()), float(fs.Watterson_theta()), float(fs.Tajima_D()), float(fs.theta_L())]
            col.tick(transitions=5)
            cnt += 1
            exp = [S, pi, thw, D, thL]
            names = ['S', 'pi', 'Watterson_theta', 'Tajima_D', 'theta_L']
            for nm, g, e in zip(names, got, exp):
                if e is None:
                    continue          # variance of D vanishes (n = 2, 3 corner): the statistic is undefined
                if not (abs(g - e) <= 1e-12 * max(1.0, abs(e)) or (g != g and e != e)):
                    col.violation('C13:%s:value' % nm, dict(kind='stats1d', n=n, freqs=freqs), {'got': g, 'exp': e})
            if not (fs.mask[0] and fs.mask[-1] and not fs.mask[1:-1].any()):
                col.violation('C13:S:mask_not_restored', dict(kind='stats1d', n=n, freqs=freqs), '')
            # the same spectrum with its corners unmasked and occupied (monomorphic sites kept, as from_data_dict(mask_corners=False) gives):
            # the statistics see only segregating sites and leave the spectrum exactly as it was
            d2 = data.copy()
            d2[0], d2[n] = 2.0, 1.0
            fs2 = dadi.Spectrum(d2, mask_corners=False)
            for nm, e in zip(names, exp):
                if e is None:
                    continue
                g = float(getattr(fs2, nm)())
                col.tick(transitions=1)
                if not abs(g - e) <= 1e-12 * max(1.0, abs(e)):
                    col.violation('C13:%s:value' % nm, dict(kind='stats1d', n=n, freqs=freqs, corners='unmasked'), {'got': g, 'exp': e})
                if np.ma.getmaskarray(fs2).any() or not np.array_equal(np.asarray(fs2.data), d2):
                    col.violation('C13:%s:spectrum_modified' % nm, dict(kind='stats1d', n=n, freqs=freqs, corners='unmasked'),
                                  {'mask': np.ma.getmaskarray(fs2).astype(int)})
                    break
    col.tick(states=cnt, traces=cnt)
    col.distinct('nontrivial', ('stats1d', n))


def wc_fst(counts, ns):
    """Weir & Cockerham (1984) theta-hat for a set of loci under random mating (observed heterozygosity replaced by its expectation, i.e. b = 0).
    counts: list over loci of per-population derived allele counts; ns: chromosomes sampled per population"""
    r = len(ns)
    ns = [float(x) for x in ns]
    nbar = sum(ns) / r
    nc = (sum(ns) - sum(x * x for x in ns) / sum(ns)) / (r - 1)
    A = Den = 0.0
    for cs in counts:
        ps = [c / n for c, n in zip(cs, ns)]
        pbar = sum(n * q for n, q in zip(ns, ps)) / sum(ns)
        s2 = sum(n * (q - pbar) ** 2 for n, q in zip(ns, ps)) / ((r - 1) * nbar)
        X = pbar * (1 - pbar) - (r - 1.0) / r * s2
        hbar = 4 * nbar / (2 * nbar - 1) * X           # from b = 0
        a = nbar / nc * (s2 - 1.0 / (nbar - 1) * (X - hbar / 4))
        b = nbar / (nbar - 1) * (X - (2 * nbar - 1) / (4 * nbar) * hbar)
        c = hbar / 2
        assert abs(b) < 1e-12
        A += a
        Den += a + b + c
    return A / Den


def case_fst(col, p):
    import dadi
    ns = tuple(p['ns'])
    cnt = 0
    idxs = [i for i in np.ndindex(*[n + 1 for n in ns]) if 0 < sum(i) < sum(ns)]
    for nsnp in (1, 2):
        for combo in itertools.combinations_with_replacement(idxs, nsnp):
            data = np.zeros([n + 1 for n in ns])
            for i in combo:
                data[i] += 1
            fs = dadi.Spectrum(data)
            try:
                ex = wc_fst(list(combo), ns)
            except ZeroDivisionError:
                continue
            got = float(fs.Fst())
            col.tick(transitions=1)
            cnt += 1
            if not (abs(got - ex) <= 1e-11 * max(1.0, abs(ex)) or (got != got and ex != ex)):
                col.violation('C13:Fst:value', dict(kind='fst', ns=ns, snps=combo), {'got': got, 'exp': ex})
    col.tick(states=cnt, traces=cnt)
    col.distinct('nontrivial', ('fst', ns))


CASES = {'vcf': case_vcf, 'boot_subsample': case_boot_subsample, 'snpfile': case_snpfile, 'subsample': case_subsample, 'chunks': case_chunks, 'bootstrap': case_bootstrap,
         'stats1d': case_stats1d, 'fst': case_fst}


def _dispatch(col, case):
    CASES[case['kind']](col, case)


def replay(ctx, case):
    _dispatch(ctx, case)


def run(ctx):
    cases = []
    for layout in ((2,), (3,), (2, 2), (1, 1, 1)) + (((2, 1, 1), (4,), (5,), (3, 2), (2, 3), (2, 2, 1), (1, 1, 1, 1)) if not ctx.quick else ()):
        cases.append({'kind': 'vcf', 'layout': layout})
    cases.append({'kind': 'vcf', 'layout': (2, 1), 'dp': True})
    # samples the population file does not list, standing first, between and after the listed ones
    for unl in ([0], [1], [2], [3], [0, 2], [1, 4]):
        cases.append({'kind': 'vcf', 'layout': (2, 1), 'unlisted': unl})
    cases.append({'kind': 'vcf', 'layout': (1, 2), 'unlisted': [1]})
    # depth formats: a third of the called genotypes carry no reads at all (DP=0 and/or AD=0,0) and count as missing
    for fmt in ('GT:DP', 'GT:AD', 'GT:AD:DP', 'GT:DP:AD'):
        cases.append({'kind': 'vcf', 'layout': (2, 1), 'fmt': fmt})
    cases.append({'kind': 'snpfile'})
    for layout, sub in (((3,), (2,)), ((3,), (1,)), ((3,), (3,)), ((2, 2), (1, 2)), ((2, 2), (1, 1)), ((4,), (2,))) + ((((3, 2), (2, 1)), ((5,), (3,)), ((5,), (2,)), ((6,), (3,)), ((3, 3), (2, 2)), ((4, 2), (2, 1)), ((2, 2, 2), (1, 1, 1))) if not ctx.quick else ()):
        cases.append({'kind': 'subsample', 'layout': layout, 'subsample': sub})
    for fmt in ('GT:DP', 'GT:AD:DP'):
        cases.append({'kind': 'subsample', 'layout': (3,), 'subsample': (2,), 'fmt': fmt})
        cases.append({'kind': 'subsample', 'layout': (2, 2), 'subsample': (1, 2), 'fmt': fmt})
    cases.append({'kind': 'chunks'})
    for layout in ((2,), (1, 2)) + (((3,), (2, 2)) if not ctx.quick else ()):
        cases.append({'kind': 'boot_subsample', 'layout': layout})
    for k in (1, 2, 3, 4) + ((5, 6) if not ctx.quick else ()):
        cases.append({'kind': 'bootstrap', 'nchunks': k})
    for k, e in ((2, 0), (3, 1), (4, 3)):
        cases.append({'kind': 'bootstrap', 'nchunks': k, 'empty_chunk': e})
    for n in (2, 3, 4, 5, 6) + ((7, 8, 9, 10, 12, 16, 20) if not ctx.quick else ()):
        cases.append({'kind': 'stats1d', 'n': n})
    for ns in ((2, 3), (3, 3), (2, 2), (4, 2), (1, 5), (2, 2, 3)) + (((2, 7), (3, 4, 2), (5, 5), (1, 1), (6, 2), (3, 3, 3), (2, 2, 2, 2), (4, 3, 2)) if not ctx.quick else ()):
        cases.append({'kind': 'fst', 'ns': ns})
    explore.pmap(ctx, _dispatch, cases, chunk=1)
    ctx.tick(evaluations=len(cases))
    for c in (cases[0], cases[len(cases) // 2], cases[-1]):
        ctx.sample(c)
    ctx.rule = ('every genotype vector over 6 genotype codes for each population layout (crossed with the plain format; the AA x FILTER x allele-form lattice is '
                'crossed with a covering set of genotype vectors), all projection vectors, polarised and folded; every subset answer of the subsampling '
                'draw; every chunk size; every bootstrap draw; every spectrum with <= 3 SNPs. distinct_nontrivial = distinct (part, layout / size) groups')
    ctx.assume('DP/AD-based exclusion of calls (DP=0) is not part of the enumerated space: its treatment differs between code paths and the property does not define it')
    ctx.assume('one row per CHROM_POS key (duplicate positions overwrite each other by construction of the dictionary)')
