"""C03 – integration is linear in (density, theta0) and independent of the reference size.

(i)  Superposition on every INT transition of a driver lattice (1-5 populations, constant and time-varying parameters, frozen / nomut
     patterns): INT(a phi1 + b phi2 ; a th1 + b th2) = a INT(phi1; th1) + b INT(phi2; th2) for all unit densities phi1 (phi2 dense),
     coefficient pairs and theta pairs.
(ii) Rescaling: ALL programs of the grammar (mc/programs.py) up to a length bound, each run at reference-size factors
     c in {1/16, 1/2, 2, 16} (binary: identical floating-point operations up to exact scaling) and {0.05, 3, 20}; EVERY intermediate
     density and the sampled spectrum must be unchanged.
"""
import itertools
import json

import numpy as np

from mc import explore, programs as PR, space

LEVEL = 'model_checking'
BIN_C = [1.0 / 16, 0.5, 2.0, 16.0]
DEC_C = [0.05, 3.0, 20.0]


def case_rescale(col, p):
    from dadi import Integration
    old_delj = Integration.use_delj_trick
    Integration.use_delj_trick = bool(p.get('delj'))        # the public Chang-Cooper switch: the invariance holds with it on as well
    try:
        return _case_rescale(col, p)
    finally:
        Integration.use_delj_trick = old_delj


def _case_rescale(col, p):
    G = p['G']
    xx = space.grid(p['grid'], G, p['seed'])
    n = 0
    for prog in p['programs']:
        d_end = PR.dim_after(prog)
        ns = [3, 2, 4, 2, 3][:d_end]
        full = prog + [['sample', ns]]
        base = []
        try:
            PR.run(full, xx, theta0=p['theta0'], c=1.0, trace=base)
        except Exception as e:
            col.violation('C03:program:raises', dict(p, programs=[prog]), '%s: %s' % (type(e).__name__, e))
            continue
        col.tick(transitions=len(full))
        # with the Chang-Cooper switch on only the binary factors are compared: the weight 1/w - 1/(exp(w)-1) loses digits for small w = 2 M dx / V,
        # so a last-bit change of w under a decimal factor is amplified by 1/w^2 (measured 1e-7 in the density, 2e-5 in the spectrum of a 5-population
        # program) - too close to real defects to be told apart; binary factors scale every intermediate exactly
        for c in (BIN_C if p.get('delj') else BIN_C + DEC_C):
            tr = []
            try:
                PR.run(full, xx, theta0=p['theta0'], c=c, trace=tr)
            except Exception as e:
                col.violation('C03:program:raises', dict(p, programs=[prog], c=c), '%s: %s' % (type(e).__name__, e))
                continue
            col.tick(transitions=len(full))
            n += 1
            tol = 1e-12 if c in BIN_C else 1e-9
            for step, (a, b) in enumerate(zip(base, tr)):
                sc = max(float(np.abs(a).max()), 1e-300)
                err = float(np.abs(a - b).max()) / sc
                if not err <= tol:
                    opname = full[step][0]
                    site = opname
                    if opname == 'int':
                        nd = a.ndim
                        const = all(not isinstance(s, list) for s in full[step][2])
                        site = 'int%dD_%s' % (nd, 'const' if const else 'timedep')
                    elif opname == 'init':
                        site = 'phi_1D' + ('_sel' if full[step][2] != 0 else '')
                    col.violation('C03:rescale:%s' % site, dict(p, programs=[prog], c=c, step=step), {'relerr': err, 'op': full[step], 'tol': tol})
                    break
                col.observe('rescale_bin' if c in BIN_C else 'rescale_dec', err / tol)
    col.tick(states=n, traces=n)
    col.distinct('nontrivial', ('rescale', G, p['grid'], json.dumps(p['programs'][0])[:200], len(p['programs']), bool(p.get('delj'))))


def case_superpose(col, p):
    from dadi import Integration
    d, G = p['d'], p['G']
    xx = space.grid(p['grid'], G, p['seed'])
    shape = (G,) * d
    N = G ** d
    op = p['op']
    rng = np.random.RandomState(p['seed'] + 17)
    dense = rng.uniform(0.1, 1.0, size=shape)
    nomut = p.get('nomut')

    def integrate(phi, theta):
        prog = [['init_dense', d, 0], op]
        # run the single INT op on the given density (bypass init)
        import dadi
        from dadi import Integration as I
        _, T, sizes, mig, gammas, hs, frozen = op
        sizes_v = [PR.size_value((s + [T]) if isinstance(s, list) else s, 1.0) for s in sizes]
        # the caller's density is passed as it is: superposition is stated for densities the caller goes on using, so it must come back unchanged
        snap = phi.copy()
        if d == 1:
            out = I.one_pop(phi, xx, T, nu=sizes_v[0], gamma=gammas[0], h=hs[0], theta0=theta, frozen=bool(frozen[0]))
            if not np.array_equal(phi, snap) or np.shares_memory(out, phi):
                col.violation('C03:superposition:int1D:input_modified', dict(p), {'maxchange': float(np.abs(phi - snap).max())})
                phi[...] = snap
            return np.array(out)
        kw = {}
        for k in range(d):
            kw['nu%d' % (k + 1)] = sizes_v[k]; kw['gamma%d' % (k + 1)] = gammas[k]; kw['h%d' % (k + 1)] = hs[k]; kw['frozen%d' % (k + 1)] = bool(frozen[k])
        for (i, j), m in mig:
            kw['m%d%d' % (i + 1, j + 1)] = m
        if nomut is not None and d == 2:
            kw['nomut1'], kw['nomut2'] = bool(nomut[0]), bool(nomut[1])
        fn = [None, None, I.two_pops, I.three_pops, I.four_pops, I.five_pops][d]
        out = fn(phi, xx, T, theta0=theta, **kw)
        if not np.array_equal(phi, snap) or np.shares_memory(out, phi):
            col.violation('C03:superposition:int%dD:input_modified' % d, dict(p), {'maxchange': float(np.abs(phi - snap).max())})
            phi[...] = snap
        return np.array(out)

    thetas = [0.0, 1.0, 2.5]
    coefs = [(1.0, 1.0), (2.0, 0.5), (0.0, 1.0), (3.0, 0.25)]
    if p.get('tiny'):
        # magnitudes far from 1 (a tiny theta0, a tiny multiple of a density): linearity has no scale
        thetas = [0.0, 1e-7, 1.0]
        coefs = [(1e-8, 1.0), (1e-8, 0.0), (1.0, 1e-9)]
    old_tf = Integration.timescale_factor
    Integration.timescale_factor = p.get('tf', 0.02)        # 5-50 steps per integration instead of thousands (superposition is exact per step)
    try:
        return _superpose_body(col, p, integrate, dense, thetas, coefs, shape, N, d)
    finally:
        Integration.timescale_factor = old_tf


def _superpose_body(col, p, integrate, dense, thetas, coefs, shape, N, d):
    nomut = p.get('nomut')
    op = p['op']
    G = p['G']
    cache2 = {th: integrate(dense, th) for th in thetas}
    n = 0
    lo, hi = p['units']
    for j in range(lo, hi):
        e = np.zeros(N)
        e[j] = 1.0
        phi1 = e.reshape(shape)
        cache1 = {th: integrate(phi1, th) for th in thetas}
        col.tick(transitions=3)
        if d >= 2 and (j - lo) < 4:
            # the same density held in another memory layout (what PhiManip.reorder_pops returns): superposition is about values, not layout
            view = np.asfortranarray(phi1)
            alt = integrate(view, thetas[1])
            col.tick(transitions=1)
            e_l = float(np.abs(alt - cache1[thetas[1]]).max())
            if not e_l <= 1e-11 * max(1.0, float(np.abs(cache1[thetas[1]]).max())):
                col.violation('C03:superposition:int%dD:depends_on_memory_layout' % d, dict(p, unit=j), {'maxerr': e_l})
        for (a, b), th1, th2 in itertools.product(coefs, thetas, thetas):
            lhs = integrate(a * phi1 + b * dense, a * th1 + b * th2)
            rhs = a * cache1[th1] + b * cache2[th2]
            col.tick(transitions=1)
            n += 1
            sc = max(1.0, float(np.abs(rhs).max())) if not p.get('tiny') else max(float(np.abs(rhs).max()), 1e-300)
            err = float(np.abs(lhs - rhs).max())
            if not err <= 1e-11 * sc:
                col.violation('C03:superposition:int%dD' % d, dict(p, unit=j, a=a, b=b, th1=th1, th2=th2), {'maxerr': err, 'scale': sc})
                break
            col.observe('superposition', err / (1e-11 * sc))
    col.tick(states=n, traces=n)
    col.distinct('nontrivial', ('superpose', d, G, json.dumps(op)[:200], tuple(nomut or ()), lo))


def case_xchrom(col, p):
    """the X-chromosome integrator: jointly linear in (density, theta0) and invariant to the reference size, for every breeding ratio and
    male/female mutation ratio of the lattice (theta0 and alpha deliberately different)"""
    from dadi import Integration as I
    G = p['G']
    xx = space.grid(p['grid'], G, p['seed'])
    rng = np.random.RandomState(p['seed'] + 41)
    dense = rng.uniform(0.1, 1.0, size=G)
    old_tf = I.timescale_factor
    I.timescale_factor = 0.02
    n = 0
    try:
        for beta, alpha, gamma, h in itertools.product((0.5, 1.0, 3.0), (0.5, 1.0, 2.0), (0.0, -2.0, 1.5), (0.5, 0.2)):
            def run(phi, theta, c=1.0):
                return np.array(I.one_pop_X(phi, xx, 0.1 * c, nu=1.5 * c, gamma=gamma / c, h=h, beta=beta, alpha=alpha, theta0=theta / c))
            info = dict(p, beta=beta, alpha=alpha, gamma=gamma, h=h)
            base = {th: run(dense, th) for th in (0.0, 0.7, 2.5)}
            for j in range(G):
                e = np.zeros(G)
                e[j] = 1.0
                r1 = {th: run(e, th) for th in (0.0, 0.7, 2.5)}
                col.tick(transitions=3)
                for (a, b), t1, t2 in itertools.product(((1.0, 1.0), (2.0, 0.5), (3.0, -0.25)), (0.0, 0.7, 2.5), (0.0, 2.5)):
                    if a * t1 + b * t2 < 0:
                        continue
                    lhs = run(a * e + b * dense, a * t1 + b * t2)
                    rhs = a * r1[t1] + b * base[t2]
                    col.tick(transitions=1)
                    n += 1
                    sc = max(1.0, float(np.abs(rhs).max()))
                    if not float(np.abs(lhs - rhs).max()) <= 1e-11 * sc:
                        col.violation('C03:superposition:one_pop_X', dict(info, unit=j, a=a, b=b, th1=t1, th2=t2), {'maxerr': float(np.abs(lhs - rhs).max())})
                        break
            # the X-chromosome equilibrium density under the same re-expression
            from dadi import PhiManip as PMx
            eq0 = np.asarray(PMx.phi_1D_X(xx, nu=1.5, theta0=0.7, gamma=gamma, h=h, beta=beta, alpha=alpha))
            for c in BIN_C + DEC_C:
                eqc = np.asarray(PMx.phi_1D_X(xx, nu=1.5 * c, theta0=0.7 / c, gamma=gamma / c, h=h, beta=beta, alpha=alpha))
                col.tick(transitions=1)
                n += 1
                if np.isfinite(eq0).all():
                    e_eq = float(np.abs(eqc - eq0).max()) / max(float(np.abs(eq0).max()), 1e-300)
                    if not e_eq <= (1e-12 if c in BIN_C else 1e-9):
                        col.violation('C03:rescale:phi_1D_X', dict(info, c=c), {'relerr': e_eq})
            for c in BIN_C + DEC_C:
                got = run(dense, 0.7, c)
                col.tick(transitions=1)
                n += 1
                tol = 1e-12 if c in BIN_C else 1e-9
                err = float(np.abs(got - base[0.7]).max()) / max(float(np.abs(base[0.7]).max()), 1e-300)
                if not err <= tol:
                    col.violation('C03:rescale:one_pop_X', dict(info, c=c), {'relerr': err, 'tol': tol})
    finally:
        I.timescale_factor = old_tf
    col.tick(states=n, traces=n)
    col.distinct('nontrivial', ('xchrom', G, p['grid']))


def case_superpose_manip(col, p):
    """the density operations between integrations (splits, admixture into a new population, pulses, removal, reordering) are linear maps:
    op(a*phi1 + b*phi2) = a*op(phi1) + b*op(phi2) for every unit density phi1, a dense phi2 and coefficient pairs of either sign (the
    difference of two models - a finite-difference derivative - is a signed density)"""
    d, G = p['d'], p['G']
    xx = space.grid(p['grid'], G, p['seed'])
    shape = (G,) * d
    N = G ** d
    rng = np.random.RandomState(p['seed'] + 29)
    dense = rng.uniform(0.1, 1.0, size=shape)
    ops = [op for op in PR.enabled(d, 5, selection=False) if op[0] != 'int']
    # ... and of any magnitude (a density is proportional to theta0, which may be 1e-9 of another model's)
    coefs = [(1.0, 1.0), (2.0, -0.5), (-1.0, 1.5), (1.0, -0.5), (-1.0, -1.0), (3.0, 0.25), (1e-9, 0.0), (1e-10, 1e-9), (0.0, 1e-7)]
    lo, hi = p['units']
    n = 0
    for op in ops:
        def apply(phi):
            snap = phi.copy()
            out = np.array(PR.run([op], xx, phi0=phi), dtype=float)
            if not np.array_equal(phi, snap):
                col.violation('C03:superposition:%s:input_modified' % op[0], dict(p, op=op), '')
                phi[...] = snap
            return out
        r2 = apply(dense)
        for j in range(lo, hi):
            e = np.zeros(N)
            e[j] = 1.0
            phi1 = e.reshape(shape)
            r1 = apply(phi1)
            col.tick(transitions=1)
            for a, b in coefs:
                lhs = apply(a * phi1 + b * dense)
                rhs = a * r1 + b * r2
                col.tick(transitions=1)
                n += 1
                sc = max(float(np.abs(a * r1).max()), float(np.abs(b * r2).max()), 1e-300)
                if abs(a) >= 0.25 or abs(b) >= 0.25:
                    sc = max(1.0, sc)
                err = float(np.abs(lhs - rhs).max())
                if not err <= 1e-11 * sc:
                    col.violation('C03:superposition:%s%dD' % (op[0], d), dict(p, op=op, unit=j, a=a, b=b), {'maxerr': err, 'scale': sc})
                    break
                col.observe('superposition_manip', err / (1e-11 * sc))
    col.tick(states=n, traces=n)
    col.distinct('nontrivial', ('superpose_manip', d, G, lo))


INIT_GAMMAS = [-1e6, -1e4, -400.0, -300.5, -299.0, -40.0, -3.0, -1e-3, 0.0, 1e-3, 2.0, 40.0, 299.0, 301.0, 1e3]
INIT_HS = [0.0, 0.2, 0.5, 0.7, 1.0]
INIT_NUS = [0.1, 0.5, 1.0, 3.0, 10.0]


def case_init_lattice(col, p):
    """the equilibrium density over the whole stated selection domain (not only the mild values of the program alphabet) at every factor c:
    phi_1D(nu*c, theta0/c, gamma/c, h) must not depend on c (the product gamma*nu and theta0*nu are what matter)"""
    import dadi
    if p['grid'] == 'I':
        # frequencies strictly inside (0,1) (e.g. sample frequencies i/n): the genic and neutral densities are defined there too
        xx = np.linspace(0.04, 0.96, p['G'])
    else:
        xx = space.grid(p['grid'], p['G'], p['seed'])
    h = p['h']
    n = 0
    for nu, gamma in itertools.product(INIT_NUS, INIT_GAMMAS):
        base = dadi.PhiManip.phi_1D(xx, nu=nu, theta0=p['theta0'], gamma=gamma, h=h)
        col.tick(transitions=1)
        info = dict(p, nu=nu, gamma=gamma)
        if not np.isfinite(base).all():
            col.violation('C03:rescale:phi_1D_sel:not_finite', info, {'c': 1.0})
            continue
        # proportional to theta0 (every entry, also the end points)
        for fac in (2.0, 1e-6, 0.0):
            scaled = dadi.PhiManip.phi_1D(xx, nu=nu, theta0=p['theta0'] * fac, gamma=gamma, h=h)
            col.tick(transitions=1)
            e_t = float(np.abs(scaled - fac * base).max()) / max(fac * float(np.abs(base).max()), 1e-300) if fac else float(np.abs(scaled).max())
            if not e_t <= 1e-12:
                col.violation('C03:superposition:phi_1D%s:not_proportional_to_theta0' % ('_sel' if gamma != 0 else ''), dict(info, factor=fac), {'relerr': e_t})
        for c in BIN_C + DEC_C:
            got = dadi.PhiManip.phi_1D(xx, nu=nu * c, theta0=p['theta0'] / c, gamma=gamma / c, h=h)
            col.tick(transitions=1)
            n += 1
            if not np.isfinite(got).all():
                col.violation('C03:rescale:phi_1D_sel:not_finite', dict(info, c=c), {'c': c})
                continue
            sc = max(float(np.abs(base).max()), 1e-300)
            err = float(np.abs(got - base).max()) / sc
            # the quadrature for h != 0.5 is adaptive: a last-bit change of gamma*nu under a decimal factor moves its result by |gamma*nu| ulps
            tol = 1e-12 if c in BIN_C else max(1e-9, 4e-16 * abs(gamma * nu) * 10)
            if not err <= tol:
                col.violation('C03:rescale:phi_1D%s' % ('_sel' if gamma != 0 else ''), dict(info, c=c), {'relerr': err, 'tol': tol})
            else:
                col.observe('rescale_init', err / tol)
    col.tick(states=n, traces=n)
    col.distinct('nontrivial', ('init_lattice', p['G'], p['grid'], h))


CASES = {'xchrom': case_xchrom, 'rescale': case_rescale, 'superpose': case_superpose, 'init_lattice': case_init_lattice, 'superpose_manip': case_superpose_manip}


def _dispatch(col, case):
    CASES[case['kind']](col, case)


def replay(ctx, case):
    _dispatch(ctx, case)


def run(ctx):
    cases = []
    seed = ctx.seed
    inits = [['init', 1.0, 0.0, 0.5], ['init', 2.0, 0.0, 0.5], ['init', 1.0, -3.0, 0.5], ['init', 0.5, 2.0, 0.2]]
    L = 3 if ctx.quick else 4
    progs = PR.all_programs(inits, L, maxd=3)
    ctx.note('programs from phi_1D inits: %d (length <= %d, up to 3 populations)' % (len(progs), L))
    per = 12
    gk = 'E'
    for lo in range(0, len(progs), per):
        cases.append({'kind': 'rescale', 'G': 8, 'grid': gk, 'seed': seed, 'theta0': 1.7, 'programs': progs[lo:lo + per]})
    # 4-5 population programs from dense 3-D / 4-D densities
    progs45 = PR.all_programs([['init_dense', 3, 1], ['init_dense', 4, 2]], 2 if ctx.quick else 3, maxd=5)
    progs45 = [pr for pr in progs45 if PR.dim_after(pr) >= 3 and any(op[0] in ('split', 'admix_new', 'int', 'pulse') for op in pr[1:])]
    # keep only programs that ever reach >= 4 populations
    def reaches4(pr):
        d = pr[0][1]
        best = d
        for op in pr[1:]:
            if op[0] in ('split', 'admix_new'):
                d += 1
            elif op[0] == 'remove':
                d -= 1
            best = max(best, d)
        return best >= 4
    progs45 = [pr for pr in progs45 if reaches4(pr)]
    ctx.note('programs reaching 4-5 populations: %d' % len(progs45))
    for lo in range(0, len(progs45), 6):
        cases.append({'kind': 'rescale', 'G': 4, 'grid': 'D', 'seed': seed, 'theta0': 0.6, 'programs': progs45[lo:lo + 6]})
    # the same invariance with the Chang-Cooper switch on: programs with a time-dependent integration (compiled kernels), and the 4-5 population ones
    timedep = [pr for pr in progs if any(op[0] == 'int' and any(isinstance(sz, list) for sz in op[2]) for op in pr)]
    step_t = 1 if not ctx.quick else 4
    for lo in range(0, len(timedep), per * step_t):
        cases.append({'kind': 'rescale', 'G': 8, 'grid': gk, 'seed': seed, 'theta0': 1.7, 'programs': timedep[lo:lo + per], 'delj': True})
    for lo in range(0, len(progs45), 6 * (1 if not ctx.quick else 3)):
        cases.append({'kind': 'rescale', 'G': 4, 'grid': 'D', 'seed': seed, 'theta0': 0.6, 'programs': progs45[lo:lo + 6], 'delj': True})
    for gk_x, G_x in (('E', 8), ('D', 6)):
        cases.append({'kind': 'xchrom', 'G': G_x, 'grid': gk_x, 'seed': seed})
    if ctx.quick:
        ctx.cap_hit('quick: programs up to length 3 (1-3 populations) / 2 (4-5 populations); thorough: 4 / 3')
    for h in INIT_HS:
        for gk2, G2 in (('E', 8), ('U', 12)):
            cases.append({'kind': 'init_lattice', 'G': G2, 'grid': gk2, 'seed': seed, 'theta0': 1.7, 'h': h})
    cases.append({'kind': 'init_lattice', 'G': 9, 'grid': 'I', 'seed': seed, 'theta0': 1.7, 'h': 0.5})
    # superposition
    Gd = {1: 7, 2: 5, 3: 4, 4: 3, 5: 3}
    for d in range(1, 6):
        N = Gd[d] ** d
        chunk = N if d <= 3 else 27
        for lo in range(0, N, chunk):
            if ctx.quick and d == 5 and (lo // chunk) % 3 != seed % 3:
                continue
            cases.append({'kind': 'superpose_manip', 'd': d, 'G': Gd[d], 'grid': 'D', 'seed': seed, 'units': (lo, min(N, lo + chunk))})
    for d in range(1, 6):
        G = Gd[d]
        N = G ** d
        ops = PR.int_ops(d)
        # add every frozen pattern on the plain constant op (no migration)
        base = ops[0]
        for fr in itertools.product((0, 1), repeat=d):
            if any(fr) and not all(fr):
                o = list(base)
                o[6] = list(fr)
                ops.append(o)
        nmp = [None] if d != 2 else [None, (1, 0), (0, 1), (1, 1)]
        for op in ops:
            for nomut in nmp:
                chunk = N if d <= 2 else (16 if d == 3 else 27)
                for lo in range(0, N, chunk):
                    if ctx.quick and d >= 4 and (lo // chunk) % 3 != 0:
                        continue
                    cases.append({'kind': 'superpose', 'd': d, 'G': G, 'grid': 'D', 'seed': seed, 'op': op, 'nomut': nomut, 'units': (lo, min(N, lo + chunk))})
    # long epochs (the density relaxes to a steady state) at tiny magnitudes, constant and time-dependent parameters
    for d in (1, 2):
        G = Gd[d]
        for T_long in (5.0,):
            for timedep in (False, True):
                sizes = [1.0, 2.0][:d]
                if timedep:
                    sizes = [['exp', 1.0, 1.0]] + sizes[1:]
                op = ['int', T_long, sizes, [], [0.0] * d, [0.5] * d, [0] * d]
                cases.append({'kind': 'superpose', 'd': d, 'G': G, 'grid': 'D', 'seed': seed, 'op': op, 'nomut': None, 'units': (0, min(G ** d, 6)), 'tiny': True, 'tf': 0.05})
    # an epoch of zero length (a fresh copy of the density comes back, never the caller's own array) and epochs of 8e-9 time units with a small
    # population (short, not empty: under another reference size the same epoch is 5e-10 ... 1.6e-7 long)
    for d in range(1, 6):
        G = Gd[d]
        one = [0.01, 0.02, 0.05, 0.03, 0.04][:d]
        cases.append({'kind': 'superpose', 'd': d, 'G': G, 'grid': 'D', 'seed': seed, 'op': ['int', 0.0, [1.0] * d, [], [0.0] * d, [0.5] * d, [0] * d],
                      'nomut': None, 'units': (0, min(G ** d, 4))})
    tiny_progs = []
    for d in (1, 2, 3):
        pr = [['init', 1.0, 0.0, 0.5]] + [['split', 0]] * (d - 1)
        tiny_progs.append(pr + [['int', 8e-9, [0.01, 0.02, 0.05][:d], [], [0.0] * d, [0.5] * d, [0] * d]])
        tiny_progs.append(pr + [['int', 8e-9, [['exp', 0.01, 0.02]] + [0.02, 0.05][:d - 1], [], [0.0] * d, [0.5] * d, [0] * d]])
    cases.append({'kind': 'rescale', 'G': 8, 'grid': 'E', 'seed': seed, 'theta0': 1.7, 'programs': tiny_progs})
    from mc.evidence import Collector
    a, b = Collector(), Collector()
    _dispatch(a, cases[0]); _dispatch(b, cases[0])
    assert a.viol_count == b.viol_count and a.maxima == b.maxima
    cases.sort(key=lambda c: -(len(c.get('programs', [])) * 50 + c.get('d', 0) * 10))
    explore.pmap(ctx, _dispatch, cases, chunk=1)
    ctx.tick(evaluations=len(cases))
    for c in (cases[0], cases[len(cases) // 2], cases[-1]):
        cc = dict(c)
        if 'programs' in cc:
            cc['programs'] = cc['programs'][:1]
        ctx.sample(cc)
    ctx.rule = ('all programs of the grammar up to the length bound x 7 reference-size factors, comparing every intermediate density; superposition on '
                'every INT op x frozen/nomut pattern x every unit density x coefficient pairs x theta pairs. distinct_nontrivial = distinct program '
                'chunks / (op, unit chunk) groups fully compared')
    ctx.assume('binary factors c make the rescaled run perform the same floating-point operations up to exact scaling (tolerance 1e-12); decimal factors 1e-9')
