"""C16 – demes graphs and native dadi models give the same spectrum in any units or order.

Programs of the dadi-program grammar (mc/programs.py, neutral) are evaluated
  (i)   natively;
  (ii)  through OUR translation program -> demes graph (mc/refs/demes_translate.py; branch style and split style) and dadi.Demes.SFS, in
        generations / years / rescaled reference size / explicit Ne, for EVERY permutation of the sampled demes, frozen populations as ancient samples;
  (iii) through dadi.Demes.output (export of the recorded event log) and re-import.
Enumerated: all programs up to a length bound for 1-3 populations, a curated exhaustive family for 4-5 populations (every pulse destination, every
frozen pattern incl. the 5th population, every split parent), ancient samples mid-epoch for constant / exponential / linear epochs, the YAML files of
the suite under unit / scale / order changes.
"""
import itertools
import json
import os

import numpy as np

from mc import explore, programs as PR
from mc.refs import demes_translate as DT

LEVEL = 'model_checking'
NSAMP = [3, 2, 2, 2, 2]
N0 = 8.0          # small reference size: frozen branches get size 1/N0 in the front end, which enters the time-step rule


def inner(a):
    m = np.ones(a.shape, bool)
    m.flat[0] = m.flat[-1] = False
    return m


def relerr(a, b):
    a, b = np.asarray(a, dtype=float), np.asarray(b, dtype=float)
    if a.shape != b.shape:
        return float('inf')
    m = inner(a)
    sc = max(float(np.abs(b[m]).max()), 1e-300)
    return float(np.abs(a - b)[m].max()) / sc


_ARG_CHANGES = []


def sfs(g, demes_, ns, pts, sample_times=None, **kw):
    """every front-end evaluation goes through here: the caller's lists (deme names, sample sizes, sample times) must come back as they were"""
    import dadi
    d_arg, n_arg = list(demes_), list(ns)
    t_arg = list(sample_times) if sample_times is not None else None
    out = np.asarray(dadi.Demes.SFS(g, sampled_demes=d_arg, sample_sizes=n_arg, pts=pts, sample_times=t_arg, **kw).data)
    if d_arg != list(demes_) or n_arg != list(ns) or (t_arg is not None and t_arg != list(sample_times)):
        _ARG_CHANGES.append({'sampled_demes': [list(demes_), d_arg], 'sample_sizes': [list(ns), n_arg],
                             'sample_times': [list(sample_times) if sample_times is not None else None, t_arg]})
    return out


def agree_or_ladder(err, recompute_at_small_step):
    """exact agreement (1e-8), or - when the two computations legitimately differ by operator splitting / time-step choice (demes held in another
    internal order; frozen branches of a different nominal size) - an error that is small and shrinks with the time step"""
    if err <= 1e-8:
        return True, [err]
    if err > 2e-3:
        return False, [err]
    err2 = recompute_at_small_step()
    return err2 <= max(0.6 * err, 1e-8), [err, err2]


def with_tf(tf, fn):
    import dadi
    old = dadi.Integration.timescale_factor
    dadi.Integration.timescale_factor = tf
    try:
        return fn()
    finally:
        dadi.Integration.timescale_factor = old


def coincident_events(prog):
    """True if the program puts two events on the same deme at the same instant in a way a demes graph cannot order: a pulse, or the start of
    a frozen (= ancient-sample) branch, with no integration of positive length since the last split / admixture (reordering and removal
    take no time)"""
    created = False          # a deme was created since the last integration of positive length
    frozen_before = False
    for op in prog:
        if op[0] in ('split', 'admix_new'):
            created = True
        elif op[0] == 'pulse':
            if created:
                return True
        elif op[0] == 'int' and op[1] > 0:
            now_frozen = any(op[6])
            if created and now_frozen and not frozen_before:
                return True
            frozen_before = now_frozen
            created = False
    return False


def case_program(col, p):
    import dadi
    pts = p['pts']
    xx = dadi.Numerics.default_grid(pts)
    n = 0
    for prog in p['programs']:
        d_end = PR.dim_after(prog)
        ns = NSAMP[:d_end]
        info = dict(kind='program', pts=pts, programs=[prog], export=p.get('export', True))
        if coincident_events(prog):
            col.tick(untranslatable=1)       # a pulse or an ancient sample at the very instant a deme is created: event order is not defined by a graph
            continue
        # frozen populations are ancient samples; dadi's front end gives the frozen branch size 1/Ne (one individual), which enters the time-step
        # rule: use the same size natively so that both runs take identical steps
        prog = [([op[0], op[1], [(1.0 / N0 if fz else sz) for sz, fz in zip(op[2], op[6])]] + op[3:]) if op[0] == 'int' else op for op in prog]
        try:
            DT.build_graph(DT.translate(prog, N0=N0, style='branch')[0])
            translatable = True
        except ValueError:
            translatable = False
        try:
            native = np.asarray(PR.run(prog + [['sample', ns]], xx).data)
        except Exception as e:
            col.violation('C16:native_program:raises', info, '%s: %s' % (type(e).__name__, str(e)[:200]))
            continue
        has_frozen = any(op[0] == 'int' and any(op[6]) for op in prog)
        # ---- (iii) export of the event log recorded during the native run, then re-import
        if p.get('export', True) and not has_frozen and translatable:
            for Nref, gt in ((100, None), (1e4, 25.0)):
                try:
                    PR.run(prog, xx)                       # fresh event log (phi_1D resets it)
                    g_out = dadi.Demes.output(Nref=Nref, generation_time=gt)
                    live_ids = list(dadi.Demes.cache[-1].deme_ids)
                    # exporting is a read of the event log: doing it again (other units, then the same) gives the same graph
                    dadi.Demes.output(Nref=3 * Nref, generation_time=(gt or 1.0) * 2)
                    g_again = dadi.Demes.output(Nref=Nref, generation_time=gt)
                    if g_again.asdict() != g_out.asdict():
                        col.violation('C16:export:not_repeatable', dict(info, Nref=Nref, generation_time=gt), 'a second export of the same event log differs from the first')
                    back = sfs(g_out, live_ids, ns, pts)
                except Exception as e:
                    site = export_site(prog)
                    if "'epochs' must be a non-empty list" in str(e) and any(k in site for k in ('consecutive_splits', 'split_then_remove', 'split_then_reorder')):
                        # one failure class whatever the dimension / other features: a deme that exists for zero time (two structural changes in a row)
                        site = 'zero_length_deme'
                    elif 'invalid pulse' in str(e) and any(a[0] == 'pulse' and b[0] in ('split', 'admix_new') for a, b in zip(prog, prog[1:])):
                        # one failure class: a pulse immediately followed by a split / admixture (the exporter ends the pulsed deme at the pulse time)
                        site = 'pulse_then_split'
                    elif 'is not in list' in str(e) and any(op[0] == 'admix_new' and any(0 < f < 1 for f in list(op[1]) + [1 - sum(op[1])]) for op in prog):
                        # one failure class: a model with a genuine admixture event (new population drawn from two or more parents)
                        site = 'admixture_event_not_reimportable'
                    col.violation('C16:export:%s' % site, dict(info, Nref=Nref, generation_time=gt), '%s: %s' % (type(e).__name__, str(e)[:300]))
                    continue
                col.tick(transitions=2)
                err = relerr(back, native)

                def again():
                    nat2 = np.asarray(PR.run(prog + [['sample', ns]], xx).data)
                    PR.run(prog, xx)
                    g2 = dadi.Demes.output(Nref=Nref, generation_time=gt)
                    return relerr(sfs(g2, list(dadi.Demes.cache[-1].deme_ids), ns, pts), nat2)
                okx, errsx = agree_or_ladder(err, lambda: with_tf(1e-4, again))
                if not okx and err <= 2e-2 and any(op[0] == 'remove' for op in prog):
                    # same fallback as for the import below: a difference that is a grid error shrinks under grid refinement
                    xx2 = dadi.Numerics.default_grid(2 * pts)
                    nat2 = np.asarray(PR.run(prog + [['sample', ns]], xx2).data)
                    PR.run(prog, xx2)
                    g2 = dadi.Demes.output(Nref=Nref, generation_time=gt)
                    err_fine = relerr(sfs(g2, list(dadi.Demes.cache[-1].deme_ids), ns, 2 * pts), nat2)
                    col.tick(transitions=3, agreement_only_on_grid_ladder=1)
                    errsx = errsx + [err_fine]
                    okx = err_fine <= 0.6 * err
                if not okx:
                    col.violation('C16:export:%s' % export_site(prog), dict(info, Nref=Nref, generation_time=gt), {'relerr_by_step': errsx})
                else:
                    col.observe('export', errsx[0] / 1e-8 if len(errsx) == 1 else 0.0)
        # ---- (ii) our translation
        variants = []
        for style in ('branch', 'split'):
            try:
                spec, live = DT.translate(prog, N0=N0, style=style)
                g, st = DT.build_graph(spec)
            except ValueError as e:
                col.tick(untranslatable=1)
                continue
            variants.append((style, spec, live, g, st))
        for style, spec, live, g, st in variants:
            times = [st.get(nm, 0) for nm in live] if st else None
            try:
                base = sfs(g, live, ns, pts, sample_times=times)
            except Exception as e:
                site = import_site(prog, st)
                if 'neworder argument misspecified' in str(e) and any(a[0] == 'admix_new' and b[0] == 'remove' for a, b in zip(prog, prog[1:])):
                    # one failure class: an admixed deme one of whose parents ends at the moment of admixture while the other goes on
                    site = 'parent_ends_at_admixture'
                col.violation('C16:Demes.SFS:%s' % site, dict(info, style=style), '%s: %s' % (type(e).__name__, str(e)[:300]))
                continue
            col.tick(transitions=1)
            n += 1
            err = relerr(base, native)
            ok, errs = agree_or_ladder(err, lambda: with_tf(1e-4, lambda: relerr(sfs(g, live, ns, pts, sample_times=times),
                                                                                  np.asarray(PR.run(prog + [['sample', ns]], xx).data))))
            col.tick(transitions=1 if len(errs) == 1 else 3)
            if not ok and err <= 2e-2 and (has_frozen or any(op[0] == 'remove' for op in prog)):
                # only where the two computations ARE different discretisations of the same model (an ancient sample: the graph is sliced at the
                # sample time while the native program keeps integrating the other populations next to the frozen one; a population removed
                # before or after a step): there the difference is a GRID error and must shrink when the grid is refined.  Anywhere else a
                # persistent difference is a violation (a wrong migration index shrinks under refinement too).
                xx2 = dadi.Numerics.default_grid(2 * pts)
                err_fine = relerr(sfs(g, live, ns, 2 * pts, sample_times=times), np.asarray(PR.run(prog + [['sample', ns]], xx2).data))
                col.tick(transitions=2, agreement_only_on_grid_ladder=1)
                errs = errs + [err_fine]
                ok = err_fine <= 0.6 * err
            if not ok:
                col.violation('C16:Demes.SFS:%s' % import_site(prog, st), dict(info, style=style), {'relerr_by_step': errs})
                continue
            col.observe('import', errs[0] / 1e-8 if len(errs) == 1 else 0.0)
            if len(errs) > 1:
                col.tick(agreement_only_on_ladder=1)
            if style != 'branch':
                continue
            # units, reference size, explicit Ne, deme order
            checks = []
            g_y, st_y = DT.build_graph(spec, time_units='years', generation_time=25.0)
            checks.append(('years', g_y, [st_y.get(nm, 0) for nm in live] if st_y else None, {}))
            for c in (7.0, 0.5):
                g_s, st_s = DT.build_graph(spec, scale=c)
                checks.append(('scale%g' % c, g_s, [st_s.get(nm, 0) for nm in live] if st_s else None, {}))
            checks.append(('Ne_explicit', g, times, {'Ne': N0}))
            checks.append(('Ne_x7_theta_x7', g, times, {'Ne': 7 * N0, 'theta': 7.0}))
            for tag, gg, tt, kw in checks:
                try:
                    out = sfs(gg, live, ns, pts, sample_times=tt, **kw)
                except Exception as e:
                    col.violation('C16:Demes.SFS:%s:raises' % tag, dict(info, style=style), '%s: %s' % (type(e).__name__, str(e)[:300]))
                    continue
                col.tick(transitions=1)
                e2 = relerr(out, base)
                ok2, errs2 = agree_or_ladder(e2, lambda: with_tf(1e-4, lambda: relerr(sfs(gg, live, ns, pts, sample_times=tt, **kw), sfs(g, live, ns, pts, sample_times=times))))
                if not ok2:
                    col.violation('C16:Demes.SFS:not_invariant:%s' % tag.rstrip('0123456789.'), dict(info, style=style), {'relerr_by_step': errs2})
            for perm in itertools.permutations(range(d_end)):
                if list(perm) == list(range(d_end)):
                    continue
                try:
                    out = sfs(g, [live[k] for k in perm], [ns[k] for k in perm], pts, sample_times=[times[k] for k in perm] if times else None)
                except Exception as e:
                    col.violation('C16:Demes.SFS:deme_order:raises', dict(info, perm=perm), '%s: %s' % (type(e).__name__, str(e)[:300]))
                    continue
                col.tick(transitions=1)
                e3 = relerr(out, np.transpose(base, perm))
                if not e3 <= 1e-8:
                    col.violation('C16:Demes.SFS:deme_order', dict(info, perm=perm), {'relerr': e3})
    col.tick(states=n, traces=n)
    col.distinct('nontrivial', ('program', pts, json.dumps(p['programs'][0])[:160], len(p['programs'])))


def export_site(prog):
    d = 0
    maxd = 0
    kinds = set()
    for op in prog:
        if op[0] == 'init':
            d = 1
        elif op[0] in ('split', 'admix_new'):
            d += 1
        elif op[0] == 'remove':
            d -= 1
        maxd = max(maxd, d)
        if op[0] == 'pulse':
            kinds.add('pulse%dd_into_%d' % (d, op[1] + 1))
        if op[0] == 'int' and any(isinstance(s, list) and s[0] == 'lin' for s in op[2]):
            kinds.add('linear')
    for a, b in zip(prog, prog[1:]):
        if a[0] in ('split', 'admix_new') and b[0] in ('split', 'admix_new'):
            kinds.add('consecutive_splits')
        if a[0] in ('split', 'admix_new') and b[0] == 'remove':
            kinds.add('split_then_remove')
        if a[0] in ('split', 'admix_new') and b[0] == 'reorder':
            kinds.add('split_then_reorder')
    if any(op[0] == 'admix_new' for op in prog):
        kinds.add('admix_new')
    if any(op[0] == 'reorder' for op in prog):
        kinds.add('reorder')
    return '%dd:%s' % (maxd, '+'.join(sorted(kinds)) if kinds else 'plain')


def import_site(prog, st):
    d = 0
    maxd = 0
    for op in prog:
        if op[0] == 'init':
            d = 1
        elif op[0] in ('split', 'admix_new'):
            d += 1
        elif op[0] == 'remove':
            d -= 1
        maxd = max(maxd, d)
    return '%dd%s' % (maxd, ':ancient' if st else '')


def case_ancient(col, p):
    """ancient samples in the middle of constant / exponential / linear epochs (DemesUtil.slice) vs the frozen-branch program"""
    import dadi
    import demes
    pts = 14
    xx = dadi.Numerics.default_grid(pts)
    fn, frac, sample_other = p['function'], p['frac'], p['sample_other']
    T1, T2 = 0.08, 0.12
    a, z = 0.5, 2.0

    def size_at(t):
        if fn == 'constant':
            return a
        if fn == 'exponential':
            return a * (z / a) ** (t / T2)
        return a + (z - a) * t / T2
    tm = T2 * frac
    # graph: root -> A, B at T2 before present; A has ONE epoch with the size function; B constant; symmetric migration
    b = demes.Builder(time_units='generations')
    b.add_deme('anc', epochs=[dict(start_size=N0, end_time=(T1 + T2) * 2 * N0), dict(start_size=1.5 * N0, end_time=T2 * 2 * N0)])
    ep = dict(start_size=a * N0, end_size=(a if fn == 'constant' else z) * N0, end_time=0)
    if fn != 'constant':
        ep['size_function'] = fn
    Tpre = 0.05 if p.get('pre_epoch') else 0.0
    if Tpre:
        # A has an earlier constant epoch, so the sliced epoch is not the deme's first one
        b.data['demes'][0]['epochs'][-1]['end_time'] = (Tpre + T2) * 2 * N0
        b.data['demes'][0]['epochs'][0]['end_time'] = (T1 + Tpre + T2) * 2 * N0
        b.add_deme('A', ancestors=['anc'], epochs=[dict(start_size=1.3 * N0, end_time=T2 * 2 * N0), ep])
    else:
        b.add_deme('A', ancestors=['anc'], epochs=[ep])
    b.add_deme('B', ancestors=['anc'], epochs=[dict(start_size=0.8 * N0, end_time=0)])
    if p['mig']:
        b.add_migration(demes=['A', 'B'], rate=1.0 / (2 * N0))
    g = b.resolve()
    st_A = (T2 - tm) * 2 * N0
    sampled = ['A', 'B'] if sample_other else ['A']
    if sample_other == 'same':
        # the same deme sampled today (listed first) and in the past
        sampled = ['A', 'A']
    # sample_other == 'ancient': B is sampled in the past as well (later than A): every sample is ancient, at two different times
    tmB = tm + 0.5 * (T2 - tm) if sample_other == 'ancient' else T2
    times = [st_A, (T2 - tmB) * 2 * N0] if sample_other else [st_A]
    ns = [3, 2] if sample_other else [3]
    if sample_other == 'same':
        times, ns = [0, st_A], [2, 3]
    info = dict(p, kind='ancient')
    try:
        got = sfs(g, sampled, ns, pts, sample_times=times)
    except Exception as e:
        col.violation('C16:Demes.SFS:ancient_sample:%s:raises' % fn, info, '%s: %s' % (type(e).__name__, str(e)[:300]))
        return
    col.tick(transitions=1)
    # native: piecewise program with a frozen branch of A from time tm on
    from dadi import PhiManip as PM, Integration as I
    phi = PM.phi_1D(xx)
    phi = I.one_pop(phi, xx, T1, nu=1.5)
    phi = PM.phi_1D_to_2D(xx, phi)
    m = 1.0 if p['mig'] else 0.0
    if Tpre:
        phi = I.two_pops(phi, xx, Tpre, nu1=1.3, nu2=0.8, m12=m, m21=m)
    nuA1 = (lambda t: size_at(t)) if fn != 'constant' else a
    phi = I.two_pops(phi, xx, tm, nu1=nuA1, nu2=0.8, m12=m, m21=m)
    if sample_other:
        # A' (frozen copy of A) appended as population 3; A and B continue
        phi = PM.phi_2D_to_3D_split_1(xx, phi)
        nuA2 = (lambda t: size_at(tm + t)) if fn != 'constant' else a
        phi = I.three_pops(phi, xx, tmB - tm, nu1=nuA2, nu2=0.8, nu3=1.0 / N0, m12=m, m21=m, frozen3=True)
        if sample_other == 'same':
            phi = PM.remove_pop(phi, xx, 2)               # B is not sampled; axes now (A today, A')
            fs = dadi.Spectrum.from_phi(phi, [2, 3], [xx, xx], mask_corners=False)
        else:
            phi = PM.remove_pop(phi, xx, 1)                   # A itself is not sampled at present
            # axes now (B, A'); sampled order is (A_sampled, B)
            fs = dadi.Spectrum.from_phi(np.ascontiguousarray(phi.transpose(1, 0)), [3, 2], [xx, xx], mask_corners=False)
    else:
        # only the ancient sample is requested: the graph is sliced at the sample time, nothing happens afterwards
        phi = PM.remove_pop(phi, xx, 2)
        fs = dadi.Spectrum.from_phi(phi, [3], [xx], mask_corners=False)
    err = relerr(got, np.asarray(fs.data))
    if not err <= 1e-7:
        col.violation('C16:Demes.SFS:ancient_sample:%s' % fn, info, {'relerr': err})
    else:
        col.observe('ancient', err / 1e-7)
    col.tick(states=1, traces=1)
    col.distinct('nontrivial', ('ancient', fn, frac, sample_other, p['mig'], bool(p.get('pre_epoch'))))


def case_size_cut(col, p):
    """ONE epoch of deme A with a constant / exponential / linear size function, cut into three or four integration pieces by events of other
    demes (B branches off, C branches off, a pulse or a migration change), vs the native program that integrates the same global size
    function piece by piece"""
    import dadi
    import demes
    from dadi import PhiManip as PM, Integration as I
    pts = 12
    xx = dadi.Numerics.default_grid(pts)
    fn, event = p['function'], p['third_event']
    Tpre = 0.05
    cuts = [0.03, 0.05, 0.04, 0.06] if event != 'none' else [0.03, 0.05, 0.04]
    Ttot = sum(cuts)
    a, z = 0.6, 2.2

    def size_at(t):
        if fn == 'constant':
            return a
        if fn == 'exponential':
            return a * (z / a) ** (t / Ttot)
        return a + (z - a) * t / Ttot
    gen = lambda T: T * 2 * N0
    tB, tC = Ttot - cuts[0], Ttot - cuts[0] - cuts[1]
    tE = tC - cuts[2] if event != 'none' else None
    b = demes.Builder(time_units='generations')
    b.add_deme('anc', epochs=[dict(start_size=N0, end_time=gen(Tpre + Ttot)), dict(start_size=1.4 * N0, end_time=gen(Ttot))])
    ep = dict(start_size=a * N0, end_size=(a if fn == 'constant' else z) * N0, end_time=0)
    if fn != 'constant':
        ep['size_function'] = fn
    b.add_deme('A', ancestors=['anc'], epochs=[ep])
    b.add_deme('B', ancestors=['A'], start_time=gen(tB), epochs=[dict(start_size=0.8 * N0, end_time=0)])
    b.add_deme('C', ancestors=['A'], start_time=gen(tC), epochs=[dict(start_size=0.5 * N0, end_time=0)])
    if event == 'pulse':
        b.add_pulse(sources=['B'], dest='C', proportions=[0.25], time=gen(tE))
    elif event == 'migration':
        b.add_migration(demes=['B', 'C'], rate=1.5 / (2 * N0), start_time=gen(tE), end_time=0)
    elif event == 'migration_window':
        # one-way migration that starts and stops at times when nothing else happens in the graph
        b.add_migration(source='B', dest='C', rate=1.5 / (2 * N0), start_time=gen(tE), end_time=gen(0.02))
    g = b.resolve()
    info = dict(p, kind='size_cut')
    try:
        got = sfs(g, ['A', 'B', 'C'], [2, 2, 2], pts)
    except Exception as e:
        col.violation('C16:Demes.SFS:size_function_cut:%s:raises' % fn, info, '%s: %s' % (type(e).__name__, str(e)[:300]))
        return
    col.tick(transitions=1)

    def native():
        phi = PM.phi_1D(xx)
        phi = I.one_pop(phi, xx, Tpre, nu=1.4)
        t0 = 0.0
        f = (lambda off: (lambda t: size_at(off + t))) if fn != 'constant' else (lambda off: a)
        phi = I.one_pop(phi, xx, cuts[0], nu=f(t0))
        t0 += cuts[0]
        phi = PM.phi_1D_to_2D(xx, phi)
        phi = I.two_pops(phi, xx, cuts[1], nu1=f(t0), nu2=0.8)
        t0 += cuts[1]
        phi = PM.phi_2D_to_3D_split_1(xx, phi)
        phi = I.three_pops(phi, xx, cuts[2], nu1=f(t0), nu2=0.8, nu3=0.5)
        t0 += cuts[2]
        if event == 'pulse':
            phi = PM.phi_3D_admix_1_and_2_into_3(phi, 0.0, 0.25, xx, xx, xx)
            phi = I.three_pops(phi, xx, cuts[3], nu1=f(t0), nu2=0.8, nu3=0.5)
        elif event == 'migration':
            phi = I.three_pops(phi, xx, cuts[3], nu1=f(t0), nu2=0.8, nu3=0.5, m23=1.5, m32=1.5)
        elif event == 'migration_window':
            # migrants move from B (population 2) into C (population 3): dadi's m32 is the rate into 3 from 2
            phi = I.three_pops(phi, xx, cuts[3] - 0.02, nu1=f(t0), nu2=0.8, nu3=0.5, m32=1.5)
            phi = I.three_pops(phi, xx, 0.02, nu1=f(t0 + cuts[3] - 0.02), nu2=0.8, nu3=0.5)
        return np.asarray(dadi.Spectrum.from_phi(phi, [2, 2, 2], [xx, xx, xx], mask_corners=False).data)
    ref = native()
    err = relerr(got, ref)

    def small():
        return relerr(with_tf(1e-4, lambda: sfs(g, ['A', 'B', 'C'], [2, 2, 2], pts)), with_tf(1e-4, native))
    ok, e2 = agree_or_ladder(err, small)
    if not ok:
        col.violation('C16:Demes.SFS:size_function_cut:%s' % fn, info, {'relerr': err, 'relerr_small_step': e2})
    else:
        col.observe('size_cut', err / 1e-7)
    col.tick(states=1, traces=1)
    col.distinct('nontrivial', ('size_cut', fn, event))


def case_yaml(col, p):
    """the graphs shipped with the suite: invariance under unit conversion, rescaling of the reference size and deme order"""
    import dadi
    import demes
    fn = os.path.join(os.environ.get('DADI_REPO', '/repo'), 'tests', 'demes', p['file'])
    g = demes.load(fn)
    sampled, ns, pts = p['demes'], p['ns'], p['pts']
    info = dict(p, kind='yaml')
    try:
        base = sfs(g, sampled, ns, pts)
    except Exception as e:
        col.violation('C16:yaml:%s:raises' % p['file'], info, '%s: %s' % (type(e).__name__, str(e)[:300]))
        return
    col.tick(transitions=1)
    n = 1
    # other time units
    d = g.asdict()
    for units, gt in (('generations', None), ('years', 29.0)):
        dd = json.loads(json.dumps(d))
        cur_gt = g.generation_time if g.time_units != 'generations' else 1.0
        to_gen = 1.0 / cur_gt if g.time_units != 'generations' else 1.0
        fac = to_gen * (gt if units == 'years' else 1.0)
        dd['time_units'] = units
        if units == 'years':
            dd['generation_time'] = gt
        else:
            dd.pop('generation_time', None)
            dd['generation_time'] = 1

        def scale_times(obj):
            if isinstance(obj, dict):
                for k, v in obj.items():
                    if k in ('start_time', 'end_time', 'time') and isinstance(v, (int, float)) and v not in (float('inf'),):
                        obj[k] = v * fac
                    else:
                        scale_times(v)
            elif isinstance(obj, list):
                for v in obj:
                    scale_times(v)
        scale_times(dd)
        try:
            g2 = demes.Builder.fromdict(dd).resolve()
            out = sfs(g2, sampled, ns, pts)
        except Exception as e:
            col.violation('C16:yaml:units:raises', dict(info, units=units), '%s: %s' % (type(e).__name__, str(e)[:300]))
            continue
        col.tick(transitions=1)
        n += 1
        if not relerr(out, base) <= 1e-8:
            col.violation('C16:Demes.SFS:not_invariant:units', dict(info, units=units), {'relerr': relerr(out, base)})
    for perm in itertools.permutations(range(len(sampled))):
        if list(perm) == list(range(len(sampled))) or len(sampled) > 3:
            continue
        out = sfs(g, [sampled[k] for k in perm], [ns[k] for k in perm], pts)
        col.tick(transitions=1)
        n += 1
        if not relerr(out, np.transpose(base, perm)) <= 1e-8:
            col.violation('C16:Demes.SFS:deme_order', dict(info, perm=perm), {'relerr': relerr(out, np.transpose(base, perm))})
    col.tick(states=n, traces=n)
    col.distinct('nontrivial', ('yaml', p['file']))


CASES = {'program': case_program, 'ancient': case_ancient, 'size_cut': case_size_cut, 'yaml': case_yaml}


def _dispatch(col, case):
    del _ARG_CHANGES[:]
    CASES[case['kind']](col, case)
    if _ARG_CHANGES:
        col.violation('C16:Demes.SFS:caller_lists_modified', dict(case, programs=case.get('programs', [])[:1]), _ARG_CHANGES[0])
        del _ARG_CHANGES[:]


def replay(ctx, case):
    _dispatch(ctx, case)


def family_45():
    """curated exhaustive family reaching 4 and 5 populations: every split parent, every pulse destination, every frozen pattern of the last epoch"""
    base = [['init', 1.0, 0.0, 0.5], ['int', 0.05, [1.5], [], [0.0], [0.5], [0]], ['split', 0],
            ['int', 0.04, [1.0, 0.6], [[[0, 1], 0.5], [[1, 0], 0.25]], [0.0] * 2, [0.5] * 2, [0, 0]]]
    out = []
    # every migration rate of the 4- and 5-population integrators distinct and non-zero (always run, also in the quick tier)
    b4f = base + [['split', 0], ['int', 0.03, [1.0, 0.6, 1.2], [], [0.0] * 3, [0.5] * 3, [0, 0, 0]], ['split', 1]]
    migf4 = [[[i, j], 0.2 + 0.3 * i + 0.07 * j] for i in range(4) for j in range(4) if i != j]
    out.append(b4f + [['int', 0.02, [1.0, 0.6, 1.2, 0.8], migf4, [0.0] * 4, [0.5] * 4, [0] * 4]])
    migf5 = [[[i, j], 0.2 + 0.3 * i + 0.07 * j] for i in range(5) for j in range(5) if i != j]
    out.append(b4f + [['int', 0.02, [1.0, 0.6, 1.2, 0.8], [], [0.0] * 4, [0.5] * 4, [0] * 4], ['split', 2],
                      ['int', 0.01, [1.0, 0.6, 1.2, 0.8, 0.9], migf5, [0.0] * 5, [0.5] * 5, [0] * 5]])
    # two pulses at the same instant that do not commute (the destination of the first is a source of the second): their order is part of the model
    end2 = ['int', 0.02, [1.0, 0.6], [], [0.0] * 2, [0.5] * 2, [0, 0]]
    out.append(base + [['pulse', 0, [0.25]], ['pulse', 1, [0.5]], end2])
    out.append(base + [['pulse', 1, [0.25]], ['pulse', 0, [0.5]], end2])
    b3s = base + [['split', 1], ['int', 0.03, [1.0, 0.6, 1.2], [], [0.0] * 3, [0.5] * 3, [0, 0, 0]]]
    end3 = ['int', 0.02, [1.0, 0.6, 1.2], [], [0.0] * 3, [0.5] * 3, [0, 0, 0]]
    out.append(b3s + [['pulse', 1, [0.25, 0.0]], ['pulse', 2, [0.0, 0.5]], end3])
    out.append(b3s + [['pulse', 2, [0.0, 0.5]], ['pulse', 1, [0.25, 0.0]], end3])
    # a pulse into a deme at the very instant a child branches off it (the child carries the pulsed ancestry), for both destinations
    for dest in (0, 1):
        for parent in (0, 1):
            out.append(base + [['pulse', dest, [0.25]], ['split', parent], end3])
    # a cyclic reordering of three populations (not its own inverse) between two integrations
    out.append(b3s + [['reorder', [1, 2, 0]], ['int', 0.02, [1.2, 1.0, 0.6], [[[0, 1], 0.5]], [0.0] * 3, [0.5] * 3, [0, 0, 0]]])
    out.append(b3s + [['reorder', [2, 0, 1]], ['int', 0.02, [0.6, 1.2, 1.0], [[[0, 1], 0.5]], [0.0] * 3, [0.5] * 3, [0, 0, 0]]])
    # a fifth population founded by admixture, with every way of spreading unequal fractions over the four parents' slots
    for props in ([0.25, 0.25, 0.0], [0.0, 0.25, 0.5], [0.5, 0.0, 0.0], [0.125, 0.0, 0.25]):
        out.append(b4f + [['int', 0.02, [1.0, 0.6, 1.2, 0.8], [], [0.0] * 4, [0.5] * 4, [0] * 4], ['admix_new', props],
                          ['int', 0.01, [1.0, 0.6, 1.2, 0.8, 0.7], [], [0.0] * 5, [0.5] * 5, [0] * 5]])
    family_45.n_always = len(out)
    for p3 in (0, 1):
        b3 = base + [['split', p3], ['int', 0.03, [1.0, 0.6, ['exp', 0.5, 1.5]], [[[0, 2], 0.5]], [0.0] * 3, [0.5] * 3, [0, 0, 0]]]
        for p4 in (0, 1, 2):
            b4 = b3 + [['split', p4]]
            sizes4 = [1.0, 0.6, 1.2, ['lin', 0.4, 0.9]]
            mig4 = [[[0, 3], 0.5], [[3, 1], 0.75], [[2, 1], 0.25]]
            for dest in range(4):
                out.append(b4 + [['int', 0.02, sizes4, mig4, [0.0] * 4, [0.5] * 4, [0] * 4], ['pulse', dest, [0.25, 0.125, 0.0]],
                                 ['int', 0.01, [1.0, 0.6, 1.2, 0.8], [], [0.0] * 4, [0.5] * 4, [0] * 4]])
            for fr in itertools.product((0, 1), repeat=4):
                if sum(fr) in (1, 2):
                    out.append(b4 + [['int', 0.02, [1.0, 0.6, 1.2, 0.8], [], [0.0] * 4, [0.5] * 4, list(fr)]])
            out.append(b4 + [['int', 0.02, sizes4, mig4, [0.0] * 4, [0.5] * 4, [0] * 4], ['remove', 1], ['int', 0.01, [1.0, 1.2, 0.5], [], [0.0] * 3, [0.5] * 3, [0, 0, 0]]])
            out.append(b4 + [['admix_new', [0.25, 0.25, 0.0]], ['int', 0.01, [1.0, 0.6, 1.2, 0.8, 0.7], [], [0.0] * 5, [0.5] * 5, [0] * 5]])
            if p3 == 0:
                for p5 in range(4):
                    b5 = b4 + [['int', 0.02, sizes4, mig4, [0.0] * 4, [0.5] * 4, [0] * 4], ['split', p5]]
                    sizes5 = [1.0, 0.6, 1.2, 0.8, ['exp', 0.3, 0.9]]
                    mig5 = [[[0, 4], 0.5], [[4, 2], 0.75]]
                    if p4 == 0:
                        for dest in range(5):
                            out.append(b5 + [['int', 0.01, sizes5, mig5, [0.0] * 5, [0.5] * 5, [0] * 5], ['pulse', dest, [0.25, 0.0, 0.125, 0.0]],
                                             ['int', 0.01, [1.0, 0.6, 1.2, 0.8, 0.9], [], [0.0] * 5, [0.5] * 5, [0] * 5]])
                        for k in range(5):
                            fr = [0] * 5
                            fr[k] = 1
                            out.append(b5 + [['int', 0.01, [1.0, 0.6, 1.2, 0.8, 0.5], [], [0.0] * 5, [0.5] * 5, fr]])
                    else:
                        out.append(b5 + [['int', 0.01, sizes5, mig5, [0.0] * 5, [0.5] * 5, [0] * 5]])
    return out


def run(ctx):
    cases = []
    L = 3 if ctx.quick else 5
    progs = PR.all_programs([['init', 1.0, 0.0, 0.5]], L, maxd=3, selection=False)
    # drop programs that end with no integration at all after the last structural change? keep all; skip only trivial ones
    progs = [pr for pr in progs if len(pr) > 1]
    ctx.note('programs (1-3 populations, length <= %d): %d; 4-5 population family: %d' % (L, len(progs), len(family_45())))
    per = 10
    for lo in range(0, len(progs), per):
        cases.append({'kind': 'program', 'pts': 10, 'programs': progs[lo:lo + per]})
    f45 = family_45()
    if ctx.quick:
        f45 = [pr for i, pr in enumerate(f45) if i < family_45.n_always or i % 3 == ctx.seed % 3]
        ctx.cap_hit('quick: one third of the 4-5 population family (rotated with the seed) and programs up to length 3; thorough: all, length 5')
    for lo in range(0, len(f45), 3):
        cases.append({'kind': 'program', 'pts': 8, 'programs': f45[lo:lo + 3]})
    for fn in ('constant', 'exponential', 'linear'):
        for frac in (0.25, 0.5):
            for other in (False, True, 'ancient', 'same'):
                for mig in (False, True):
                    for pre in (False, True):
                        cases.append({'kind': 'ancient', 'function': fn, 'frac': frac, 'sample_other': other, 'mig': mig, 'pre_epoch': pre})
    for fn in ('constant', 'exponential', 'linear'):
        for ev in ('none', 'pulse', 'migration', 'migration_window'):
            cases.append({'kind': 'size_cut', 'function': fn, 'third_event': ev})
    yamls = [('bottleneck.yaml', ['our_population'], [5], 12), ('two_epoch.yaml', ['deme0'], [6], 12), ('zigzag.yaml', ['generic'], [6], 12),
             ('gutenkunst_ooa.yaml', ['YRI', 'CEU', 'CHB'], [3, 2, 2], 10), ('linear_size_function_example.yaml', ['pop_1', 'pop_2'], [3, 4], 12),
             ('offshoots.yaml', ['ancestral', 'offshoot1', 'offshoot2'], [3, 2, 2], 10), ('browning_america.yaml', ['AFR', 'EUR', 'ADMIX'], [2, 2, 3], 8)]
    for f, dm, ns, pts in yamls:
        cases.append({'kind': 'yaml', 'file': f, 'demes': dm, 'ns': ns, 'pts': pts})
    cases.sort(key=lambda c: -(c.get('pts', 20) if c['kind'] == 'program' and c['pts'] == 8 else 0))
    explore.pmap(ctx, _dispatch, cases, chunk=1)
    ctx.tick(evaluations=len(cases))
    for c in (cases[0], cases[len(cases) // 2], cases[-1]):
        cc = dict(c)
        if 'programs' in cc:
            cc['programs'] = cc['programs'][:1]
        ctx.sample(cc)
    ctx.rule = ('every program of the grammar up to the length bound (1-3 populations) and the 4-5 population family, each evaluated natively, via two '
                'styles of our own graph translation x units x reference sizes x Ne x all deme permutations, and via export + re-import for 2 (Nref, '
                'generation_time) pairs; ancient-sample lattice; shipped YAML graphs. distinct_nontrivial = distinct program chunks / cases')
    ctx.assume('the demes package (parsing/resolution) is trusted; export with Nref=None normalises migration rates by design and is not re-importable, so it is not compared')
