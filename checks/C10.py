"""C10 – population bookkeeping on spectra equals explicit index arithmetic and keeps labels.

A. operator extraction: for shapes d=2..6 with unequal sample sizes, every unit spectrum (d<=4 always; d=5,6 thinned in
   quick) and dense integer spectra, x every subset for marginalize / filter_pops, every permutation for reorder_pops,
   every merge set (and every ordering of it for |S|<=3) for combine_pops, combine_two_pops, Misc.combine_pops,
   scramble_pop_ids; labelled / unlabelled; folded / unfolded.  Oracle: explicit re-indexing in Fractions.
B. BFS depth 2 over {marginalize, reorder, combine, project, fold}: commuting paths merge in the exact reference state and the
   implementation's results along both paths are compared.
"""
import itertools
from fractions import Fraction
from math import comb

import numpy as np

from mc import explore
from mc.refs import spectrum as RS

LEVEL = 'model_checking'

SHAPES = {2: [(1, 2), (3, 2)], 3: [(1, 2, 3), (2, 1, 2)], 4: [(1, 2, 3, 1), (2, 1, 1, 3)], 5: [(1, 2, 3, 1, 2)], 6: [(1, 2, 1, 1, 2, 1)]}


def _labels(d, labelled):
    # names whose alphabetical order is not their axis order
    return ['YRI', 'CEU', 'JPT', 'ASW', 'MXL', 'CHB'][:d] if labelled else None


def _cmp(col, key, p, got, ref_d, ref_m, labels, folded=False, tol=1e-12):
    import dadi
    gd = np.asarray(got.data, dtype=float)
    gm = np.ma.getmaskarray(got)
    ex = RS.to_float(ref_d)
    if gd.shape != ex.shape:
        col.violation(key + ':shape', p, {'got': gd.shape, 'exp': ex.shape})
        return
    exm = ref_m.copy()
    if not np.array_equal(gm, exm):
        col.violation(key + ':mask', p, {'got': gm.astype(int), 'exp': exm.astype(int)})
        return
    sel = ~exm
    err = np.abs(gd - ex)[sel].max() if sel.any() else 0.0
    scale = max(1.0, float(np.abs(ex[sel]).max()) if sel.any() else 1.0)
    if not err <= tol * scale:
        col.violation(key + ':data', p, {'maxerr': float(err), 'got': gd, 'exp': ex})
    col.observe('data', err / (tol * scale))
    tot_g, tot_e = float(gd[sel].sum()), float(ex[sel].sum())
    if abs(tot_g - tot_e) > 1e-11 * max(1.0, abs(tot_e)):
        col.violation(key + ':total', p, {'got': tot_g, 'exp': tot_e})
    if labels != 'skip':
        gl = getattr(got, 'pop_ids', None)
        if (list(gl) if gl is not None else None) != labels:
            col.violation(key + ':labels', p, {'got': gl, 'exp': labels})
    if isinstance(got, dadi.Spectrum) and bool(got.folded) != folded:
        col.violation(key + ':folded_flag', p, {'got': got.folded})


def _cm(mask):
    m = mask.copy()
    m.flat[0] = True
    m.flat[-1] = True
    return m


def _ref_apply(op, d, m, labels, folded):
    """reference transition.  For folded states the documented meaning is fold(op(unfold(x)))."""
    if folded and op[0] not in ('fold',):
        ud, um = RS.unfold(d, m)
        nd, nm, nl, _ = _ref_apply(op, ud, _cm(um), labels, False)
        fd, fm = RS.fold(nd, nm)
        return fd, _cm(fm), nl, True
    kind = op[0]
    if kind == 'marg':
        over = list(op[1])
        nd, nm = RS.marginalize(d, np.zeros(d.shape, bool), over)
        # numpy.ma sums skip masked (corner) entries; corners of the result are re-masked, so only they are affected
        nl = [l for i, l in enumerate(labels) if i not in over] if labels else None
        return nd, _cm(np.zeros(nd.shape, bool)), nl, False
    if kind == 'reorder':
        perm = [q - 1 for q in op[1]]
        nd, nm = RS.transpose(d, m, perm)
        nl = [labels[q] for q in perm] if labels else None
        return nd, nm, nl, False
    if kind == 'combine':
        g = sorted(q - 1 for q in op[1])
        nd, nm = RS.combine(d, m, g)
        nl = None
        if labels:
            nl = [('+'.join(labels[q] for q in g) if i == g[0] else l) for i, l in enumerate(labels) if i == g[0] or i not in g]
        return nd, _cm(nm), nl, False
    if kind == 'proj':
        ns = [s - 1 for s in d.shape]
        ns[op[1]] = op[2]
        nd, nm = RS.project(d, m, ns)
        return nd, nm, labels, False
    if kind == 'fold':
        nd, nm = RS.fold(d, m)
        return nd, _cm(nm), labels, True
    raise KeyError(kind)


def _impl_apply(op, fs):
    kind = op[0]
    if kind == 'marg':
        over = list(op[1])
        if len(over) == 1 and over[0] % 2 == 1:
            over = [over[0] - fs.ndim]          # the same axis counted from the end, numpy style
        return fs.marginalize(over)
    if kind == 'filter':
        return fs.filter_pops(list(op[1]))
    if kind == 'reorder':
        return fs.reorder_pops(list(op[1]))
    if kind == 'combine':
        return fs.combine_pops(list(op[1]))
    if kind == 'proj':
        ns = list(fs.sample_sizes)
        ns[op[1]] = op[2]
        return fs.project(ns)
    if kind == 'fold':
        return fs.fold()
    raise KeyError(kind)


def _ops_for(d, full_orderings=True):
    ops = []
    pops = list(range(d))
    for k in range(1, d):
        for over in itertools.combinations(pops, k):
            ops.append(('marg', over))
            if len(over) >= 2:
                ops.append(('marg', tuple(reversed(over))))          # axes may be listed in any order
                if len(over) >= 3:
                    ops.append(('marg', (over[1], over[0]) + tuple(over[2:])))
            keep = tuple(q + 1 for q in pops if q not in over)
            ops.append(('filter', keep))
            if len(keep) >= 2:
                ops.append(('filter', tuple(reversed(keep))))     # 'unordered set': order given must not matter
    perms = list(itertools.permutations(range(1, d + 1)))
    if d >= 6:
        perms = [pm for i, pm in enumerate(perms) if i % 24 == 0 or i == len(perms) - 1]
    for pm in perms:
        ops.append(('reorder', pm))
    for k in range(2, d + 1):
        for S in itertools.combinations(range(1, d + 1), k):
            if k <= 3 and full_orderings:
                for o in itertools.permutations(S):
                    ops.append(('combine', o))
            else:
                ops.append(('combine', S))
                ops.append(('combine', tuple(reversed(S))))
    return ops


def case_operator(col, p):
    import dadi
    ns = tuple(p['ns'])
    d = len(ns)
    shape = tuple(n + 1 for n in ns)
    labels = _labels(d, p['labelled'])
    folded = p['folded']
    idxs = list(np.ndindex(*shape))
    arrays = []
    if p['input'] == 'units':
        lo, hi = p['units']
        for idx in idxs[lo:hi]:
            a = np.zeros(shape)
            a[idx] = 1.0
            arrays.append(('unit%s' % (idx,), a))
    else:
        rng = np.random.RandomState(p['seed'] * 7 + 13)
        for k in range(2):
            arrays.append(('dense%d' % k, rng.randint(1, 64, size=shape).astype(float)))
    ops = _ops_for(d, full_orderings=p.get('full_orderings', True))
    if p.get('op_filter'):
        ops = [o for o in ops if o[0] in p['op_filter']]
    for name, a in arrays:
        fs0 = dadi.Spectrum(a.copy(), pop_ids=list(labels) if labels else None)     # corners masked (convention)
        rd0, rm0 = RS.fr_array(a), _cm(np.zeros(shape, bool))
        if folded:
            fs0 = fs0.fold()
            rd0, rm0 = RS.fold(rd0, rm0)
            rm0 = _cm(rm0)
        snap_d, snap_m = np.asarray(fs0.data).copy(), np.ma.getmaskarray(fs0).copy()
        snap_l = list(fs0.pop_ids) if fs0.pop_ids else None
        for op in ops:
            rop = ('marg', tuple(q for q in range(d) if q + 1 not in op[1])) if op[0] == 'filter' else op
            try:
                out = _impl_apply(op, fs0)
            except Exception as e:
                col.tick(transitions=1)
                col.violation('C10:%s:raises' % op[0], dict(p, array=name, op=op), '%s: %s' % (type(e).__name__, e))
                continue
            col.tick(transitions=1)
            nd, nm, nl, nf = _ref_apply(rop, rd0, rm0, labels, folded)
            _cmp(col, 'C10:%s' % op[0], dict(p, array=name, op=op), out, nd, nm, nl, folded=nf)
            if not (np.array_equal(np.asarray(fs0.data), snap_d) and np.array_equal(np.ma.getmaskarray(fs0), snap_m)
                    and (list(fs0.pop_ids) if fs0.pop_ids else None) == snap_l):
                col.violation('C10:%s:input_modified' % op[0], dict(p, array=name, op=op), {'pop_ids_now': fs0.pop_ids})
                fs0 = dadi.Spectrum(a.copy(), pop_ids=list(labels) if labels else None)
                if folded:
                    fs0 = fs0.fold()
        # combine_two_pops directly, Misc.combine_pops, scramble (unfolded only)
        if not folded:
            for i, j in itertools.permutations(range(1, d + 1), 2):
                out = fs0.combine_two_pops([i, j])
                col.tick(transitions=1)
                nd, nm, nl, _ = _ref_apply(('combine', (i, j)), rd0, rm0, labels, False)
                _cmp(col, 'C10:combine_two_pops', dict(p, array=name, op=(i, j)), out, nd, nm, nl)
            if d in (2, 3):
                for idx in ([[0, 1]] if d == 2 else [[0, 1], [0, 2], [1, 2]]):
                    out = dadi.Misc.combine_pops(fs0, idx=list(idx))
                    col.tick(transitions=1)
                    nd, nm = RS.combine(rd0, np.zeros(shape, bool), idx)
                    # result: merged axis first, then the remaining one
                    rest = [q for q in range(d) if q not in idx]
                    if d == 3 and idx[0] != 0:
                        nd, _ = RS.transpose(nd, np.zeros(nd.shape, bool), [1, 0])
                    # the masked corners of the input are summed as plain data by numpy.array(fs)
                    _cmp(col, 'C10:Misc.combine_pops', dict(p, array=name, op=idx), out, nd, _cm(np.zeros(nd.shape, bool)), 'skip')
            out = fs0.scramble_pop_ids()
            col.tick(transitions=1)
            N = sum(ns)
            pooled = [Fraction(0)] * (N + 1)
            for idx in idxs:
                if idx in (idxs[0], idxs[-1]):
                    continue        # masked corners: numpy.ma ravel yields masked -> not added (see below)
                pooled[sum(idx)] += rd0[idx]
            exd = RS.zeros(shape)
            for idx in idxs:
                D = sum(idx)
                w = Fraction(1)
                for n_k, d_k in zip(ns, idx):
                    w *= comb(n_k, d_k)
                exd[idx] = w / comb(N, D) * pooled[D]
            _cmp(col, 'C10:scramble_pop_ids', dict(p, array=name), out, exd, _cm(np.zeros(shape, bool)), 'skip', tol=1e-11)
    col.tick(states=len(arrays), traces=len(arrays) * len(ops))
    col.distinct('nontrivial', ('op', ns, p['labelled'], folded, p['input'], tuple(p.get('units', ()))))


def case_scramble_history(col, p):
    """scramble_pop_ids on a SEQUENCE of spectra in one process (same number of populations and pooled sample size, different splits):
    every result must equal the exact re-dealing of the pooled spectrum, whatever was scrambled before"""
    import dadi
    n = 0
    for seq in p['sequences']:
        for k, ns in enumerate(seq):
            ns = tuple(ns)
            shape = tuple(x + 1 for x in ns)
            N = sum(ns)
            data = (1.0 + (np.arange(int(np.prod(shape))) * 5 % 13).reshape(shape)) / 8.0
            fs = dadi.Spectrum(data)
            if p.get('view'):
                # the spectrum as reorder_pops hands it over: a transposed (non-contiguous) view of another array with the same values
                perm = list(range(len(ns)))[::-1]
                fs = dadi.Spectrum(np.ascontiguousarray(np.transpose(data, perm))).transpose(perm)
                if not (np.array_equal(np.asarray(fs.data), data) and not fs.data.flags['C_CONTIGUOUS']):
                    col.violation('harness:C10:view', dict(p), 'could not build a non-contiguous view')
            out = fs.scramble_pop_ids()
            col.tick(transitions=1)
            n += 1
            idxs = list(np.ndindex(*shape))
            pooled = [Fraction(0)] * (N + 1)
            for idx in idxs[1:-1]:
                pooled[sum(idx)] += Fraction(float(data[idx]))
            worst = 0.0
            got = np.asarray(out.data)
            for idx in idxs[1:-1]:
                w = Fraction(1)
                for n_k, d_k in zip(ns, idx):
                    w *= comb(n_k, d_k)
                ex = float(w / comb(N, sum(idx)) * pooled[sum(idx)])
                worst = max(worst, abs(got[idx] - ex) / max(abs(ex), 1e-300))
            if not worst <= 1e-11:
                col.violation('C10:scramble_pop_ids:%s' % ('noncontiguous_view' if p.get('view') else 'result_depends_on_history'),
                              dict(p, sequences=[seq], position=k), {'maxrel': worst})
            if p.get('view'):
                continue
            # the folded spectrum: scrambling is defined on the unfolded counts and folded back, so that it commutes with folding whatever
            # the parity of the pooled sample size (tie entries - exactly half of all chromosomes derived - stay)
            ff = dadi.Spectrum(data).fold()
            outf = ff.scramble_pop_ids()
            col.tick(transitions=1)
            n += 1
            fd, fm = RS.fold(RS.fr_array(data), _cm(np.zeros(shape, bool)))
            ud, um = RS.unfold(fd, fm)
            pooled = [Fraction(0)] * (N + 1)
            for idx in idxs:
                if not um[idx]:
                    pooled[sum(idx)] += ud[idx]
            sd = RS.zeros(shape)
            for idx in idxs:
                w = Fraction(1)
                for n_k, d_k in zip(ns, idx):
                    w *= comb(n_k, d_k)
                sd[idx] = w / comb(N, sum(idx)) * pooled[sum(idx)]
            exd, exm = RS.fold(sd, _cm(np.zeros(shape, bool)))
            _cmp(col, 'C10:scramble_pop_ids:folded', dict(p, sequences=[seq], position=k), outf, exd, exm, 'skip', folded=True, tol=1e-11)
    col.tick(states=n, traces=n)
    col.distinct('nontrivial', ('scramble_history', len(p['sequences']), tuple(map(tuple, p['sequences'][0])), bool(p.get('view'))))


def case_scramble_large(col, p):
    """scrambling with more than a thousand pooled chromosomes (binomial coefficients beyond the floating-point range): every entry against the
    exact hypergeometric re-dealing in integer arithmetic"""
    import dadi
    ns = tuple(p['ns'])
    shape = tuple(x + 1 for x in ns)
    N = sum(ns)
    data = (1.0 + (np.arange(int(np.prod(shape))) * 7 % 11).reshape(shape)) / 4.0
    out = dadi.Spectrum(data).scramble_pop_ids()
    col.tick(transitions=1)
    got = np.asarray(out.data)
    idxs = list(np.ndindex(*shape))
    pooled = [Fraction(0)] * (N + 1)
    for idx in idxs[1:-1]:
        pooled[sum(idx)] += Fraction(float(data[idx]))
    worst, tot = 0.0, Fraction(0)
    for idx in idxs[1:-1]:
        w = 1
        for n_k, d_k in zip(ns, idx):
            w *= comb(n_k, d_k)
        ex = Fraction(w, comb(N, sum(idx))) * pooled[sum(idx)]
        tot += ex
        exf = float(ex)
        g = got[idx]
        e = abs(g - exf) / max(abs(exf), 1e-300) if np.isfinite(g) else float('inf')
        worst = max(worst, e)
    if not worst <= 1e-9:
        col.violation('C10:scramble_pop_ids:large_pooled_sample', dict(p), {'maxrel': worst, 'total_got': float(np.nansum(got.ravel()[1:-1])), 'total_exact': float(tot)})
    col.tick(states=1, traces=1)
    col.distinct('nontrivial', ('scramble_large', ns))


def case_bfs(col, p):
    import dadi
    ns = tuple(p['ns'])
    d = len(ns)
    shape = tuple(n + 1 for n in ns)
    labels = _labels(d, True)
    rng = np.random.RandomState(p['seed'] + 5)
    a = rng.randint(1, 32, size=shape).astype(float)
    impl0 = dadi.Spectrum(a.copy(), pop_ids=list(labels))
    ref0 = (RS.fr_array(a), _cm(np.zeros(shape, bool)), tuple(labels), False)

    def enabled(state):
        rd, rm, rl, folded = state[1]
        dd = rd.ndim
        cur = [s - 1 for s in rd.shape]
        ops = []
        if dd >= 2:
            for k in range(dd):
                ops.append(('marg', (k,)))
            for pm in itertools.permutations(range(1, dd + 1)):
                if list(pm) != list(range(1, dd + 1)) and (dd <= 3 or sum(1 for i, q in enumerate(pm) if q != i + 1) == 2):
                    ops.append(('reorder', pm))
            for S in itertools.combinations(range(1, dd + 1), 2):
                ops.append(('combine', S))
        for k in range(dd):
            if cur[k] >= 2:
                ops.append(('proj', k, cur[k] - 1))
        if not folded:
            ops.append(('fold',))
        return ops

    def step(state, op):
        impl, (rd, rm, rl, folded) = state
        if folded and op[0] == 'reorder':
            # reorder_pops is a bare transpose: on folded spectra it is the same permutation of entries
            nd, nm = RS.transpose(rd, rm, [q - 1 for q in op[1]])
            nl = tuple(rl[q - 1] for q in op[1])
            nref = (nd, nm, nl, True)
        else:
            nd, nm, nl, nf = _ref_apply(op, rd, rm, list(rl), folded)
            nref = (nd, nm, tuple(nl), nf)
        col.tick(transitions=1)
        try:
            ni = _impl_apply(op, impl)
        except Exception as e:
            col.violation('C10:bfs:raises', dict(p, op=op), '%s: %s' % (type(e).__name__, e))
            return None
        return (ni, nref)

    def canon(state):
        rd, rm, rl, folded = state[1]
        return (rd.shape, tuple(rd.flat), tuple(rm.flat), rl, folded)

    def check(state, path, prev=None):
        impl, (rd, rm, rl, folded) = state
        _cmp(col, 'C10:bfs', dict(p, path=path), impl, rd, rm, list(rl), folded=folded)
        if prev is not None:
            col.tick(merged_path_comparisons=1)
            sel = ~rm
            if np.asarray(prev.data).shape == np.asarray(impl.data).shape:
                dif = np.abs(np.asarray(prev.data) - np.asarray(impl.data))[sel]
                if dif.size and dif.max() > 1e-11 * max(1.0, float(np.abs(np.asarray(impl.data)[sel]).max())):
                    col.violation('C10:bfs:paths_disagree', dict(p, path=path), {'maxdiff': float(dif.max())})

    res = explore.bfs([(impl0, ref0)], enabled, step, canon,
                      on_state=lambda s, dep, path: check(s, path),
                      on_transition=lambda s, op, ns_, path, prev: check(ns_, path, prev[0] if prev else None),
                      max_depth=p['depth'])
    col.tick(states=res['states'], traces=res['transitions'])
    col.distinct('nontrivial', ('bfs', ns))


CASES = {'scramble_large': case_scramble_large, 'operator': case_operator, 'bfs': case_bfs, 'scramble_history': case_scramble_history}


def _dispatch(col, case):
    CASES[case['kind']](col, case)


def replay(ctx, case):
    _dispatch(ctx, case)


def run(ctx):
    cases = []
    for d, shapes in SHAPES.items():
        for ns in shapes:
            npts = int(np.prod([n + 1 for n in ns]))
            for labelled in (True, False):
                for folded in (False, True):
                    cases.append({'kind': 'operator', 'ns': ns, 'labelled': labelled, 'folded': folded, 'input': 'dense', 'seed': ctx.seed,
                                  'full_orderings': d <= 5})
                    if folded and not labelled:
                        continue
                    chunk = 12 if d <= 4 else 4
                    step = 1
                    if ctx.quick and d >= 5:
                        step = 6          # quick: every 6th chunk of unit spectra in 5-D/6-D (thorough: all)
                    if ctx.quick and folded and d >= 4:
                        continue
                    for ci, lo in enumerate(range(0, npts, chunk)):
                        if ci % step:
                            continue
                        cases.append({'kind': 'operator', 'ns': ns, 'labelled': labelled, 'folded': folded, 'input': 'units',
                                      'units': (lo, min(npts, lo + chunk)), 'full_orderings': d <= 4 or not ctx.quick})
    if ctx.quick:
        ctx.cap_hit('quick: unit-spectrum basis complete for d<=4; for d=5,6 every 6th chunk of 4 unit spectra (+2 dense integer spectra per '
                    'shape); folded unit bases only for d<=3; thorough enumerates every unit spectrum')
    for ns in [(2, 2), (2, 3), (2, 2, 2), (1, 2, 3), (3, 2, 2)] + ([(2, 1, 2, 2)] if not ctx.quick else [(1, 1, 2, 1)]):
        cases.append({'kind': 'bfs', 'ns': ns, 'depth': 2 if (ctx.quick or len(ns) > 3) else 3, 'seed': ctx.seed})
    # call histories of scramble_pop_ids: every ordered pair (thorough: triple) of splits of the same pooled sample
    fams = [[(2, 6), (6, 2), (4, 4), (3, 5), (1, 7)], [(3, 4, 5), (5, 3, 4), (4, 4, 4), (2, 5, 5), (4, 5, 3)], [(2, 2, 3, 1), (1, 3, 2, 2), (2, 2, 2, 2)]]
    for fam in fams:
        seqs = [list(s_) for s_ in itertools.permutations(fam, 2 if ctx.quick else 3)]
        for lo in range(0, len(seqs), 10):
            cases.append({'kind': 'scramble_history', 'sequences': seqs[lo:lo + 10], 'ns': fam[0]})
        cases.append({'kind': 'scramble_history', 'sequences': [[x] for x in fam], 'ns': fam[0], 'view': True})
    for ns_l in ((1028, 2), (3, 1100), (700, 1, 400)):
        cases.append({'kind': 'scramble_large', 'ns': ns_l})
    from mc.evidence import Collector
    a, b = Collector(), Collector()
    _dispatch(a, cases[1]); _dispatch(b, cases[1])
    assert a.viol_count == b.viol_count and a.counters == b.counters and a.maxima == b.maxima
    cases.sort(key=lambda c: -len(c['ns']))
    explore.pmap(ctx, _dispatch, cases, chunk=1)
    ctx.tick(evaluations=len(cases))
    for c in (cases[0], cases[len(cases) // 2], cases[-1]):
        ctx.sample(c)
    ctx.rule = ('for each shape: every unit spectrum (or dense integer spectra) x every subset / permutation / merge set (+orderings) '
                'of populations x labelled/unlabelled x folded/unfolded; BFS depth 2-3 with project and fold for the commutation clauses. '
                'distinct_nontrivial = distinct (shape, labelling, folding, input chunk) groups fully compared with the re-indexing reference')
    ctx.assume('all operations are linear in the data, so unit spectra are a basis; only corner masks are used (marginalising interior masks is documented as ill-defined)')
