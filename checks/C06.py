"""C06 – splits, admixture, pulses, removal and reordering conserve marginal densities.

Explicit-state BFS from every unit density over the operation alphabet
  SPLIT(parent) | ADMIX_NEW(props) | PULSE(dest, props) for all 17 in-place pulse functions | REMOVE(k) | FILTER(keep) | REORDER(perm)
with proportions from the step-1/4 (dyadic: admixed frequencies land on grid points) and step-1/10 (rounding-prone) simplex lattices.
Reference state: exact Fraction density.  Invariants on every transition: impl == exact; integrating out the new population gives the
previous density; a pulse leaves the joint density of the other populations unchanged and is the identity at proportion 0; the input
of non-in-place functions is untouched.  Separately: every simplex vector is ACCEPTED and every vector summing to 1+delta REJECTED by
every function.
"""
import itertools
from fractions import Fraction

import numpy as np

from mc import explore, space
from mc.refs import density as RD

LEVEL = 'model_checking'
NAMES = 'xx yy zz aa bb cc'.split()


def pulse_func(d, dest):
    """name, and order of source axes in the argument list"""
    from dadi import PhiManip as PM
    if d == 2:
        return (PM.phi_2D_admix_1_into_2, [0]) if dest == 1 else (PM.phi_2D_admix_2_into_1, [1])
    if d == 3:
        return {2: (PM.phi_3D_admix_1_and_2_into_3, [0, 1]), 1: (PM.phi_3D_admix_1_and_3_into_2, [0, 2]),
                0: (PM.phi_3D_admix_2_and_3_into_1, [1, 2])}[dest]
    fn = getattr(PM, 'phi_%dD_admix_into_%d' % (d, dest + 1))
    return fn, [k for k in range(d) if k != dest]


def new_func(d):
    from dadi import PhiManip as PM
    return {2: PM.phi_2D_to_3D_admix, 3: PM.phi_3D_to_4D, 4: PM.phi_4D_to_5D}[d]


def props_lattice(k, step):
    """all k-vectors of multiples of 1/step with sum <= 1"""
    return [tuple(float(Fraction(c, step)) for c in combo) for combo in itertools.product(range(step + 1), repeat=k) if sum(combo) <= step]


def impl_apply(op, phi, grids):
    """grids: list of float arrays (same for the new axis)"""
    from dadi import PhiManip as PM
    kind = op[0]
    d = phi.ndim
    xx = grids[0]
    if kind == 'split':
        parent = op[1]
        if d == 1:
            return PM.phi_1D_to_2D(xx, phi)
        if d == 2:
            return (PM.phi_2D_to_3D_split_1 if parent == 0 else PM.phi_2D_to_3D_split_2)(xx, phi)
        props = [1.0 if k == parent else 0.0 for k in range(d)]
        return new_func(d)(phi, *props[:-1], *grids[:d], grids[0])
    if kind == 'admix_new':
        props = op[1]          # for the first d-1 populations; the last gets the complement
        return new_func(d)(phi, *props, *grids[:d], grids[0])
    if kind == 'pulse':
        dest, props = op[1], op[2]
        fn, srcs = pulse_func(d, dest)
        return fn(phi, *props, *grids[:d])
    if kind == 'remove':
        return PM.remove_pop(phi, xx, op[1] + 1)
    if kind == 'filter':
        return PM.filter_pops(phi, xx, [k + 1 for k in op[1]])
    if kind == 'reorder':
        return PM.reorder_pops(phi, [k + 1 for k in op[1]])
    raise KeyError(kind)


def ref_apply(op, rphi, fg):
    kind = op[0]
    d = rphi.ndim
    if kind == 'split':
        parent = op[1]
        if d == 1:
            return RD.split_1d(rphi, fg)
        props = [Fraction(1) if k == parent else Fraction(0) for k in range(d)]
        return RD.admix_new(rphi, props, [fg] * d, fg)
    if kind == 'admix_new':
        pr = [Fraction(float(v)) for v in op[1]]
        pr.append(1 - sum(pr))
        return RD.admix_new(rphi, pr, [fg] * d, fg)
    if kind == 'pulse':
        dest, props = op[1], op[2]
        _, srcs = PULSE_SRCS[(d, dest)]
        return RD.pulse(rphi, dest, {k: Fraction(float(f)) for k, f in zip(srcs, props)}, [fg] * d)
    if kind == 'remove':
        return RD.remove(rphi, fg, op[1])
    if kind == 'filter':
        cur = rphi
        for k in sorted(set(range(d)) - set(op[1]), reverse=True):
            cur = RD.remove(cur, fg, k)
        return cur
    if kind == 'reorder':
        return RD.reorder(rphi, list(op[1]))
    raise KeyError(kind)


PULSE_SRCS = {}
for _d in range(2, 6):
    for _dest in range(_d):
        if _d == 2:
            PULSE_SRCS[(_d, _dest)] = (None, [1 - _dest])
        else:
            PULSE_SRCS[(_d, _dest)] = (None, [k for k in range(_d) if k != _dest])


def enabled_ops(d, steps, maxd=5, light=False):
    ops = []
    if d < maxd:
        for parent in range(d):
            ops.append(('split', parent))
        if d >= 2:
            for st in steps:
                for pr in props_lattice(d - 1, st):
                    ops.append(('admix_new', pr))
    if d >= 2:
        for dest in range(d):
            k = 1 if d == 2 else d - 1
            for st in steps:
                if light and k >= 3 and st > 2:
                    st = 2
                for pr in props_lattice(k, st):
                    ops.append(('pulse', dest, pr))
        for k in range(d):
            ops.append(('remove', k))
        for keep in space.subsets(range(d), 1, d - 1):
            if len(keep) < d - 1:
                ops.append(('filter', keep))
        ops.append(('filter', tuple(range(d))))
        perms = list(itertools.permutations(range(d)))
        if d >= 4:
            perms = [pm for pm in perms if sum(1 for i, q in enumerate(pm) if i != q) in (2, 3, d)][:30]
        for pm in perms:
            if list(pm) != list(range(d)):
                ops.append(('reorder', pm))
    # dedupe keeping order
    seen, out = set(), []
    for o in ops:
        if o not in seen:
            seen.add(o)
            out.append(o)
    return out


def case_bfs(col, p):
    import dadi
    G, gkind, d0, depth = p['G'], p['grid'], p['d'], p['depth']
    xx = space.grid(gkind, G, p['seed'])
    fg = RD.fgrid(xx)
    steps = p['steps']
    lo, hi = p['units']
    shape = (G,) * d0
    N = G ** d0
    tol = 1e-12

    def step(state, op):
        impl, ref = state
        inp = impl.copy()
        try:
            out = impl_apply(op, inp, [xx] * 6)
        except Exception as e:
            col.violation('C06:%s:raises' % opname(op, impl.ndim), dict(p, op=op), '%s: %s' % (type(e).__name__, e))
            return None
        col.tick(transitions=1)
        nref = ref_apply(op, ref, fg)
        if op[0] != 'pulse' and not np.array_equal(inp, impl):
            col.violation('C06:%s:input_modified' % opname(op, impl.ndim), dict(p, op=op), '')
        out = np.array(out)
        check_transition(impl, ref, op, out, nref)
        return (out, nref)

    def opname(op, d):
        if op[0] == 'pulse':
            return pulse_func(d, op[1])[0].__name__
        if op[0] == 'admix_new' or (op[0] == 'split' and d >= 3):
            return new_func(d).__name__
        if op[0] == 'split':
            return 'phi_1D_to_2D' if d == 1 else 'phi_2D_to_3D_split_%d' % (op[1] + 1)
        return op[0]

    def check_transition(impl, ref, op, out, nref):
        from dadi import PhiManip as PM
        d = impl.ndim
        info = dict(p, op=op, d_before=d)
        ex = RD.to_float(nref)
        if out.shape != ex.shape:
            col.violation('C06:%s:shape' % opname(op, d), info, {'got': out.shape, 'exp': ex.shape})
            return
        scale = max(1.0, float(np.abs(ex).max()))
        err = float(np.abs(out - ex).max())
        if not err <= tol * scale:
            col.violation('C06:%s:value' % opname(op, d), info, {'maxerr': err, 'scale': scale})
        else:
            col.observe('value', err / (tol * scale))
        if op[0] in ('split', 'admix_new'):
            back = PM.remove_pop(out, xx, out.ndim)
            if d == 1:
                sel = (slice(1, -1),)
            else:
                sel = (Ellipsis,)
            e2 = float(np.abs(back - impl)[sel].max()) if back[sel].size else 0.0
            if not e2 <= tol * max(1.0, float(np.abs(impl).max())):
                col.violation('C06:%s:marginal_not_conserved' % opname(op, d), info, {'maxerr': e2})
            if op[0] == 'split':
                # a pure split is a copy of its parent: support only where new index == parent index
                par = op[1]
                idx = np.indices(out.shape)
                off = (idx[-1] != idx[par]) & (out != 0)
                if off.any():
                    col.violation('C06:%s:split_not_a_copy' % opname(op, d), info, {'offdiag_entries': int(off.sum())})
        if op[0] == 'pulse':
            dest = op[1]
            a = PM.remove_pop(out, xx, dest + 1)
            b = PM.remove_pop(impl, xx, dest + 1)
            e2 = float(np.abs(a - b).max())
            if not e2 <= tol * max(1.0, float(np.abs(b).max())):
                col.violation('C06:%s:others_changed' % opname(op, d), info, {'maxerr': e2})
            if all(f == 0 for f in op[2]):
                e3 = float(np.abs(out - impl).max())
                if not e3 <= tol * max(1.0, float(np.abs(impl).max())):
                    col.violation('C06:%s:not_identity_at_0' % opname(op, d), info, {'maxerr': e3})

    def canon(state):
        r = state[1]
        return (r.shape, tuple(r.flat))

    def enabled(state):
        d = state[1].ndim
        return enabled_ops(d, steps, maxd=p['maxd'], light=p.get('light', False))

    ntot = {'states': 0, 'transitions': 0}
    for j in range(lo, hi):
        e = np.zeros(N)
        e[j] = 1.0
        impl0 = e.reshape(shape)
        ref0 = RD.fr_array(impl0)
        res = explore.bfs([(impl0, ref0)], enabled, step, canon, max_depth=depth)
        ntot['states'] += res['states']
        ntot['transitions'] += res['transitions']
    col.tick(states=ntot['states'], traces=ntot['transitions'])
    col.distinct('nontrivial', ('bfs', G, gkind, d0, depth, lo, tuple(steps)))


def case_pergrid(col, p):
    """every pulse / admixture constructor / removal with a DIFFERENT grid on every axis (the functions take one grid per population):
    value against the exact reference built with the same per-axis grids, on every unit density"""
    from dadi import PhiManip as PM
    d, G = p['d'], p['G']
    # a different grid on every axis, also for 3-point grids (where the uniform and the default grid coincide)
    rot = p.get('rot', 0)
    Gk = [G + (p['lens'][k] if p.get('lens') else 0) for k in range(6)]        # optionally a different number of grid points on every axis
    grids = [np.array([0.0] + [((j + 1.0) / (Gk[k] - 1)) ** (1.0 + 0.35 * ((k + rot) % 6) - 0.5 * (rot % 2)) for j in range(Gk[k] - 2)] + [1.0]) for k in range(6)]
    fgs = [RD.fgrid(g) for g in grids]
    shape = tuple(Gk[:d])
    N = int(np.prod(shape))
    ops = []
    if d < 5 and d >= 2:
        for pr in props_lattice(d - 1, 2):
            ops.append(('admix_new', pr))
    if d == 1:
        ops.append(('split', 0))
    for dest in range(d):
        if d >= 2:
            kk = 1 if d == 2 else d - 1
            for pr in props_lattice(kk, 2):
                ops.append(('pulse', dest, pr))
            ops.append(('remove', dest))
    n = 0
    lo, hi = p['units']
    hi = min(hi, N)
    for j in range(lo, hi):
        e = np.zeros(N)
        e[j] = 1.0
        phi0 = e.reshape(shape)
        r0 = RD.fr_array(phi0)
        for op in ops:
            info = dict(p, op=op, unit=j)
            try:
                if op[0] == 'split':
                    out = PM.phi_1D_to_2D(grids[0], phi0.copy())
                    ref = RD.split_1d(r0, fgs[0])
                    name = 'phi_1D_to_2D'
                elif op[0] == 'admix_new':
                    out = new_func(d)(phi0.copy(), *op[1], *grids[:d], grids[d])
                    prf = [Fraction(float(v)) for v in op[1]]
                    prf.append(1 - sum(prf))
                    ref = RD.admix_new(r0, prf, fgs[:d], fgs[d])
                    name = new_func(d).__name__
                elif op[0] == 'pulse':
                    fn, srcs = pulse_func(d, op[1])
                    out = fn(phi0.copy(), *op[2], *grids[:d])
                    ref = RD.pulse(r0, op[1], {k: Fraction(float(f)) for k, f in zip(srcs, op[2])}, fgs[:d])
                    name = fn.__name__
                else:
                    out = PM.remove_pop(phi0.copy(), grids[op[1]], op[1] + 1)
                    ref = RD.remove(r0, fgs[op[1]], op[1])
                    name = 'remove_pop'
            except Exception as ex:
                col.violation('C06:pergrid:raises', info, '%s: %s' % (type(ex).__name__, ex))
                continue
            col.tick(transitions=1)
            n += 1
            exf = RD.to_float(ref)
            out = np.array(out)
            if out.shape != exf.shape:
                col.violation('C06:%s:shape' % name, info, {'got': out.shape, 'exp': exf.shape})
                continue
            sc = max(1.0, float(np.abs(exf).max()))
            err = float(np.abs(out - exf).max())
            if not err <= 1e-12 * sc:
                col.violation('C06:%s:value' % name, dict(info, grids='distinct per axis'), {'maxerr': err, 'scale': sc})
            else:
                col.observe('value_pergrid', err / (1e-12 * sc))
    col.tick(states=n, traces=n)
    col.distinct('nontrivial', ('pergrid', d, G, lo, p.get('rot', 0), tuple(p.get('lens') or ())))


def case_accept_reject(col, p):
    """every function x every simplex vector (accepted) x every vector summing above 1 (rejected)"""
    import dadi
    d, G = p['d'], 3
    xx = space.grid('U', G, 0)
    shape = (G,) * d
    phi0 = np.ones(shape)
    funcs = []
    for dest in range(d):
        fn, srcs = pulse_func(d, dest)
        funcs.append((fn.__name__, fn, len(srcs), True))
    if d <= 4:
        funcs.append((new_func(d).__name__, new_func(d), d - 1, False))
    n = 0
    for name, fn, k, inplace in funcs:
        # accepted: simplex lattices (step 4 dyadic, step 10 decimal)
        for st in (4, 10):
            for combo in itertools.product(range(st + 1), repeat=k):
                if sum(combo) > st:
                    continue
                pr = [c / float(st) for c in combo]          # decimal floats, as a user would write them
                try:
                    res = fn(phi0.copy(), *pr, *[xx] * d) if inplace else fn(phi0.copy(), *pr, *[xx] * d, xx)
                    if not np.isfinite(np.asarray(res)).all():
                        # (a mixture frequency that round-off pushes one ulp beyond the last grid point still has a bracketing interval)
                        col.violation('C06:%s:not_finite' % name, dict(p, props=pr), {'nonfinite_entries': int((~np.isfinite(np.asarray(res))).sum())})
                except ValueError as e:
                    col.violation('C06:%s:rejects_simplex_vector' % name, dict(p, props=pr), 'ValueError: %s' % str(e)[:100])
                except Exception as e:
                    col.violation('C06:%s:raises' % name, dict(p, props=pr), '%s: %s' % (type(e).__name__, e))
                col.tick(transitions=1)
                n += 1
        # rejected: sum = 1 + delta
        for delta in (1e-6, 0.25):
            for combo in itertools.product(range(5), repeat=k):
                if sum(combo) != 4:
                    continue
                base = [c / 4.0 for c in combo]
                for bump in range(k):
                    pr = list(base)
                    pr[bump] += delta
                    try:
                        fn(phi0.copy(), *pr, *[xx] * d) if inplace else fn(phi0.copy(), *pr, *[xx] * d, xx)
                        col.violation('C06:%s:accepts_sum_gt_1' % name, dict(p, props=pr), 'no ValueError for proportions summing to %r' % sum(pr))
                    except ValueError:
                        col.tick(rejected=1)
                    except Exception as e:
                        col.violation('C06:%s:raises' % name, dict(p, props=pr), '%s: %s' % (type(e).__name__, e))
                    col.tick(transitions=1)
                    n += 1
    col.tick(states=n, traces=n)
    col.distinct('nontrivial', ('accept_reject', d))


def case_layout(col, p):
    """REORDER / REMOVE / FILTER on non-contiguous inputs equal the result on a contiguous copy"""
    from dadi import PhiManip as PM
    d, G = p['d'], 4
    xx = space.grid('E', G, 0)
    rng = np.random.RandomState(p['seed'] + d)
    base = rng.uniform(0.5, 2.0, size=(G,) * d)
    variants = {'C': base.copy(), 'F': np.asfortranarray(base), 'T': base.transpose(list(range(d))[::-1]).copy().transpose(list(range(d))[::-1])}
    big = np.zeros((2 * G,) * d)
    big[tuple(slice(None, None, 2) for _ in range(d))] = base
    variants['strided'] = big[tuple(slice(None, None, 2) for _ in range(d))]
    n = 0
    for pm in itertools.permutations(range(d)):
        ref = np.array(PM.reorder_pops(base.copy(), [k + 1 for k in pm]))
        exp = np.transpose(base, pm)
        if not np.array_equal(ref, exp):
            col.violation('C06:reorder:value', dict(p, perm=pm), '')
        for vn, arr in variants.items():
            got = np.array(PM.reorder_pops(arr, [k + 1 for k in pm]))
            col.tick(transitions=1)
            n += 1
            if not np.array_equal(got, exp):
                col.violation('C06:reorder:layout_dependent', dict(p, perm=pm, layout=vn), '')
    for k in range(d):
        exp = np.array(PM.remove_pop(base.copy(), xx, k + 1))
        for vn, arr in variants.items():
            got = np.array(PM.remove_pop(arr, xx, k + 1))
            col.tick(transitions=1)
            n += 1
            if not np.allclose(got, exp, rtol=1e-14, atol=0):
                col.violation('C06:remove:layout_dependent', dict(p, k=k, layout=vn), '')
    # every pulse and every constructor on the same density held in each layout (a pulse right after reorder_pops receives a transposed view):
    # the returned density equals the one obtained from a contiguous copy
    ops = []
    if d >= 2:
        for dest in range(d):
            kk = 1 if d == 2 else d - 1
            ops.append(('pulse', dest, tuple([0.25] + [0.125] * (kk - 1))))
    if d <= 4:
        ops.append(('admix_new', tuple([0.25] + [0.125] * (d - 2))) if d >= 2 else ('split', 0))
        ops.append(('split', d - 1))
    for op in ops:
        exp = np.array(impl_apply(op, base.copy(), [xx] * 6))
        for vn, arr in variants.items():
            if vn == 'C':
                continue
            inp = arr.copy(order='K') if vn != 'strided' else arr.copy()
            # rebuild the layout on a private buffer (pulses work in place)
            if vn == 'F':
                inp = np.asfortranarray(base)
            elif vn == 'T':
                inp = base.transpose(list(range(d))[::-1]).copy().transpose(list(range(d))[::-1])
            else:
                big2 = np.zeros((2 * G,) * d)
                big2[tuple(slice(None, None, 2) for _ in range(d))] = base
                inp = big2[tuple(slice(None, None, 2) for _ in range(d))]
            got = np.array(impl_apply(op, inp, [xx] * 6))
            col.tick(transitions=1)
            n += 1
            if got.shape != exp.shape or not np.allclose(got, exp, rtol=1e-13, atol=0):
                col.violation('C06:%s:layout_dependent' % (pulse_func(d, op[1])[0].__name__ if op[0] == 'pulse' else op[0]), dict(p, op=op, layout=vn),
                              {'maxdiff': float(np.abs(got - exp).max()) if got.shape == exp.shape else 'shape'})
    col.tick(states=n, traces=n)
    col.distinct('nontrivial', ('layout', d))


CASES = {'bfs': case_bfs, 'pergrid': case_pergrid, 'accept_reject': case_accept_reject, 'layout': case_layout}


def _dispatch(col, case):
    CASES[case['kind']](col, case)


def replay(ctx, case):
    _dispatch(ctx, case)


def run(ctx):
    cases = []
    # (start dimension, G, grid kinds, depth, steps, maxd)
    plan = [(1, 5, ('U', 'D', 'E'), 2, (4, 10), 5), (2, 4, ('D', 'E'), 2, (4, 10), 5), (3, 3, ('D', 'E'), 1, (4, 10), 5),
            (4, 3, ('D',), 1, (4,), 5), (5, 3, ('D',), 1, (4,), 5)]
    if not ctx.quick:
        plan = [(1, 5, ('U', 'D', 'E'), 3, (4, 10), 5), (2, 4, ('U', 'D', 'E'), 2, (4, 10), 5), (2, 5, ('D',), 2, (4,), 5),
                (3, 4, ('D', 'E'), 1, (4, 10), 5), (3, 3, ('D',), 2, (4,), 4), (4, 3, ('D', 'E'), 1, (4, 10), 5), (4, 4, ('D',), 1, (4,), 5),
                (5, 3, ('D', 'E'), 1, (4,), 5)]
    for d0, G, kinds, depth, steps, maxd in plan:
        N = G ** d0
        chunk = {1: 2, 2: 2, 3: 3, 4: 9, 5: 9}[d0]
        for gk in kinds:
            for lo in range(0, N, chunk):
                cases.append({'kind': 'bfs', 'd': d0, 'G': G, 'grid': gk, 'depth': depth, 'steps': steps, 'maxd': maxd,
                              'units': (lo, min(N, lo + chunk)), 'seed': ctx.seed, 'light': ctx.quick and d0 >= 4})
    if ctx.quick:
        ctx.cap_hit('quick: BFS depth 2 from 1-D/2-D unit densities, depth 1 from 3-D..5-D; 4-source pulse proportions on the step-1/2 lattice in 4-D/5-D; '
                    'thorough: depth 3 from 1-D, depth 2 from 3-D, step-1/4 everywhere')
    for d in (2, 3, 4, 5):
        cases.append({'kind': 'accept_reject', 'd': d})
        if d <= 5:
            Gp = {1: 5, 2: 4, 3: 3, 4: 3, 5: 3}[d]
            Np = Gp ** d
            chunk = Np if d <= 3 else 27
            for rot in ((0,) if ctx.quick else (0, 1, 2)):
                for lo in range(0, Np, chunk):
                    if ctx.quick and d == 5 and (lo // chunk) % 3:
                        continue
                    cases.append({'kind': 'pergrid', 'd': d, 'G': Gp, 'seed': ctx.seed, 'rot': rot, 'units': (lo, min(Np, lo + chunk))})
            # axes of different lengths (each population on its own number of grid points), two length patterns
            for lens in ([0, 1, 2, 1, 0, 1], [2, 0, 1, 0, 2, 1]):
                Nl = int(np.prod([Gp + lens[k] for k in range(d)]))
                step = Nl if d <= 3 else 64
                for lo in range(0, Nl, step):
                    if ctx.quick and d >= 4 and (lo // step) % 4:
                        continue
                    cases.append({'kind': 'pergrid', 'd': d, 'G': Gp, 'seed': ctx.seed, 'rot': 0, 'lens': lens, 'units': (lo, min(Nl, lo + step))})
        cases.append({'kind': 'layout', 'd': d, 'seed': ctx.seed})
    from mc.evidence import Collector
    a, b = Collector(), Collector()
    _dispatch(a, cases[0]); _dispatch(b, cases[0])
    assert a.viol_count == b.viol_count and a.maxima == b.maxima and a.counters == b.counters
    cases.sort(key=lambda c: -(c.get('d', 1) * 10 + c.get('depth', 0)))
    explore.pmap(ctx, _dispatch, cases, chunk=1)
    ctx.tick(evaluations=len(cases))
    for c in (cases[0], cases[len(cases) // 2], cases[-1]):
        ctx.sample(c)
    ctx.sample({'example_path': [['split', 0], ['pulse', 1, [0.25]], ['remove', 0]]})
    ctx.rule = ('BFS from every unit density of the start dimension over {split, admix_new, all pulse functions, remove, filter, reorder} with '
                'proportions on the step-1/4 and step-1/10 simplex lattices; states are exact Fraction densities (merged when equal). '
                'distinct_nontrivial = distinct (start dimension, grid, unit chunk) explorations; every transition compared with the exact reference')
    ctx.assume('all operations are linear in the density, so unit densities are a basis')
    ctx.assume('phi_1D_to_2D is documented to copy interior points only; conservation is asserted at interior frequencies for it')
