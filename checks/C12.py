"""C12 – optimisers honour bounds and fixed parameters and report the point they found.

Monitored runs (every model evaluation is a recorded transition) over the configuration lattice
  optimiser {opt[BOBYQA], opt[COBYLA], opt[log_opt], optimize, optimize_log, optimize_lbfgsb, optimize_log_lbfgsb, optimize_log_fmin,
             optimize_log_powell, optimize_cons, optimize_grid}
  x model (Poisson-linear with k = 1..4 parameters, one smooth non-linear) x ALL proper fixed-subsets x starting points {near-lower, middle,
  near-upper}^k x 2 bound boxes (optimum inside / outside) x multinom on/off.
Oracle on every run: first evaluation = start; every evaluation inside the box with fixed entries bit-identical; returned vector inside the box
with fixed entries unchanged; likelihood of the returned vector recomputed independently equals the reported optimum (and >= start for opt).
_project_params_up/_down: all fixed-subsets for k <= 5.  perturb_params: bounds lattice x extreme answers of the uniform draw.
"""
import itertools
import math

import numpy as np

from mc import explore

LEVEL = 'model_checking'
NS = (10,)


def basis(k):
    n = NS[0]
    i = np.arange(n + 1, dtype=float)
    B = [1.0 / np.maximum(i, 1), np.exp(-i / 3.0), (i / n) ** 2 + 0.05, np.cos(i / 2.0) ** 2 + 0.1]
    return [b.copy() for b in B[:k]]


def truth(k):
    return np.array([40.0, 25.0, 10.0, 5.0][:k])


def make_model(kind, k, record):
    import dadi
    B = basis(k)

    def linear(params, ns, pts):
        p = np.array(params, dtype=float)
        record.append(p.copy())
        data = sum(pk * b for pk, b in zip(p, B))
        return dadi.Spectrum(data)

    def nonlinear(params, ns, pts):
        p = np.array(params, dtype=float)
        record.append(p.copy())
        n = ns[0]
        i = np.arange(n + 1, dtype=float)
        data = p[0] * np.exp(-i * p[1] / 20.0) / np.maximum(i, 1)
        if k >= 3:
            data = data + p[2] * 0.1 * (i / n)
        if k >= 4:
            data = data * (1 + 0.01 * p[3] * np.sin(i))
        return dadi.Spectrum(data)
    return linear if kind == 'linear' else nonlinear


def indep_ll(model_arr, data_arr, multinom):
    """direct Poisson log-likelihood on entries 1..n-1 (corners masked)"""
    m = np.asarray(model_arr, dtype=float)[1:-1]
    d = np.asarray(data_arr, dtype=float)[1:-1]
    if multinom:
        m = m * (d.sum() / m.sum())
    return float(sum(-mi + di * math.log(mi) - math.lgamma(di + 1) for mi, di in zip(m, d)))


def run_optimizer(name, p0, data, model, lower, upper, fixed, multinom):
    """returns (xopt, reported_ll or None)"""
    import dadi
    from dadi import Inference
    import nlopt
    common = dict(lower_bound=list(lower) if lower is not None else None, upper_bound=list(upper) if upper is not None else None,
                  fixed_params=list(fixed) if fixed is not None else None, multinom=multinom)
    pts = [20]
    if name == 'opt_bobyqa':
        x, v = Inference.opt(p0, data, model, pts, algorithm=nlopt.LN_BOBYQA, maxeval=400, **common)
        return x, v
    if name == 'opt_cobyla':
        x, v = Inference.opt(p0, data, model, pts, algorithm=nlopt.LN_COBYLA, maxeval=400, **common)
        return x, v
    if name == 'opt_log':
        x, v = Inference.opt(p0, data, model, pts, algorithm=nlopt.LN_BOBYQA, maxeval=400, log_opt=True, **common)
        return x, v
    if name == 'optimize':
        out = Inference.optimize(p0, data, model, pts, maxiter=15, full_output=True, **common)
        return out[0], -out[1]
    if name == 'optimize_log':
        out = Inference.optimize_log(p0, data, model, pts, maxiter=15, full_output=True, **common)
        return out[0], -out[1]
    if name == 'optimize_lbfgsb':
        out = Inference.optimize_lbfgsb(p0, data, model, pts, maxiter=200, full_output=True, **common)
        return out[0], -out[1]
    if name == 'optimize_log_lbfgsb':
        out = Inference.optimize_log_lbfgsb(p0, data, model, pts, maxiter=200, full_output=True, **common)
        return out[0], -out[1]
    if name == 'optimize_log_fmin':
        out = Inference.optimize_log_fmin(p0, data, model, pts, maxiter=60, full_output=True, **common)
        return out[0], -out[1]
    if name == 'optimize_log_powell':
        out = Inference.optimize_log_powell(p0, data, model, pts, maxiter=3, full_output=True, **common)
        return out[0], -out[1]
    if name == 'optimize_cons':
        out = Inference.optimize_cons(p0, data, model, pts, full_output=True, **common)
        return out[0], -out[1]
    raise KeyError(name)


LOCAL = ['opt_bobyqa', 'opt_cobyla', 'opt_log', 'optimize', 'optimize_log', 'optimize_lbfgsb', 'optimize_log_lbfgsb', 'optimize_log_fmin',
         'optimize_log_powell', 'optimize_cons']
LOGSPACE = {'opt_log', 'optimize_log', 'optimize_log_lbfgsb', 'optimize_log_fmin', 'optimize_log_powell'}


def case_opt(col, p):
    import dadi
    name, kind, k, multinom, box = p['opt'], p['model'], p['k'], p['multinom'], p['box']
    pstar = truth(k)
    record = []
    model = make_model(kind, k, record)
    data = model(pstar * (1.0 + 0.1 * np.cos(np.arange(k))), NS, None)
    data = dadi.Spectrum(np.asarray(data.data) * (1 + 0.05 * np.sin(np.arange(NS[0] + 1))))
    record.clear()
    if box == 'inside':
        lower, upper = pstar * 0.05, pstar * 20.0
    elif box == 'zero_upper':
        # a parameter allowed to range over [-3*p*, 0] (e.g. a selection coefficient): upper bound exactly 0, optimum beyond it
        lower, upper = pstar * 0.05, pstar * 20.0
        lower[1], upper[1] = -3.0 * pstar[1], 0.0
    elif box == 'zero_lower':
        # a free parameter whose lower bound is exactly 0 (a migration rate, a proportion)
        lower, upper = pstar * 0.05, pstar * 20.0
        lower[0] = 0.0
    elif box == 'above':
        lower, upper = pstar * 1.25, pstar * 50.0         # optimum below the lower bounds
    else:
        lower, upper = pstar * 0.02, pstar * 0.8          # optimum beyond the upper bounds
    one_sided = p.get('one_sided')                        # only this side's bound list is handed to the optimiser, the other is left at None
    n = 0
    # 1e-12 relative slack: log-space optimisers map exp(log(bound)); NLopt rescales variables internally and may touch a bound from 1 ulp outside
    slack = 1e-12 if (name in LOGSPACE or name.startswith('opt_')) else 0.0
    for fixed_mask in itertools.product((0, 1), repeat=k):
        if all(fixed_mask):
            continue
        if p.get('fixed_only') is not None and list(fixed_mask) != p['fixed_only']:
            continue
        for start_code in itertools.product((0, 1, 2), repeat=k):
            if p.get('start_stride') and (sum(c * 3 ** i for i, c in enumerate(start_code)) + sum(fixed_mask)) % p['start_stride'] != 0:
                continue
            p0 = np.array([[lo * 1.05 if lo > 0 else lo + 0.05 * (up - lo), math.sqrt(lo * up) if lo > 0 else 0.5 * (lo + up),
                            up * 0.95 if lo > 0 else up - 0.05 * (up - lo)][c]
                           for lo, up, c in zip(lower, upper, start_code)])
            # the fixed VALUES change from run to run within this process (same pattern of fixed positions): a likelihood profile does the same
            fv_fac = 1.0 + 0.03 * (sum(start_code) % 3)
            fixedvals = [(float(np.sqrt(lo * up)) * 1.1 * fv_fac if lo > 0 else 0.4 * lo * fv_fac) if f else None for f, lo, up in zip(fixed_mask, lower, upper)]
            fixed = fixedvals if any(fixed_mask) else None
            if p.get('on_bound'):
                # values exactly ON a bound are inside the box: the first free parameter starts on its lower bound, fixed ones sit on theirs
                free0 = [i for i, f in enumerate(fixed_mask) if not f][0]
                p0[free0] = lower[free0]
                fixedvals = [float(lo) if f else None for f, lo in zip(fixed_mask, lower)]
                fixed = fixedvals if any(fixed_mask) else None
            record.clear()
            lower_l, upper_l = list(lower), list(upper)
            if p.get('zero_fixed'):
                # the fixed parameters are held at exactly 0 (the linear model just loses those components)
                fixedvals = [(0.0 if sum(start_code) % 2 else 0) if f else None for f in fixed_mask]
                fixed = fixedvals if any(fixed_mask) else None
                lower_l = [0.0 if f else lo for f, lo in zip(fixed_mask, lower_l)]       # the box contains the fixed values
            info = dict(p, fixed=fixedvals, start=p0, fixed_only=list(fixed_mask), start_stride=None)
            # the start vector is handed over as a float array (what perturb_params or a previous optimisation returns) or as a list
            p0_arg = p0.copy() if sum(start_code) % 2 == 0 else [float(v) for v in p0]
            try:
                xopt, reported = run_optimizer(name, p0_arg, data, model, None if one_sided == 'upper' else lower_l, None if one_sided == 'lower' else upper_l,
                                               fixed, multinom)
            except Exception as e:
                col.tick(transitions=len(record) + 1)
                col.violation('C12:%s:raises' % name, info, '%s: %s' % (type(e).__name__, str(e)[:200]))
                continue
            col.tick(transitions=len(record))
            n += 1
            xopt = np.array(xopt, dtype=float)
            if name.startswith('opt_') and reported == -np.inf and np.isnan(xopt).all():
                col.tick(nlopt_roundoff_limited_reported=1)      # documented: RoundoffLimited is reported as (-inf, nan)
                continue
            start_full = np.array([fv if fv is not None else s for fv, s in zip(fixedvals, p0)])
            if one_sided:
                lower_c = lower if one_sided == 'lower' else np.full(k, -np.inf)
                upper_c = upper if one_sided == 'upper' else np.full(k, np.inf)
            else:
                lower_c, upper_c = lower, upper
            # caller's lists untouched
            if (lower_l != list(lower) and not p.get('zero_fixed')) or upper_l != list(upper):
                col.violation('C12:%s:bound_lists_modified' % name, info, '')
            if not np.array_equal(np.asarray(p0_arg, dtype=float), p0):
                col.violation('C12:%s:start_vector_modified' % name, dict(info, passed_as=type(p0_arg).__name__), {'before': p0, 'after': np.asarray(p0_arg, dtype=float)})
            if not record:
                col.violation('C12:%s:model_never_evaluated' % name, info, '')
                continue
            # 1. first evaluation = user's starting point
            first = record[0]
            if not np.allclose(first, start_full, rtol=1e-12, atol=0):
                col.violation('C12:%s:first_evaluation_not_start' % name, info, {'first': first, 'start': start_full})
            # 2. every evaluation inside the box, fixed entries bit-identical
            for ev in record:
                band = slack * np.maximum(np.abs(lower), np.abs(upper))
                if np.any(ev < lower_c - band) or np.any(ev > upper_c + band):
                    free = [i for i, f in enumerate(fixed_mask) if not f]
                    if np.any(ev[free] < (lower_c - band)[free]) or np.any(ev[free] > (upper_c + band)[free]):
                        col.violation('C12:%s:evaluated_outside_bounds' % name, info, {'params': ev, 'lower': lower_c, 'upper': upper_c})
                        break
                bad = [i for i, fv in enumerate(fixedvals) if fv is not None and ev[i] != fv]
                if bad:
                    col.violation('C12:%s:fixed_parameter_changed_in_evaluation' % name, info, {'params': ev, 'fixed': fixedvals})
                    break
            # 3. returned vector
            if xopt.shape != (k,) or not np.isfinite(xopt).all():
                col.violation('C12:%s:bad_return' % name, info, {'xopt': xopt})
                continue
            bad = [i for i, fv in enumerate(fixedvals) if fv is not None and xopt[i] != fv]
            if bad:
                col.violation('C12:%s:fixed_parameter_changed_in_result' % name, info, {'xopt': xopt, 'fixed': fixedvals})
            free = [i for i, f in enumerate(fixed_mask) if not f]
            band = 1e-12 * np.maximum(np.abs(lower), np.abs(upper))
            if np.any(xopt[free] < (lower_c - band)[free]) or np.any(xopt[free] > (upper_c + band)[free]):
                col.violation('C12:%s:result_outside_bounds' % name, info, {'xopt': xopt, 'lower': lower_c, 'upper': upper_c})
                continue
            # 4. reported optimum is the likelihood of the returned point
            rec2 = []
            m2 = make_model(kind, k, rec2)
            ll_ret = indep_ll(m2(xopt, NS, None).data, data.data, multinom)
            if reported is not None:
                if not abs(ll_ret - reported) <= 1e-8 * max(1.0, abs(reported)):
                    col.violation('C12:%s:reported_optimum_not_ll_of_result' % name, info, {'reported': float(reported), 'll_of_returned': ll_ret, 'xopt': xopt})
            if name.startswith('opt_'):
                ll_start = indep_ll(m2(start_full, NS, None).data, data.data, multinom)
                if ll_ret < ll_start - 1e-8 * max(1.0, abs(ll_start)):
                    col.violation('C12:%s:worse_than_start' % name, info, {'ll_start': ll_start, 'll_returned': ll_ret})
                # the primary optimiser must actually move when the start is not optimal
                best_seen = max(indep_ll(m2(ev, NS, None).data, data.data, multinom) for ev in record[:50])
                if best_seen > ll_start + 1e-3 and ll_ret < best_seen - 1e-6 * max(1.0, abs(best_seen)) and len(record) >= 5:
                    col.violation('C12:%s:returns_point_worse_than_evaluated' % name, info, {'best_evaluated(first 50)': best_seen, 'll_returned': ll_ret, 'xopt': xopt, 'start': start_full})
    col.tick(states=n, traces=n)
    col.distinct('nontrivial', ('opt', name, kind, k, multinom, box, tuple(p.get('fixed_only') or ()), bool(p.get('on_bound')), one_sided, bool(p.get('zero_fixed'))))


def case_grid(col, p):
    import dadi
    from dadi import Inference
    k, multinom = p['k'], p['multinom']
    pstar = truth(k)
    record = []
    model = make_model('linear', k, record)
    data = model(pstar, NS, None)
    record.clear()
    n = 0
    for fixed_mask in itertools.product((0, 1), repeat=k):
        if all(fixed_mask):
            continue
        fixedvals = [float(pstar[i]) * 1.2 + (0.3 if p.get('integer_grid') else 0.0) if f else None for i, f in enumerate(fixed_mask)]
        fixed = fixedvals if any(fixed_mask) else None
        free = [i for i, f in enumerate(fixed_mask) if not f]
        grid = tuple(slice(pstar[i] * 0.5, pstar[i] * 1.6, pstar[i] * 0.5) for i in free)
        axes = [np.arange(pstar[i] * 0.5, pstar[i] * 1.6, pstar[i] * 0.5) for i in free]
        if p.get('integer_grid'):
            # an all-integer grid (index_exp[1:4:1, ...]): the free vector is of integer type, the fixed values are not integers
            grid = tuple(slice(int(round(pstar[i] * 0.5)) + 1, int(round(pstar[i] * 0.5)) + 4, 1) for i in free)
            axes = [np.arange(g.start, g.stop, g.step) for g in grid]
        record.clear()
        info = dict(p, fixed=fixedvals)
        try:
            out = Inference.optimize_grid(data, model, [20], grid, multinom=multinom, fixed_params=fixed, full_output=True)
        except Exception as e:
            col.violation('C12:optimize_grid:raises', info, '%s: %s' % (type(e).__name__, e))
            continue
        col.tick(transitions=len(record))
        n += 1
        xopt, fopt = np.array(out[0], dtype=float), out[1]
        best, bestll = None, -np.inf
        rec2 = []
        m2 = make_model('linear', k, rec2)
        for combo in itertools.product(*axes):
            full = np.array([fixedvals[i] if fixedvals[i] is not None else None for i in range(k)], dtype=object)
            it = iter(combo)
            full = np.array([fixedvals[i] if fixedvals[i] is not None else next(it) for i in range(k)], dtype=float)
            v = indep_ll(m2(full, NS, None).data, data.data, multinom)
            if v > bestll:
                best, bestll = full, v
        if not np.allclose(xopt, best, rtol=1e-12):
            col.violation('C12:optimize_grid:not_the_best_grid_point', info, {'xopt': xopt, 'best': best})
        if not abs(-fopt - bestll) <= 1e-8 * max(1.0, abs(bestll)):
            col.violation('C12:optimize_grid:reported_optimum', info, {'reported': float(-fopt), 'best_ll': bestll})
        for ev in record:
            if any(fixedvals[i] is not None and ev[i] != fixedvals[i] for i in range(k)):
                col.violation('C12:optimize_grid:fixed_parameter_changed', info, {'params': ev})
                break
    col.tick(states=n, traces=n)
    col.distinct('nontrivial', ('grid', k, multinom, bool(p.get('integer_grid'))))


def case_project(col, p):
    from dadi import Inference
    k = p['k']
    n = 0
    vals = np.array([1.5, -2.0, 0.0, 7.25, 1e-9][:k])
    for mask, zero in itertools.product(itertools.product((0, 1), repeat=k), (None, 0.0, 0, False)):
        # zero: one fixed parameter is held at exactly 0 (a migration rate or selection coefficient switched off), as float, int or numpy-free bool
        fixed = [float(10 + i) if f else None for i, f in enumerate(mask)]
        if zero is not None:
            if not any(mask):
                continue
            fixed[list(mask).index(1)] = zero
        down = Inference._project_params_down(list(vals), fixed)
        up = Inference._project_params_up(down, fixed)
        col.tick(transitions=2)
        n += 1
        exp_down = [v for v, f in zip(vals, mask) if not f]
        exp_up = [fx if fx is not None else v for v, fx in zip(vals, fixed)]
        if list(np.atleast_1d(down)) != exp_down:
            col.violation('C12:_project_params_down:value', dict(p, fixed=fixed), {'got': list(np.atleast_1d(down)), 'exp': exp_down})
        if list(np.atleast_1d(up)) != exp_up:
            col.violation('C12:_project_params_up:value', dict(p, fixed=fixed), {'got': list(np.atleast_1d(up)), 'exp': exp_up})
        # a free vector of integer type (what a search over an all-integer grid hands over) expanded around non-integer fixed values
        if zero is None and any(mask) and not all(mask):
            fx2 = [10.3 + i if f else None for i, f in enumerate(mask)]
            ints = np.arange(1, 1 + sum(1 for f in mask if not f), dtype=int)
            up_i = Inference._project_params_up(ints, fx2)
            it_ = iter(ints)
            exp_i = [fx if fx is not None else float(next(it_)) for fx in fx2]
            col.tick(transitions=1)
            if [float(v) for v in np.atleast_1d(up_i)] != exp_i:
                col.violation('C12:_project_params_up:integer_free_vector', dict(p, fixed=fx2), {'got': [float(v) for v in np.atleast_1d(up_i)], 'exp': exp_i})
        # inverse: down(up(x)) == x for the free entries
        again = Inference._project_params_down(up, fixed)
        if list(np.atleast_1d(again)) != exp_down:
            col.violation('C12:_project_params:not_inverse', dict(p, fixed=fixed), {'got': list(np.atleast_1d(again))})
        # bound lists with None entries go through the same projection
        bl = [None if i % 2 else float(i) for i in range(k)]
        bd = Inference._project_params_down(bl, fixed)
        if list(bd) != [b for b, f in zip(bl, mask) if not f]:
            col.violation('C12:_project_params_down:none_entries', dict(p, fixed=fixed), {'got': list(bd)})
    # the same pattern of fixed positions with OTHER fixed values, later in the same process (a likelihood profile does exactly this)
    for offset in (20.0, -3.5, 10.0):
        for mask in itertools.product((0, 1), repeat=k):
            fixed = [float(offset + i) if f else None for i, f in enumerate(mask)]
            free = [v for v, f in zip(vals, mask) if not f]
            up = Inference._project_params_up(list(free), fixed)
            col.tick(transitions=1)
            n += 1
            exp_up = [fx if fx is not None else v for v, fx in zip(vals, fixed)]
            if list(np.atleast_1d(up)) != exp_up:
                col.violation('C12:_project_params_up:result_depends_on_history', dict(p, fixed=fixed), {'got': list(np.atleast_1d(up)), 'exp': exp_up})
    # fixed_params None = identity; length mismatch rejected
    if list(Inference._project_params_down(list(vals), None)) != list(vals) or list(Inference._project_params_up(list(vals), None)) != list(vals):
        col.violation('C12:_project_params:none_is_not_identity', dict(p), '')
    try:
        Inference._project_params_down(list(vals), [None] * (k + 1))
        col.violation('C12:_project_params_down:length_mismatch_accepted', dict(p), '')
    except ValueError:
        pass
    col.tick(states=n, traces=n)
    col.distinct('nontrivial', ('project', k))


def case_perturb(col, p):
    """bounds lattice x extreme answers of the uniform draw (environment answers 0, 1/2, 1-eps per coordinate)"""
    import numpy
    from dadi import Misc
    k = p['k']
    params = np.array(p.get('params', [2.0, 0.5, 30.0])[:k])
    lowers = [[0.1, 0.1, 1.0], [1.9, 0.49, 29.0], [-5.0, -1.0, -100.0], [0.0, 0.0, 0.0], [None, 0.1, None], [0.001, 0.002, 0.0005]]
    # (the last box is narrower than 0.01 in absolute terms: a rate or a proportion bounded to [0.001, 0.005])
    uppers = [[10.0, 10.0, 100.0], [2.1, 0.51, 31.0], [None, 2.0, None], [3.0, 0.6, 40.0], [-1.0, 5.0, -2.0], [0.005, 0.004, 0.003]]
    n = 0
    real_uniform = numpy.random.uniform
    try:
        for lo, up, fold in itertools.product(lowers + [None], uppers + [None], (1, 3)):
            for draws in itertools.product((0.0, 0.5, 1.0 - 2 ** -53), repeat=k):
                numpy.random.uniform = lambda size=None, draws=draws: np.array(draws)
                lo_l = list(lo[:k]) if lo is not None else None
                up_l = list(up[:k]) if up is not None else None
                lo_snap, up_snap = (list(lo_l) if lo_l is not None else None), (list(up_l) if up_l is not None else None)
                out = Misc.perturb_params(params.copy(), fold=fold, lower_bound=lo_l, upper_bound=up_l)
                col.tick(transitions=1)
                n += 1
                info = dict(p, lower=lo_snap, upper=up_snap, fold=fold, draws=draws)
                ls = [lo_snap[i] if lo_snap is not None and lo_snap[i] is not None else -np.inf for i in range(k)]
                us = [up_snap[i] if up_snap is not None and up_snap[i] is not None else np.inf for i in range(k)]
                if any(l > u for l, u in zip(ls, us)):
                    continue          # empty box: nothing can be asserted
                for i in range(k):
                    l, u = ls[i], us[i]
                    if not (l <= out[i] <= u):
                        which = l if out[i] < l else u
                        site = 'negative_bound' if which < 0 else 'nonnegative_bound'
                        col.violation('C12:perturb_params:outside_bounds:%s' % site, info, {'out': out, 'index': i})
                        break
                # within `fold` factors of two of the original unless clamped
                exp = params * 2 ** (fold * (2 * np.array(draws) - 1))
                for i in range(k):
                    l = lo_snap[i] if lo_snap is not None and lo_snap[i] is not None else -np.inf
                    u = up_snap[i] if up_snap is not None and up_snap[i] is not None else np.inf
                    if params[i] > 0 and l < exp[i] * 0.98 and exp[i] * 1.02 < u and l >= 0 and abs(out[i] - exp[i]) > 1e-12 * abs(exp[i]) and 1.01 * l < exp[i] < 0.99 * u:
                        col.violation('C12:perturb_params:unclamped_value_changed', info, {'out': out, 'expected': exp})
                        break
    finally:
        numpy.random.uniform = real_uniform
    col.tick(states=n, traces=n)
    col.distinct('nontrivial', ('perturb', k))


CASES = {'opt': case_opt, 'grid': case_grid, 'project': case_project, 'perturb': case_perturb}


def _dispatch(col, case):
    CASES[case['kind']](col, case)


def replay(ctx, case):
    _dispatch(ctx, case)


def run(ctx):
    cases = []
    ks = (1, 2, 3) if ctx.quick else (1, 2, 3, 4)
    for name in LOCAL:
        for kind in ('linear', 'nonlinear'):
            for k in ks:
                if kind == 'nonlinear' and k == 1:
                    continue
                for multinom in (True, False):
                    for box in ('inside', 'outside', 'zero_upper'):
                        if box == 'zero_upper' and (kind != 'nonlinear' or name in LOGSPACE):
                            continue        # needs a parameter that may be negative; log-space optimisers cannot represent it
                        stride = None
                        if ctx.quick and k == 3:
                            stride = 3
                        if not ctx.quick and k == 4:
                            stride = 3
                        for fixed_mask in itertools.product((0, 1), repeat=k):
                            if all(fixed_mask):
                                continue
                            cases.append({'kind': 'opt', 'opt': name, 'model': kind, 'k': k, 'multinom': multinom, 'box': box,
                                          'fixed_only': list(fixed_mask), 'start_stride': stride})
    # a free parameter starting exactly on its lower bound, fixed parameters sitting exactly on theirs
    for name in LOCAL:
        for multinom in (True, False):
            for fixed_mask in ((0, 0), (0, 1), (1, 0)):
                cases.append({'kind': 'opt', 'opt': name, 'model': 'nonlinear', 'k': 2, 'multinom': multinom, 'box': 'inside',
                              'fixed_only': list(fixed_mask), 'start_stride': 4, 'on_bound': True})
    # bounds on one side only (the other list left at None), optimum beyond the bounded side
    for name in ('optimize_log', 'optimize_log_fmin', 'optimize_log_powell'):
        # (the optimisers that rely on the objective's own bound check, in log parameters so that the unbounded side cannot reach non-positive values)
        for side, box in (('upper', 'outside'), ('lower', 'above')):
            for fixed_mask in ((0, 0), (0, 1), (1, 0)):
                cases.append({'kind': 'opt', 'opt': name, 'model': 'linear', 'k': 2, 'multinom': False, 'box': box, 'fixed_only': list(fixed_mask),
                              'start_stride': None, 'one_sided': side})
    # ... and a lower bound list only (upper left at None; parameters stay positive) for the optimisers that take their bounds natively
    for name in ('optimize_cons', 'opt_cobyla', 'opt_log', 'optimize_lbfgsb', 'optimize_log_lbfgsb'):
        for fixed_mask in ((0, 0), (0, 1), (1, 0)):
            cases.append({'kind': 'opt', 'opt': name, 'model': 'linear', 'k': 2, 'multinom': False, 'box': 'above', 'fixed_only': list(fixed_mask),
                          'start_stride': None, 'one_sided': 'lower'})
    for name in LOCAL:
        for fixed_mask in ((0, 0), (0, 1)):
            cases.append({'kind': 'opt', 'opt': name, 'model': 'linear', 'k': 2, 'multinom': False, 'box': 'zero_lower', 'fixed_only': list(fixed_mask),
                          'start_stride': None})
    # parameters fixed at exactly 0
    for name in LOCAL:
        for fixed_mask in ((1, 0, 0), (0, 1, 0), (0, 0, 1), (1, 1, 0), (0, 1, 1)):
            cases.append({'kind': 'opt', 'opt': name, 'model': 'linear', 'k': 3, 'multinom': False, 'box': 'inside', 'fixed_only': list(fixed_mask),
                          'start_stride': 3, 'zero_fixed': True})
    if ctx.quick:
        ctx.cap_hit('quick: models with k<=3 parameters, for k=3 every third starting-point combination; thorough: k<=4 (k=4 every third), k<=3 complete')
    for k in (1, 2, 3):
        for multinom in (True, False):
            cases.append({'kind': 'grid', 'k': k, 'multinom': multinom})
            cases.append({'kind': 'grid', 'k': k, 'multinom': multinom, 'integer_grid': True})
    for k in range(1, 6):
        cases.append({'kind': 'project', 'k': k})
    for k in (1, 2, 3):
        cases.append({'kind': 'perturb', 'k': k})
        cases.append({'kind': 'perturb', 'k': k, 'params': [-4.0, 0.5, -30.0]})      # selection coefficients are negative
    from mc.evidence import Collector
    a, b = Collector(), Collector()
    _dispatch(a, cases[0]); _dispatch(b, cases[0])
    assert a.viol_count == b.viol_count and a.counters == b.counters
    cases.sort(key=lambda c: -c.get('k', 1))
    explore.pmap(ctx, _dispatch, cases, chunk=1)
    ctx.tick(evaluations=len(cases))
    for c in (cases[0], cases[len(cases) // 2], cases[-1]):
        ctx.sample(c)
    ctx.rule = ('optimiser x model x every proper fixed-subset x starting-point lattice x bound box x multinom; every model evaluation is recorded '
                'and checked. distinct_nontrivial = distinct (optimiser, model, k, multinom, box, fixed subset) groups')
    ctx.assume('objective surfaces are the two closed-form model families; optimisers are given small iteration budgets (the clauses checked hold at any budget)')
