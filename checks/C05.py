"""C05 – sampling a spectrum from phi is exact binomial integration on every code path.

Operator extraction (every unit density) for: the semi-analytic path in 1-5 dimensions, the direct path (force_direct, het_ascertained)
in 1-4 dimensions, admix_props (identity and every row-stochastic matrix on the step-1/4 lattice), inbreeding (F lattice x ploidy).
Oracle: exact integrals of the binomial sampling probabilities against the piecewise-linear basis functions (Fractions) and exact
trapezoid sums; closure identities (total = trapezoid mass, sample-then-project = sample, marginalise before/after) on every unit density.
"""
import itertools
import math
from fractions import Fraction

import numpy as np

from mc import explore, space
from mc.refs import sampling as RSa

LEVEL = 'model_checking'


def _grid(kind, G, seed):
    if kind == 'O':
        g = space.grid('E', G, seed).copy()
        g[0] = -1e-17
        g[-1] = np.nextafter(1.0, 2.0)        # 1.0 + 1e-16 would round to 1.0: the smallest real overshoot is one ulp
        return g
    return space.grid(kind, G, seed)


def _trapz_mass(phi, grids):
    cur = phi
    for k in range(phi.ndim - 1, -1, -1):
        cur = np.trapezoid(cur, grids[k], axis=k) if hasattr(np, 'trapezoid') else np.trapz(cur, grids[k], axis=k)
    return float(cur)


def _units(shape, lo=0, hi=None):
    N = int(np.prod(shape))
    hi = N if hi is None else hi
    for j in range(lo, hi):
        e = np.zeros(N)
        e[j] = 1.0
        yield np.unravel_index(j, shape), e.reshape(shape)


def case_analytic(col, p):
    """semi-analytic path, d = len(ns), same grid on every axis (required by the implementation)"""
    import dadi
    ns, G, gk = tuple(p['ns']), p['G'], p['grid']
    d = len(ns)
    xx = _grid(gk, G, p['seed'])
    fg = RSa.fgrid(np.clip(xx, 0, 1))
    grids = [xx] * d
    if p.get('later_grids'):
        # the first two populations share a grid (the implementation insists); the third and later ones are on grids of their own
        alt = ['D2', 'U', 'D']
        grids = [xx, xx] + [space.grid(alt[(k - 2) % 3], G, p['seed'] + k) for k in range(2, d)]
    fgl = [RSa.fgrid(np.clip(g_, 0, 1)) for g_ in grids]
    Ws = [RSa.as_float(RSa.W_exact(n, fgk)) for n, fgk in zip(ns, fgl)]
    shape = (G,) * d
    scale = max(float(np.abs(W).max()) for W in Ws) ** d if d > 1 else float(np.abs(Ws[0]).max())
    tol = 2e-12 * max(scale, 1e-300) * (1 + max(ns) / 10.0)
    lo, hi = p.get('units', (0, G ** d))
    hi = min(hi, G ** d)
    ids = ['s%d' % k for k in range(d)]
    wts = [np.array([float(v) for v in RSa.trapz_w(fgk)]) for fgk in fgl]
    n = 0
    for idx, phi in _units(shape, lo, hi):
        fs = dadi.Spectrum.from_phi(phi, list(ns), list(grids), mask_corners=False, pop_ids=ids)
        col.tick(transitions=1)
        n += 1
        got = np.asarray(fs.data)
        ex = Ws[0][:, idx[0]]
        for k in range(1, d):
            ex = np.multiply.outer(ex, Ws[k][:, idx[k]])
        info = dict(p, unit=idx)
        if got.shape != ex.shape:
            col.violation('C05:from_phi:analytic%dD:shape' % d, info, {'got': got.shape})
            continue
        err = float(np.abs(got - ex).max())
        if not err <= tol:
            col.violation('C05:from_phi:analytic%dD:operator' % d, info, {'maxerr': err, 'tol': tol})
        else:
            col.observe('analytic%dD' % d, err / tol)
        mass = float(np.prod([wts[k][idx[k]] for k in range(d)]))
        if not abs(float(got.sum()) - mass) <= 1e-11 * max(mass, 1e-300) + 1e-15:
            col.violation('C05:from_phi:analytic%dD:total_vs_mass' % d, info, {'total': float(got.sum()), 'mass': mass})
        if fs.pop_ids != ids or getattr(fs, 'extrap_x', None) != xx[1] or fs.folded or np.ma.getmaskarray(fs).any():
            col.violation('C05:from_phi:bookkeeping', info, {'pop_ids': fs.pop_ids, 'extrap_x': getattr(fs, 'extrap_x', None)})
    # mask_corners default
    fs = dadi.Spectrum.from_phi(np.ones(shape), list(ns), [xx] * d)
    m = np.ma.getmaskarray(fs)
    if not (m.flat[0] and m.flat[-1] and m.sum() == 2) and m.size > 2:
        col.violation('C05:from_phi:mask_corners', dict(p), {'mask': m.astype(int)})
    col.tick(states=n, traces=n)
    col.distinct('nontrivial', ('analytic', ns, G, gk, lo, bool(p.get('later_grids'))))


def case_direct(col, p):
    """direct path incl. het_ascertained; grids may differ per axis"""
    import dadi
    ns, G, rot, het = tuple(p['ns']), p['G'], p['rot'], p['het']
    d = len(ns)
    grids = space.grids_for_axes(d, G, seed=p['seed'], rot=rot)
    fgs = [RSa.fgrid(g) for g in grids]
    hetax = {'xx': 0, 'yy': 1, 'zz': 2}.get(het, None)
    Ds = [RSa.as_float(RSa.D_exact(n, fg, het=(hetax == k))) for k, (n, fg) in enumerate(zip(ns, fgs))]
    shape = (G,) * d
    tol = 1e-12
    n = 0
    import logging
    for idx, phi in _units(shape):
        kw = dict(mask_corners=False)
        if het:
            kw['het_ascertained'] = het
        else:
            kw['force_direct'] = True
        snap = phi.copy()
        fs = dadi.Spectrum.from_phi(phi, list(ns), grids, **kw)
        col.tick(transitions=1)
        n += 1
        if not np.array_equal(phi, snap):
            col.violation('C05:from_phi:direct%dD%s:density_modified' % (d, ':het_' + het if het else ''), dict(p, unit=idx), {'maxchange': float(np.abs(phi - snap).max())})
            phi = snap
        got = np.asarray(fs.data)
        # sampling is linear: the negative of a unit density (a difference of two densities has negative parts) gives the negative spectrum
        fneg = np.asarray(dadi.Spectrum.from_phi(-1.5 * phi, list(ns), grids, **kw).data)
        col.tick(transitions=1)
        if not float(np.abs(fneg + 1.5 * got).max()) <= 1e-14 * max(1.0, float(np.abs(got).max())):
            col.violation('C05:from_phi:direct%dD%s:negative_density' % (d, ':het_' + het if het else ''), dict(p, unit=idx),
                          {'maxerr': float(np.abs(fneg + 1.5 * got).max())})
        ex = Ds[0][:, idx[0]]
        for k in range(1, d):
            ex = np.multiply.outer(ex, Ds[k][:, idx[k]])
        if het and d <= 3:
            # no inbreeding at all (every F exactly 0) is plain sampling, with the same ascertainment option
            try:
                fs0 = dadi.Spectrum.from_phi_inbreeding(phi, list(ns), grids, [0] * d, [2] * d, mask_corners=False, het_ascertained=het)
                col.tick(transitions=1)
                e0 = float(np.abs(np.asarray(fs0.data) - ex).max())
                if not e0 <= tol * max(float(np.abs(ex).max()), 1e-300):
                    col.violation('C05:from_phi_inbreeding:F0:het_%s:differs_from_plain_sampling' % het, dict(p, unit=idx), {'maxerr': e0})
            except Exception as e:
                col.violation('C05:from_phi_inbreeding:F0:het_%s:raises' % het, dict(p, unit=idx), '%s: %s' % (type(e).__name__, e))
        err = float(np.abs(got - ex).max())
        sc = max(float(np.abs(ex).max()), 1e-300)
        if not err <= tol * sc:
            col.violation('C05:from_phi:direct%dD%s:operator' % (d, ':het_' + het if het else ''), dict(p, unit=idx), {'maxerr': err, 'scale': sc})
        else:
            col.observe('direct%dD' % d, err / (tol * sc))
    col.tick(states=n, traces=n)
    col.distinct('nontrivial', ('direct', ns, G, rot, het))


def _rows_lattice(d, step=4):
    """all row-stochastic d x d matrices with entries multiples of 1/step"""
    rows = [tuple(c / float(step) for c in combo) for combo in itertools.product(range(step + 1), repeat=d) if sum(combo) == step]
    return rows


def case_admix(col, p):
    """admix_props: identity == direct; every row-stochastic matrix (step 1/4): explicit double loop reference; weights sum to one"""
    import dadi
    ns, G = tuple(p['ns']), p['G']
    d = len(ns)
    grids = [space.grid('D', G, p['seed'])] * d if p.get('same_grid', True) else space.grids_for_axes(d, G, seed=p['seed'])
    shape = (G,) * d
    rng = np.random.RandomState(p['seed'] + 3)
    dense = rng.uniform(0.2, 2.0, size=shape)
    ident = tuple(tuple(1.0 if i == j else 0.0 for j in range(d)) for i in range(d))
    a = dadi.Spectrum.from_phi(dense, list(ns), grids, mask_corners=False, admix_props=ident)
    b = dadi.Spectrum.from_phi(dense, list(ns), grids, mask_corners=False, force_direct=True)
    col.tick(transitions=2)
    if not np.allclose(np.asarray(a.data), np.asarray(b.data), rtol=1e-13, atol=0):
        col.violation('C05:from_phi:admix_identity_vs_direct:%dD' % d, dict(p), {'maxdiff': float(np.abs(np.asarray(a.data) - np.asarray(b.data)).max())})
    rows = _rows_lattice(d)
    if p.get('offdiag'):
        # identity with one or two rows replaced by 3/4 e_k + 1/4 e_l (every ordered pair k != l; every pair of such rows)
        singles = []
        for k in range(d):
            for l in range(d):
                if k != l:
                    m = [[1.0 if i == j else 0.0 for j in range(d)] for i in range(d)]
                    m[k][k], m[k][l] = 0.75, 0.25
                    singles.append(m)
        mats = [tuple(map(tuple, m)) for m in singles]
        for a, b in itertools.combinations(range(len(singles)), 2):
            ka = [i for i in range(d) if singles[a][i][i] != 1.0][0]
            kb = [i for i in range(d) if singles[b][i][i] != 1.0][0]
            if ka != kb:
                m = [list(r) for r in singles[a]]
                m[kb] = list(singles[b][kb])
                mats.append(tuple(map(tuple, m)))
    else:
        mats = list(itertools.product(rows, repeat=d))
    lo, hi = p.get('mats', (0, len(mats)))
    wts = [np.array([float(v) for v in RSa.trapz_w(RSa.fgrid(g))]) for g in grids]
    Wt = wts[0]
    for k in range(1, d):
        Wt = np.multiply.outer(Wt, wts[k])
    mass = float((Wt * dense).sum())
    mesh = np.meshgrid(*grids, indexing='ij')
    n = 0
    for mat in mats[lo:hi]:
        fs = dadi.Spectrum.from_phi(dense, list(ns), grids, mask_corners=False, admix_props=mat)
        col.tick(transitions=1)
        n += 1
        got = np.asarray(fs.data)
        # reference: trapezoid sum of prod_k Binom(n_k, i_k; q_k) * phi with q_k = sum_l mat[k][l] x_l
        qs = [sum(mat[k][l] * mesh[l] for l in range(d)) for k in range(d)]
        ex = np.zeros([nk + 1 for nk in ns])
        facs = [[math.comb(nk, i) * qs[k] ** i * (1 - qs[k]) ** (nk - i) for i in range(nk + 1)] for k, nk in enumerate(ns)]
        for idx in np.ndindex(*ex.shape):
            f = Wt * dense
            for k in range(d):
                f = f * facs[k][idx[k]]
            ex[idx] = f.sum()
        err = float(np.abs(got - ex).max())
        if not err <= 1e-12 * max(1.0, float(np.abs(ex).max())):
            col.violation('C05:from_phi:admix_props%dD:value' % d, dict(p, admix_props=mat), {'maxerr': err})
        if not abs(float(got.sum()) - mass) <= 1e-10 * mass:
            col.violation('C05:from_phi:admix_props%dD:weights_do_not_sum_to_one' % d, dict(p, admix_props=mat), {'total': float(got.sum()), 'mass': mass})
    # rows not summing to one are refused
    bad = tuple(tuple((0.75 if i == j else 0.0) for j in range(d)) for i in range(d))
    try:
        dadi.Spectrum.from_phi(dense, list(ns), grids, admix_props=bad)
        col.violation('C05:from_phi:admix_props:accepts_rows_not_summing_to_1', dict(p), '')
    except ValueError:
        pass
    col.tick(states=n, traces=n)
    col.distinct('nontrivial', ('admix', ns, G, lo))


def case_inbreeding(col, p):
    import dadi
    ns, G, ploidys = tuple(p['ns']), p['G'], tuple(p['ploidy'])
    d = len(ns)
    grids = [space.grid(p['grid'], G, p['seed'])] * d
    shape = (G,) * d
    wts = [np.array([float(v) for v in RSa.trapz_w(RSa.fgrid(g))]) for g in grids]
    n = 0
    for idx, phi in _units(shape):
        direct = np.asarray(dadi.Spectrum.from_phi(phi, list(ns), grids, mask_corners=False, force_direct=True).data)
        mass = float(np.prod([wts[k][idx[k]] for k in range(d)]))
        prev_err = None
        for F in p['Fs']:
            Fs = [F] * d if not isinstance(F, (list, tuple)) else list(F)
            try:
                fs = dadi.Spectrum.from_phi_inbreeding(phi, list(ns), grids, Fs, list(ploidys), mask_corners=False)
            except Exception as e:
                col.violation('C05:from_phi_inbreeding:raises', dict(p, unit=idx, F=F), '%s: %s' % (type(e).__name__, e))
                continue
            col.tick(transitions=1)
            n += 1
            got = np.asarray(fs.data)
            info = dict(p, unit=idx, F=F)
            if not np.isfinite(got).all() or got.min() < -1e-12 * max(mass, 1e-300):
                col.violation('C05:from_phi_inbreeding:not_finite_nonnegative', info, {'min': float(np.nanmin(got)) if np.isfinite(got).any() else 'nan'})
                continue
            # sampling probabilities sum to one  =>  total equals the trapezoid mass of the unit density
            # round-off of betaln(i+a, n-i+b) - betaln(a, b) grows like eps * a with a ~ 1/F (measured 3e-9 at F=1e-6): conditioning-aware tolerance
            Fpos = [f for f in Fs if f > 0]
            stol = 1e-10 + (3e-14 / min(Fpos) if Fpos else 0.0) * d
            if not abs(float(got.sum()) - mass) <= stol * mass:
                col.violation('C05:from_phi_inbreeding:probabilities_do_not_sum_to_one', info, {'total': float(got.sum()), 'mass': mass})
            if d >= 2 and min(Fs) > 0:
                from dadi import PhiManip
                for k in range(d):
                    sub = phi
                    for r in sorted([q for q in range(d) if q != k], reverse=True):
                        sub = PhiManip.remove_pop(sub, grids[0], r + 1)
                    one = np.asarray(dadi.Spectrum.from_phi_inbreeding(np.asarray(sub), [ns[k]], [grids[k]], [Fs[k]], [ploidys[k]], mask_corners=False).data)
                    mg = got.sum(axis=tuple(q for q in range(d) if q != k))
                    if not float(np.abs(mg - one).max()) <= (1e-9 + 3e-13 / min(Fs) * d) * max(mass, 1e-300):
                        col.violation('C05:from_phi_inbreeding:marginal_consistency', dict(info, pop=k + 1), {'maxerr': float(np.abs(mg - one).max()), 'mass': mass})
            if min(Fs) > 0:
                # ascertainment on heterozygosity in population k = sampling of the density weighted by x_k (1 - x_k); the caller's density stays
                for k, het in zip(range(min(d, 3)), ('xx', 'yy', 'zz')):
                    snap = phi.copy()
                    try:
                        fa = np.asarray(dadi.Spectrum.from_phi_inbreeding(phi, list(ns), grids, Fs, list(ploidys), mask_corners=False, het_ascertained=het).data)
                    except Exception as e:
                        col.violation('C05:from_phi_inbreeding:het_%s:raises' % het, info, '%s: %s' % (type(e).__name__, e))
                        continue
                    col.tick(transitions=1)
                    if not np.array_equal(phi, snap):
                        col.violation('C05:from_phi_inbreeding:het_%s:density_modified' % het, info, {'maxchange': float(np.abs(phi - snap).max())})
                        phi[...] = snap
                    wshape = [1] * d
                    wshape[k] = G
                    wk = (grids[k] * (1 - grids[k])).reshape(wshape)
                    fb = np.asarray(dadi.Spectrum.from_phi_inbreeding(phi * wk, list(ns), grids, Fs, list(ploidys), mask_corners=False).data)
                    if not float(np.abs(fa - fb).max()) <= 1e-12 * max(float(np.abs(fb).max()), 1e-300):
                        col.violation('C05:from_phi_inbreeding:het_%s:not_the_weighted_density' % het, info, {'maxerr': float(np.abs(fa - fb).max())})
            err = float(np.abs(got - direct).max()) / max(mass, 1e-300)
            Fmax = max(Fs)
            if Fmax <= 1e-6 and all(pl == 2 for pl in ploidys) and not err <= 1e-4:
                col.violation('C05:from_phi_inbreeding:F_to_0_limit', info, {'relerr_vs_direct': err})
            if Fmax == 0 and not err <= 1e-13:
                col.violation('C05:from_phi_inbreeding:F_eq_0', info, {'relerr_vs_direct': err})
    col.tick(states=n, traces=n)
    col.distinct('nontrivial', ('inbreeding', ns, G, ploidys, p['grid']))


def bbc_exact(nind, ploidy, a, b):
    """distribution of the number of derived alleles in nind individuals of the given ploidy: nind-fold convolution of the beta-binomial"""
    from scipy.special import betaln
    pm = np.array([math.comb(ploidy, k) * math.exp(betaln(k + a, ploidy - k + b) - betaln(a, b)) for k in range(ploidy + 1)])
    d = np.array([1.0])
    for _ in range(nind):
        d = np.convolve(d, pm)
    return d


def case_bbc_history(col, p):
    """BetaBinomConvolution for a SEQUENCE of (individuals, ploidy) pairs in one process (the integer partitions behind it are memoised):
    every call must give the exact convolution whatever was evaluated before"""
    from dadi import Numerics
    n = 0
    for seq in p['sequences']:
        for k, (nind, ploidy) in enumerate(seq):
            for a, b in ((1.0, 50.0), (0.3, 0.7)):
                got = np.array([Numerics.BetaBinomConvolution(i, nind, a, b, ploidy=ploidy) for i in range(nind * ploidy + 1)])
                col.tick(transitions=len(got))
                n += 1
                ex = bbc_exact(nind, ploidy, a, b)
                if not np.abs(got - ex).max() <= 1e-12:
                    col.violation('C05:BetaBinomConvolution:result_depends_on_history', dict(p, sequences=[seq], position=k, alpha=a, beta=b),
                                  {'maxerr': float(np.abs(got - ex).max()), 'sum': float(got.sum())})
    col.tick(states=n, traces=n)
    col.distinct('nontrivial', ('bbc_history', len(p['sequences']), repr(p['sequences'][0])))


def case_bbc(col, p):
    """BetaBinomConvolution: a probability distribution over i = 0..n*ploidy for every (alpha, beta) of the lattice; binomial limit"""
    from dadi import Numerics
    nind, ploidy = p['nind'], p['ploidy']
    vals = [1e-20, 1e-3, 1.0, 50.0, 1e6]
    n = 0
    for a, b in itertools.product(vals, vals):
        probs = [Numerics.BetaBinomConvolution(i, nind, a, b, ploidy=ploidy) for i in range(nind * ploidy + 1)]
        col.tick(transitions=len(probs))
        n += 1
        if 1e-3 <= a <= 50.0 and 1e-3 <= b <= 50.0:
            ex0 = bbc_exact(nind, ploidy, a, b)
            if not np.abs(np.array(probs) - ex0).max() <= 1e-12:
                col.violation('C05:BetaBinomConvolution:value', dict(p, alpha=a, beta=b), {'maxerr': float(np.abs(np.array(probs) - ex0).max())})
        s = sum(probs)
        if not (all(q >= 0 for q in probs) and abs(s - 1.0) <= 1e-10 + 3e-14 * max(a, b)):
            col.violation('C05:BetaBinomConvolution:not_a_distribution', dict(p, alpha=a, beta=b), {'sum': s, 'min': min(probs)})
        if a >= 1e6 and b >= 1e6:
            q = a / (a + b)
            N = nind * ploidy
            ex = [math.comb(N, i) * q ** i * (1 - q) ** (N - i) for i in range(N + 1)]
            if max(abs(x - y) for x, y in zip(probs, ex)) > 1e-4:
                col.violation('C05:BetaBinomConvolution:binomial_limit', dict(p, alpha=a, beta=b), {'got': probs, 'exp': ex})
    col.tick(states=n, traces=n)
    col.distinct('nontrivial', ('bbc', nind, ploidy))


def case_closure(col, p):
    """sample n then project to m == sample m ; marginalise a population before/after sampling ; linearity"""
    import dadi
    from dadi import PhiManip
    ns, G, path = tuple(p['ns']), p['G'], p['path']
    d = len(ns)
    xx = space.grid(p['grid'], G, p['seed'])
    grids = [xx] * d
    shape = (G,) * d
    kw = {'force_direct': True} if path == 'direct' else {}
    targets = list(itertools.product(*[sorted(set([1, max(1, nk // 2), nk])) for nk in ns]))
    n = 0
    rng = np.random.RandomState(p['seed'] + 11)
    dense = rng.uniform(0.1, 1.0, size=shape)
    acc = np.zeros([nk + 1 for nk in ns])
    for idx, phi in _units(shape):
        fs = dadi.Spectrum.from_phi(phi, list(ns), grids, mask_corners=False, **kw)
        acc += dense[idx] * np.asarray(fs.data)
        col.tick(transitions=1)
        n += 1
        for t in targets:
            if t == ns:
                continue
            a = np.asarray(fs.project(list(t)).data)
            b = np.asarray(dadi.Spectrum.from_phi(phi, list(t), grids, mask_corners=False, **kw).data)
            col.tick(transitions=2)
            sc = max(float(np.abs(b).max()), 1e-300)
            if not float(np.abs(a - b).max()) <= 2e-11 * sc:
                col.violation('C05:from_phi:%s:project_consistency' % path, dict(p, unit=idx, target=t), {'maxerr': float(np.abs(a - b).max()), 'scale': sc})
        if d >= 2:
            for k in range(d):
                a = np.asarray(fs.marginalize([k], mask_corners=False).data)
                sub = PhiManip.remove_pop(phi, xx, k + 1)
                b = np.asarray(dadi.Spectrum.from_phi(sub, [nk for i, nk in enumerate(ns) if i != k], grids[:-1], mask_corners=False, **kw).data)
                col.tick(transitions=2)
                sc = max(float(np.abs(b).max()), 1e-300)
                if not float(np.abs(a - b).max()) <= 2e-11 * sc:
                    col.violation('C05:from_phi:%s:marginalize_consistency' % path, dict(p, unit=idx, k=k), {'maxerr': float(np.abs(a - b).max())})
    full = np.asarray(dadi.Spectrum.from_phi(dense, list(ns), grids, mask_corners=False, **kw).data)
    if not float(np.abs(full - acc).max()) <= 1e-11 * max(1.0, float(np.abs(acc).max())):
        col.violation('C05:from_phi:%s:nonlinear' % path, dict(p), {'maxerr': float(np.abs(full - acc).max())})
    col.tick(states=n, traces=n)
    col.distinct('nontrivial', ('closure', ns, G, path))


def case_ladder(col, p):
    """analytic and direct paths agree in the limit: their difference contracts under grid doubling (smooth density)"""
    import dadi
    n = p['n']
    errs = []
    for G in (20, 40, 80):
        xx = dadi.Numerics.default_grid(G)
        phi = dadi.PhiManip.phi_1D(xx)
        a = dadi.Spectrum.from_phi(phi, [n], [xx])
        b = dadi.Spectrum.from_phi(phi, [n], [xx], force_direct=True)
        col.tick(transitions=2)
        errs.append(float(np.abs(np.asarray(a.data)[1:n] / np.asarray(b.data)[1:n] - 1).max()))
    if not (errs[2] < errs[1] < errs[0] and errs[2] < 0.05):
        col.violation('C05:from_phi:analytic_vs_direct_ladder', dict(p), {'errs': errs})
    col.tick(states=3, traces=1)
    col.distinct('nontrivial', ('ladder', n))


def case_history(col, p):
    """memoised beta differences are transparent: sampling on grid A then on a grid B that shares length, first interior point and end
    points with A (and vice versa, and with other sample sizes in between) still gives the exact operator for B"""
    import dadi
    A = np.array([0.0, 0.125, 0.25, 0.5, 0.75, 1.0])
    B = np.array([0.0, 0.125, 0.375, 0.625, 0.875, 1.0])
    C = np.array([0.0, 0.125, 0.25, 0.5, 0.75 + 2 ** -40, 1.0])
    grids = {'A': A, 'B': B, 'C': C}
    n = 0
    for d, ns in ((1, (5,)), (2, (5, 3)), (3, (2, 5, 3))):
        exact = {}
        for name, g in grids.items():
            fg = RSa.fgrid(g)
            exact[name] = [RSa.as_float(RSa.W_exact(nk, fg)) for nk in ns]
        rng = np.random.RandomState(5)
        phi = rng.uniform(0.2, 1.0, size=(6,) * d)
        for order in itertools.permutations('ABC'):
            dadi.Spectrum_mod._dbeta_cache.clear()
            for name in order:
                fs = dadi.Spectrum.from_phi(phi, list(ns), [grids[name]] * d, mask_corners=False)
                col.tick(transitions=1)
                ex = RSa.tensor_apply(exact[name], phi)
                err = float(np.abs(np.asarray(fs.data) - ex).max())
                if not err <= 1e-11 * float(np.abs(ex).max()):
                    col.violation('C05:from_phi:result_depends_on_history', dict(p, d=d, order=order, at=name), {'maxerr': err})
                n += 1
    col.tick(states=n, traces=n)
    col.distinct('nontrivial', ('history',))


CASES = {'history': case_history, 'bbc_history': case_bbc_history, 'analytic': case_analytic, 'direct': case_direct, 'admix': case_admix, 'inbreeding': case_inbreeding, 'bbc': case_bbc,
         'closure': case_closure, 'ladder': case_ladder}


def _dispatch(col, case):
    CASES[case['kind']](col, case)


def replay(ctx, case):
    _dispatch(ctx, case)


def run(ctx):
    cases = []
    seed = ctx.seed
    # 1-D analytic: all n in 1..40 on several grids (incl. the overshooting grid)
    for n in range(1, 41):
        for gk, G in (('D', 6), ('E', 8), ('U', 5), ('O', 7)):
            if ctx.quick and gk in ('U',) and n % 3:
                continue
            cases.append({'kind': 'analytic', 'ns': (n,), 'G': G, 'grid': gk, 'seed': seed})
    pairs2 = list(itertools.product((1, 2, 5, 40), repeat=2))
    for ns in pairs2:
        for gk, G in (('D', 4), ('E', 5)) + ((('O', 5),) if not ctx.quick else ()):
            cases.append({'kind': 'analytic', 'ns': ns, 'G': G, 'grid': gk, 'seed': seed})
    for ns in itertools.product((1, 2, 5), repeat=3):
        cases.append({'kind': 'analytic', 'ns': ns, 'G': 4, 'grid': 'D', 'seed': seed})
    for d in (4, 5):
        nsl = list(itertools.product((1, 2, 3), repeat=d))
        if ctx.quick:
            nsl = [ns for ns in nsl if tuple(sorted(ns)) == ns or ns in ((3, 2, 1, 1), (3, 1, 2, 1, 2))]
        for ns in nsl:
            G = 3
            N = G ** d
            cases.append({'kind': 'analytic', 'ns': ns, 'G': G, 'grid': 'D', 'seed': seed})
    cases.append({'kind': 'analytic', 'ns': (2, 3, 1, 2), 'G': 4, 'grid': 'E', 'seed': seed})
    for ns in ((2, 2, 3), (3, 2, 2, 2), (2, 2, 2, 1, 2)):
        cases.append({'kind': 'analytic', 'ns': ns, 'G': 4, 'grid': 'E', 'seed': seed, 'later_grids': True, 'units': (0, 256)})
    cases.append({'kind': 'analytic', 'ns': (1, 2, 3, 1, 2), 'G': 4, 'grid': 'E', 'seed': seed, 'units': (0, 512)})
    cases.append({'kind': 'analytic', 'ns': (1, 2, 3, 1, 2), 'G': 4, 'grid': 'E', 'seed': seed, 'units': (512, 1024)})
    if ctx.quick:
        ctx.note('quick: 4-D/5-D sample-size tuples restricted to non-decreasing representatives (+ a few permuted); thorough: all of the lattice')
    # direct paths
    for n in (1, 2, 5, 12, 40):
        for het in (None, 'xx'):
            cases.append({'kind': 'direct', 'ns': (n,), 'G': 6, 'rot': 0, 'het': het, 'seed': seed})
    for ns in pairs2:
        for het in (None, 'xx', 'yy'):
            if ctx.quick and het and ns[0] == 40 and ns[1] == 40:
                continue
            cases.append({'kind': 'direct', 'ns': ns, 'G': 4, 'rot': seed % 2, 'het': het, 'seed': seed})
    for ns in ((1, 2, 5), (5, 1, 2), (2, 2, 2), (2, 5, 1)):
        for het in (None, 'xx', 'yy', 'zz'):
            cases.append({'kind': 'direct', 'ns': ns, 'G': 4, 'rot': 0, 'het': het, 'seed': seed})
    for ns in ((1, 2, 3, 1), (2, 1, 1, 3)):
        for het in (None, 'xx', 'yy', 'zz'):
            cases.append({'kind': 'direct', 'ns': ns, 'G': 3, 'rot': 0, 'het': het, 'seed': seed})
    # admix_props
    cases.append({'kind': 'admix', 'ns': (2, 3), 'G': 4, 'seed': seed})
    cases.append({'kind': 'admix', 'ns': (5, 1), 'G': 4, 'seed': seed, 'same_grid': False})
    nm3 = len(_rows_lattice(3)) ** 3
    step = 1 if not ctx.quick else 3
    chunks = list(range(0, nm3, 150))
    for ci, lo in enumerate(chunks):
        if ci % step == 0:
            cases.append({'kind': 'admix', 'ns': (1, 2, 2), 'G': 3, 'seed': seed, 'mats': (lo, min(nm3, lo + 150))})
    if ctx.quick:
        ctx.cap_hit('quick: 3-D admix_props lattice (3375 matrices) thinned to every 3rd chunk of 150; 2-D lattice (225) complete; thorough: complete')
    cases.append({'kind': 'admix', 'ns': (1, 1, 1, 1), 'G': 3, 'seed': seed, 'mats': (0, 40)})
    for lo in range(0, 78, 13):
        cases.append({'kind': 'admix', 'ns': (1, 2, 1, 1), 'G': 3, 'seed': seed, 'offdiag': True, 'mats': (lo, lo + 13)})
    cases.append({'kind': 'admix', 'ns': (2, 1, 2), 'G': 3, 'seed': seed, 'offdiag': True})
    cases.append({'kind': 'admix', 'ns': (2, 3), 'G': 4, 'seed': seed, 'offdiag': True})
    # inbreeding
    Fl = [0.0, 1e-6, 1e-3, 0.3, 0.9, 1 - 1e-12]
    for n, pl in ((2, 2), (4, 2), (6, 2), (4, 4), (8, 4), (6, 6), (8, 8)):
        for gk in ('E', 'D'):
            cases.append({'kind': 'inbreeding', 'ns': (n,), 'G': 6, 'grid': gk, 'ploidy': (pl,), 'Fs': Fl, 'seed': seed})
    cases.append({'kind': 'inbreeding', 'ns': (2, 4), 'G': 4, 'grid': 'E', 'ploidy': (2, 2), 'Fs': Fl + [(0.3, 1e-3), (1e-6, 0.9)], 'seed': seed})
    cases.append({'kind': 'inbreeding', 'ns': (4, 4), 'G': 4, 'grid': 'D', 'ploidy': (2, 4), 'Fs': [1e-6, 0.3], 'seed': seed})
    cases.append({'kind': 'inbreeding', 'ns': (2, 2, 2), 'G': 3, 'grid': 'E', 'ploidy': (2, 2, 2), 'Fs': [1e-6, 0.3, (0.3, 0.5, 1e-3)], 'seed': seed})
    for pls in ((4, 2), (2, 4)):
        cases.append({'kind': 'inbreeding', 'ns': (4, 4), 'G': 4, 'grid': 'E', 'ploidy': pls, 'Fs': [1e-3, 0.3, (0.3, 0.6)], 'seed': seed})
    for pls in ((4, 2, 2), (2, 4, 2), (2, 2, 4)):
        cases.append({'kind': 'inbreeding', 'ns': (4, 4, 4), 'G': 3, 'grid': 'E', 'ploidy': pls, 'Fs': [0.3, (0.2, 0.4, 0.6)], 'seed': seed})
    cases.append({'kind': 'history'})
    fam = [(2, 2), (2, 4), (2, 6), (3, 2), (3, 4), (4, 2), (1, 8)]
    seqs = [list(x) for x in itertools.permutations(fam, 2)] if ctx.quick else [list(x) for x in itertools.permutations(fam, 3)]
    for lo in range(0, len(seqs), 14):
        cases.append({'kind': 'bbc_history', 'sequences': seqs[lo:lo + 14]})
    for nind, pl in ((1, 2), (2, 2), (3, 2), (2, 4), (1, 8), (2, 6)):
        cases.append({'kind': 'bbc', 'nind': nind, 'ploidy': pl})
    # closure identities
    for path in ('analytic', 'direct'):
        for ns, G, gk in (((6,), 6, 'E'), ((40,), 5, 'D'), ((4, 3), 4, 'E'), ((2, 5), 4, 'D'), ((2, 2, 3), 3, 'E')) + ((((2, 1, 2, 2), 3, 'D'),) if not ctx.quick or path == 'analytic' else ()):
            cases.append({'kind': 'closure', 'ns': ns, 'G': G, 'grid': gk, 'path': path, 'seed': seed})
    for n in (4, 12, 30):
        cases.append({'kind': 'ladder', 'n': n})
    from mc.evidence import Collector
    a, b = Collector(), Collector()
    _dispatch(a, cases[0]); _dispatch(b, cases[0])
    assert a.viol_count == b.viol_count and a.maxima == b.maxima
    def cost(c):
        ns = c.get('ns', (1,))
        return -(c.get('G', 3) ** len(ns)) * int(np.prod([x + 1 for x in ns])) * (40 if c['kind'] in ('admix', 'inbreeding') else 1)
    cases.sort(key=cost)
    explore.pmap(ctx, _dispatch, cases, chunk=1)
    ctx.tick(evaluations=len(cases))
    for c in (cases[0], cases[len(cases) // 2], cases[-1]):
        ctx.sample(c)
    ctx.rule = ('for every (sample sizes, grid, path): all unit densities (operator extraction) compared with exact integrals / trapezoid sums; '
                'all row-stochastic admix matrices on the step-1/4 lattice; F x ploidy lattice; closure identities on every unit density. '
                'distinct_nontrivial = distinct (path, ns, grid, chunk) groups fully compared')
    ctx.assume('from_phi is linear in phi (re-checked), so unit densities are a basis; the semi-analytic multi-D paths require the same grid on every axis')
    ctx.assume('5-D has only the semi-analytic path in the implementation (dispatch), inbreeding paths exist for 1-3 D')
