"""C14 – spectra survive file and pickle round trips.

Exhaustive over a format lattice: shapes (1-5 D incl. singleton axes) x every position x value alphabet (incl. extremes and non-finite)
x precision {16,17,18} x {plain, .gz}; labels x comments x foldmaskinfo x mask_corners x folded x mask patterns x gz;
array_to_file/array_from_file and cross-reading; pickle protocols 2..5, copy, deepcopy.
"""
import copy
import itertools
import math
import os
import pickle
import shutil
import tempfile

import numpy as np

from mc import explore

LEVEL = 'model_checking'
SHAPES = [(3,), (1,), (1, 4), (2, 3), (2, 1, 3), (2, 2, 2, 2), (2, 2, 2, 2, 2)]
VALUES = [0.0, 1.0, -1.0, 0.1, 1.0 / 3.0, 1e-300, 1e300, 5e-324, float('nan'), float('inf'), float('-inf'), -0.0, 123456789.123456789]
LABELSETS = [None, 'plain', 'spaces', 'foldedword', 'punct', 'blanks', 'blanks2']
COMMENTSETS = [[], ['one'], ['  leading and trailing  ', 'two'], ['has # inside', '', '#starts with hash'],
               ['a', 'b', 'c', 'd', 'e'], ['folded 3 unfolded', '1 2 3']]
SCRATCH = os.path.join(os.path.dirname(os.path.dirname(os.path.abspath(__file__))), '.scratch')


def _labels(kind, d):
    if kind is None:
        return None
    if kind == 'plain':
        return ['pop%d' % i for i in range(d)]
    if kind == 'spaces':
        return ['pop %d x' % i if i % 2 == 0 else ' lead%d' % i for i in range(d)]
    if kind == 'foldedword':
        return ['my folded pop' if i == 0 else 'unfolded' if i == 1 else 'folded' for i in range(d)]
    if kind == 'blanks':
        # runs of blanks, a tab, leading and trailing blanks, a label that is one blank
        return [['East  Africa', 'a\tb', 'CEU ', '  A', ' '][i % 5] for i in range(d)]
    if kind == 'blanks2':
        return [['CEU ', '  A', 'East   Africa', ' ', 'a\t\tb'][i % 5] for i in range(d)]
    if kind == 'punct':
        return ["a-b_c.%d(e)'f" % i for i in range(d)]


def _same_float(a, b):
    if a != a:
        return b != b
    return a == b and math.copysign(1, a) == math.copysign(1, b)


def _expected_value(v, prec):
    return float('%.*g' % (prec, v))


def _tmp():
    os.makedirs(SCRATCH, exist_ok=True)
    return tempfile.mkdtemp(prefix='c14_', dir=SCRATCH)


def _dense(shape):
    n = int(np.prod(shape))
    return (1.0 + np.arange(n) * 1.618033988749895 / 7.0).reshape(shape)


def _compare(col, key, info, got, exp_data, exp_mask, exp_folded, exp_ids, prec):
    gd = np.asarray(got.data)
    if gd.shape != exp_data.shape:
        col.violation(key + ':shape', info, {'got': gd.shape, 'exp': exp_data.shape})
        return
    for idx in np.ndindex(*exp_data.shape):
        e = _expected_value(float(exp_data[idx]), prec)
        if not _same_float(float(gd[idx]), e):
            col.violation(key + ':value', dict(info, idx=idx), {'got': repr(float(gd[idx])), 'exp': repr(e), 'orig': repr(float(exp_data[idx]))})
            break
    gm = np.ma.getmaskarray(got)
    if not np.array_equal(gm, exp_mask):
        col.violation(key + ':mask', info, {'got': gm.astype(int), 'exp': exp_mask.astype(int)})
    if bool(got.folded) != bool(exp_folded):
        col.violation(key + ':folded', info, {'got': got.folded, 'exp': exp_folded})
    gl = list(got.pop_ids) if got.pop_ids is not None else None
    if gl != exp_ids:
        col.violation(key + ':labels', info, {'got': gl, 'exp': exp_ids})


def case_values(col, p):
    """every position x every special value, for one (shape, precision, gz)"""
    import dadi
    shape, prec, gz = tuple(p['shape']), p['prec'], p['gz']
    tmp = _tmp()
    try:
        fn = os.path.join(tmp, 'v.fs' + ('.gz' if gz else ''))
        n = 0
        for idx in np.ndindex(*shape):
            for v in VALUES:
                data = _dense(shape)
                data[idx] = v
                fs = dadi.Spectrum(data.copy(), mask_corners=False)
                info = dict(p, idx=idx, value=repr(v))
                try:
                    # the documented alias tofile is the same writer (every other value goes through it)
                    (fs.tofile if (sum(idx) + VALUES.index(v)) % 2 else fs.to_file)(fn, precision=prec)
                except Exception as e:
                    col.tick(transitions=1)
                    col.violation('C14:to_file:%s:raises' % ('gz' if gz else 'plain'), info, '%s: %s' % (type(e).__name__, e))
                    continue
                try:
                    back = dadi.Spectrum.from_file(fn, mask_corners=False)
                except Exception as e:
                    col.tick(transitions=2)
                    col.violation('C14:from_file:%s:raises' % ('gz' if gz else 'plain'), info, '%s: %s' % (type(e).__name__, e))
                    continue
                col.tick(transitions=2)
                n += 1
                _compare(col, 'C14:file_roundtrip', info, back, data, np.zeros(shape, bool), False, None, prec)
        col.tick(states=n, traces=n)
    finally:
        shutil.rmtree(tmp, ignore_errors=True)
    col.distinct('nontrivial', ('values', shape, prec, gz))


def _mask_patterns(shape):
    n = int(np.prod(shape))
    # 'compressed': no entry masked and the mask held in numpy's compressed form (the scalar nomask), as after shrink_mask()
    pats = [('none', np.zeros(shape, bool)), ('compressed', np.zeros(shape, bool)), ('all', np.ones(shape, bool))]
    c = np.zeros(shape, bool); c.flat[0] = c.flat[-1] = True
    pats.append(('corners', c))
    for i in range(n):
        m = np.zeros(shape, bool); m.flat[i] = True
        pats.append(('single%d' % i, m))
    return pats


def case_mask_subsets(col, p):
    """EVERY mask (all 2^n subsets of entries in the given index range) x folded x mask_corners(read), plain file, one label/comment set"""
    import dadi
    shape, folded = tuple(p['shape']), p['folded']
    n = int(np.prod(shape))
    tmp = _tmp()
    cnt = 0
    try:
        fn = os.path.join(tmp, 'm.fs')
        for bits in range(p['range'][0], p['range'][1]):
            mask = np.array([(bits >> i) & 1 for i in range(n)], bool).reshape(shape)
            fs = dadi.Spectrum(_dense(shape).copy(), mask=mask.copy(), mask_corners=False)
            if folded:
                fs = fs.fold()
            src_d, src_m = np.asarray(fs.data).copy(), np.ma.getmaskarray(fs).copy()
            fs.to_file(fn, precision=17)
            for mc in (False, True):
                back = dadi.Spectrum.from_file(fn, mask_corners=mc)
                col.tick(transitions=1)
                exm = src_m.copy()
                if mc:
                    exm.flat[0] = exm.flat[-1] = True
                _compare(col, 'C14:format_roundtrip', dict(p, bits=bits, mask_corners=mc), back, src_d, exm, folded, None, 17)
            pk = pickle.loads(pickle.dumps(fs, 2))
            col.tick(transitions=1)
            if not (np.array_equal(np.ma.getmaskarray(pk), src_m) and np.array_equal(np.asarray(pk.data), src_d) and pk.folded == fs.folded):
                col.violation('C14:pickle:mask', dict(p, bits=bits), '')
            cnt += 1
            if folded:
                # the same subset ASSIGNED as the mask of an already folded spectrum (entries of the folded-out half may then be unmasked,
                # e.g. after unmasking a corner): the files store the mask entry by entry, whatever it is
                fa = dadi.Spectrum(_dense(shape).copy(), mask_corners=False).fold()
                fa.mask = mask.copy()
                a_d, a_m = np.asarray(fa.data).copy(), np.ma.getmaskarray(fa).copy()
                import logging
                logging.disable(logging.WARNING)
                try:
                    fa.to_file(fn, precision=17)
                    back = dadi.Spectrum.from_file(fn, mask_corners=False)
                    pk = pickle.loads(pickle.dumps(fa, 2))
                finally:
                    logging.disable(logging.NOTSET)
                col.tick(transitions=2)
                _compare(col, 'C14:format_roundtrip', dict(p, bits=bits, mask_corners=False, mask_assigned_after_folding=True), back, a_d, a_m, True, None, 17)
                if not (np.array_equal(np.ma.getmaskarray(pk), a_m) and np.array_equal(np.asarray(pk.data), a_d) and pk.folded):
                    col.violation('C14:pickle:mask', dict(p, bits=bits, mask_assigned_after_folding=True), '')
        col.tick(states=cnt, traces=cnt)
    finally:
        shutil.rmtree(tmp, ignore_errors=True)
    col.distinct('nontrivial', ('mask_subsets', shape, folded))


def case_integer_valued(col, p):
    """count data: spectra whose entries are ALL integer-valued, with one huge, infinite or negative-zero entry in turn"""
    import dadi
    tmp = _tmp()
    n = 0
    try:
        fn = os.path.join(tmp, 'i.fs')
        for shape in ((5,), (3, 4)):
            for v in (0.0, 7.0, 2.0 ** 62, 2.0 ** 63, 2e19, 1e300, float('inf'), float('-inf'), -3.0, -0.0):
                for idx in (1, int(np.prod(shape)) - 2):
                    data = np.arange(int(np.prod(shape)), dtype=float).reshape(shape)
                    data.flat[idx] = v
                    fs = dadi.Spectrum(data.copy(), mask_corners=False)
                    fs.to_file(fn, precision=17)
                    back = dadi.Spectrum.from_file(fn, mask_corners=False)
                    col.tick(transitions=2)
                    n += 1
                    bd = np.asarray(back.data)
                    if bd.shape != data.shape or not all(_same_float(float(a), float(b)) for a, b in zip(bd.ravel(), data.ravel())):
                        col.violation('C14:file_roundtrip:integer_valued_data', dict(p, shape=shape, value=repr(v), idx=idx), {'got': repr(float(bd.flat[idx]))})
        col.tick(states=n, traces=n)
    finally:
        shutil.rmtree(tmp, ignore_errors=True)
    col.distinct('nontrivial', ('integer_valued',))


def case_format(col, p):
    """labels x comments x foldmaskinfo x mask_corners(read) x mask patterns, for one (shape, folded, gz)"""
    import dadi
    shape, folded, gz = tuple(p['shape']), p['folded'], p['gz']
    d = len(shape)
    tmp = _tmp()
    n = 0
    import logging
    if p.get('assigned'):
        logging.disable(logging.WARNING)      # the constructor logs a warning for every such spectrum
    try:
        fn = os.path.join(tmp, 'f.fs' + ('.gz' if gz else ''))
        for (mname, mask), lab, com, fmi, mc in itertools.product(_mask_patterns(shape), LABELSETS, range(len(COMMENTSETS)), (True, False), (True, False)):
            comments = COMMENTSETS[com]
            labels = _labels(lab, d)
            data = _dense(shape)
            fs = dadi.Spectrum(data.copy(), mask=mask.copy(), mask_corners=False, pop_ids=list(labels) if labels else None)
            if folded:
                fs = fs.fold()
            if mname == 'compressed':
                fs.shrink_mask()
            if folded and p.get('assigned'):
                # the pattern assigned as the mask of the folded spectrum (folded-out entries may then be unmasked): stored entry by entry all the same
                fs.mask = mask.copy()
            src_d, src_m = np.asarray(fs.data).copy(), np.ma.getmaskarray(fs).copy()
            info = dict(p, mask=mname, labels=lab, comments=com, foldmaskinfo=fmi, mask_corners=mc)
            try:
                fs.to_file(fn, precision=17, comment_lines=list(comments), foldmaskinfo=fmi)
            except Exception as e:
                col.tick(transitions=1)
                col.violation('C14:to_file:%s:raises' % ('gz' if gz else 'plain'), info, '%s: %s' % (type(e).__name__, e))
                continue
            try:
                back, rc = dadi.Spectrum.from_file(fn, mask_corners=mc, return_comments=True)
            except Exception as e:
                col.tick(transitions=2)
                col.violation('C14:from_file:%s:raises' % ('gz' if gz else 'plain'), info, '%s: %s' % (type(e).__name__, e))
                continue
            col.tick(transitions=2)
            n += 1
            if fmi:
                exm = src_m.copy()
                exf, exl = folded, labels
            else:
                exm = np.zeros(shape, bool)       # pre-1.3 format: no mask line, default mask
                exf, exl = False, None
            if mc:
                exm.flat[0] = exm.flat[-1] = True
            _compare(col, 'C14:format_roundtrip', info, back, src_d, exm, exf, exl, 17)
            if list(rc) != [c.strip() for c in comments]:
                col.violation('C14:format_roundtrip:comments', info, {'got': list(rc), 'exp': [c.strip() for c in comments]})
            if not (np.array_equal(np.asarray(fs.data), src_d) and np.array_equal(np.ma.getmaskarray(fs), src_m)):
                col.violation('C14:to_file:input_modified', info, '')
        col.tick(states=n, traces=n)
    finally:
        logging.disable(logging.NOTSET)
        shutil.rmtree(tmp, ignore_errors=True)
    col.distinct('nontrivial', ('format', shape, folded, gz, bool(p.get('assigned'))))


def case_array_io(col, p):
    import dadi
    from dadi import Numerics
    shape = tuple(p['shape'])
    tmp = _tmp()
    n = 0
    try:
        fn = os.path.join(tmp, 'a.txt')
        for prec, com in itertools.product((16, 17, 18), range(len(COMMENTSETS))):
            comments = COMMENTSETS[com]
            data = _dense(shape)
            data.flat[0] = 1e-300
            data.flat[-1] = 1.0 / 3.0
            info = dict(p, prec=prec, comments=com)
            # generic writer -> generic reader
            Numerics.array_to_file(data, fn, precision=prec, comment_lines=list(comments))
            back, rc = Numerics.array_from_file(fn, return_comments=True)
            col.tick(transitions=2)
            n += 1
            ok = back.shape == shape and all(_same_float(float(back[i]), _expected_value(float(data[i]), prec)) for i in np.ndindex(*shape))
            if not ok:
                col.violation('C14:array_roundtrip:value', info, {'got': back, 'exp': data})
            if list(rc) != [c.strip() for c in comments]:
                col.violation('C14:array_roundtrip:comments', info, {'got': list(rc)})
            # generic writer -> Spectrum.from_file (pre-1.3 format)
            try:
                fs = dadi.Spectrum.from_file(fn, mask_corners=False)
                col.tick(transitions=1)
                exm = np.zeros(shape, bool)
                _compare(col, 'C14:array_to_file->from_file', info, fs, data, exm, False, None, prec)
            except Exception as e:
                col.violation('C14:array_to_file->from_file:raises', info, '%s: %s' % (type(e).__name__, e))
            # Spectrum old format writer -> generic reader
            sp = dadi.Spectrum(data.copy(), mask_corners=False)
            sp.to_file(fn, precision=prec, comment_lines=list(comments), foldmaskinfo=False)
            try:
                back2 = Numerics.array_from_file(fn)
                col.tick(transitions=2)
                ok = back2.shape == shape and all(_same_float(float(back2[i]), _expected_value(float(data[i]), prec)) for i in np.ndindex(*shape))
                if not ok:
                    col.violation('C14:to_file(old)->array_from_file:value', info, {'got': back2, 'exp': data})
            except Exception as e:
                col.violation('C14:to_file(old)->array_from_file:raises', info, '%s: %s' % (type(e).__name__, e))
            # masked spectrum through the generic writer: masked entries documented to go in as nan
            msk = np.zeros(shape, bool); msk.flat[0] = True
            spm = dadi.Spectrum(data.copy(), mask=msk, mask_corners=False)
            Numerics.array_to_file(spm, fn, precision=prec)
            back3 = Numerics.array_from_file(fn)
            col.tick(transitions=2)
            if not (np.isnan(back3.flat[0]) and back3.shape == shape and
                    all(_same_float(float(back3.flat[i]), _expected_value(float(data.flat[i]), prec)) for i in range(1, data.size))):
                col.violation('C14:array_to_file:masked_as_nan', info, {'got': back3})
            # a Spectrum / masked array in which nothing is masked through the generic writer: plain values
            for kind_u, arr_u in (('Spectrum', dadi.Spectrum(data.copy(), mask_corners=False)), ('MaskedArray', np.ma.masked_array(data.copy(), mask=np.zeros(shape, bool))),
                                  ('MaskedArray_nomask', np.ma.masked_array(data.copy()))):
                try:
                    Numerics.array_to_file(arr_u, fn, precision=prec)
                    back4 = Numerics.array_from_file(fn)
                    col.tick(transitions=2)
                    if not (back4.shape == shape and all(_same_float(float(back4.flat[i]), _expected_value(float(data.flat[i]), prec)) for i in range(data.size))):
                        col.violation('C14:array_to_file:unmasked_%s' % kind_u, info, {'got': back4})
                except Exception as e:
                    col.violation('C14:array_to_file:unmasked_%s:raises' % kind_u, info, '%s: %s' % (type(e).__name__, e))
        # several arrays through ONE open file object (both functions document "file name or open file object"): every ordered pair and the
        # triple of (this shape, a vector, a matrix), written one after the other and read back by successive calls on one handle
        others = [(3,), (2, 2)]
        seqs = [[shape, o] for o in others] + [[o, shape] for o in others] + [[shape, others[0], others[1]], [shape, shape]]
        for seq in seqs:
            arrs = []
            for q, sh in enumerate(seq):
                a = _dense(sh) + q
                arrs.append(a)
            fn2 = os.path.join(tmp, 'seq.txt')
            try:
                with open(fn2, 'w') as fid:
                    for q, a in enumerate(arrs):
                        Numerics.array_to_file(a, fid, precision=17, comment_lines=['array %d' % q])
                backs = []
                with open(fn2, 'r') as fid:
                    for q in range(len(arrs)):
                        backs.append(Numerics.array_from_file(fid, return_comments=True))
                col.tick(transitions=2 * len(arrs))
                n += 1
                for q, (a, (b, rc)) in enumerate(zip(arrs, backs)):
                    if b.shape != a.shape or not np.array_equal(b, a) or list(rc) != ['array %d' % q]:
                        col.violation('C14:array_roundtrip:sequence_in_one_file', dict(p, sequence=[list(x) for x in seq], position=q), {'got': b, 'exp': a, 'comments': list(rc)})
                        break
            except Exception as e:
                col.violation('C14:array_roundtrip:sequence_in_one_file', dict(p, sequence=[list(x) for x in seq]), '%s: %s' % (type(e).__name__, str(e)[:200]))
        col.tick(states=n, traces=n)
    finally:
        shutil.rmtree(tmp, ignore_errors=True)
    col.distinct('nontrivial', ('array_io', shape))


def case_pickle(col, p):
    import dadi
    shape = tuple(p['shape'])
    d = len(shape)
    n = 0
    for (mname, mask), lab, folded in itertools.product(_mask_patterns(shape), LABELSETS, (False, True)):
        labels = _labels(lab, d)
        data = _dense(shape)
        data.flat[0] = float('nan'); data.flat[-1] = 5e-324
        fs = dadi.Spectrum(data.copy(), mask=mask.copy(), mask_corners=False, pop_ids=list(labels) if labels else None)
        if folded:
            fs = fs.fold()
        fs.extrap_x = 0.0625
        src_d, src_m = np.asarray(fs.data).copy(), np.ma.getmaskarray(fs).copy()
        clones = []
        for proto in range(2, pickle.HIGHEST_PROTOCOL + 1):
            clones.append(('pickle%d' % proto, lambda fs=fs, proto=proto: pickle.loads(pickle.dumps(fs, protocol=proto))))
        clones.append(('deepcopy', lambda fs=fs: copy.deepcopy(fs)))
        clones.append(('copy', lambda fs=fs: copy.copy(fs)))
        clones.append(('method_copy', lambda fs=fs: fs.copy()))
        for cname, fn in clones:
            info = dict(p, mask=mname, labels=lab, folded=folded, how=cname)
            try:
                back = fn()
            except Exception as e:
                col.violation('C14:%s:raises' % cname.rstrip('0123456789'), info, '%s: %s' % (type(e).__name__, e))
                continue
            col.tick(transitions=1)
            n += 1
            key = 'C14:%s' % cname.rstrip('0123456789')
            if not isinstance(back, dadi.Spectrum):
                col.violation(key + ':type', info, str(type(back)))
                continue
            bd = np.asarray(back.data)
            if bd.shape != shape or not all(_same_float(float(bd[i]), float(src_d[i])) for i in np.ndindex(*shape)):
                col.violation(key + ':value', info, {'got': bd, 'exp': src_d})
            if not np.array_equal(np.ma.getmaskarray(back), src_m):
                col.violation(key + ':mask', info, {'got': np.ma.getmaskarray(back).astype(int), 'exp': src_m.astype(int)})
            if bool(back.folded) != folded or (list(back.pop_ids) if back.pop_ids is not None else None) != labels:
                col.violation(key + ':attributes', info, {'folded': back.folded, 'pop_ids': back.pop_ids})
            if getattr(back, 'extrap_x', None) != 0.0625:
                col.violation(key + ':extrap_x', info, {'got': getattr(back, 'extrap_x', None)})
            if cname != 'copy' and np.shares_memory(np.asarray(back.data), np.asarray(fs.data)):
                col.violation(key + ':aliases_source', info, '')
    col.tick(states=n, traces=n)
    col.distinct('nontrivial', ('pickle', shape))


def case_layout(col, p):
    """spectra that are non-contiguous views (transposed by reorder_pops, Fortran order, strided slices) must round-trip too"""
    import dadi
    shape, gz = tuple(p['shape']), p['gz']
    d = len(shape)
    tmp = _tmp()
    n = 0
    try:
        fn = os.path.join(tmp, 'l.fs' + ('.gz' if gz else ''))
        base = _dense(shape)
        mask = np.zeros(shape, bool); mask.flat[1] = True
        labels = ['L%d' % i for i in range(d)]
        variants = []
        for perm in itertools.permutations(range(1, d + 1)):
            variants.append(('reorder%s' % (perm,), lambda perm=perm: dadi.Spectrum(base.copy(), mask=mask.copy(), mask_corners=False, pop_ids=list(labels)).reorder_pops(list(perm))))
        variants.append(('fortran', lambda: dadi.Spectrum(np.asfortranarray(base), mask=np.asfortranarray(mask), mask_corners=False, pop_ids=list(labels))))
        big = np.zeros(tuple(2 * s for s in shape)); big[tuple(slice(None, None, 2) for _ in shape)] = base
        variants.append(('strided', lambda: dadi.Spectrum(big, mask_corners=False)[tuple(slice(None, None, 2) for _ in shape)]))
        variants.append(('reversed', lambda: dadi.Spectrum(base.copy(), mask=mask.copy(), mask_corners=False)[tuple(slice(None, None, -1) for _ in shape)]))
        for name, mk in variants:
            fs = mk()
            src_d, src_m = np.array(fs.data, copy=True), np.ma.getmaskarray(fs).copy()
            ids = list(fs.pop_ids) if fs.pop_ids is not None else None
            info = dict(p, layout=name)
            try:
                fs.to_file(fn, precision=17)
                back = dadi.Spectrum.from_file(fn, mask_corners=False)
            except Exception as e:
                col.violation('C14:layout:raises', info, '%s: %s' % (type(e).__name__, e))
                continue
            col.tick(transitions=2)
            n += 1
            _compare(col, 'C14:layout_roundtrip', info, back, src_d, src_m, False, ids, 17)
            for proto in (2, pickle.HIGHEST_PROTOCOL):
                b2 = pickle.loads(pickle.dumps(fs, protocol=proto))
                col.tick(transitions=1)
                _compare(col, 'C14:layout_pickle', dict(info, proto=proto), b2, src_d, src_m, False, ids, 17)
        col.tick(states=n, traces=n)
    finally:
        shutil.rmtree(tmp, ignore_errors=True)
    col.distinct('nontrivial', ('layout', shape, gz))


CASES = {'integer_valued': case_integer_valued, 'layout': case_layout, 'mask_subsets': case_mask_subsets, 'values': case_values, 'format': case_format, 'array_io': case_array_io, 'pickle': case_pickle}


def _dispatch(col, case):
    CASES[case['kind']](col, case)


def replay(ctx, case):
    _dispatch(ctx, case)


def run(ctx):
    cases = []
    for shape in SHAPES:
        for prec in (16, 17, 18):
            for gz in (False, True):
                cases.append({'kind': 'values', 'shape': shape, 'prec': prec, 'gz': gz})
    fshapes = [(3,), (1, 4), (2, 3), (2, 1, 3)] + ([] if ctx.quick else [(2, 2, 2, 2), (2, 2, 2, 2, 2)])
    for shape in fshapes:
        for folded in (False, True):
            for gz in (False, True):
                cases.append({'kind': 'format', 'shape': shape, 'folded': folded, 'gz': gz})
                if folded:
                    cases.append({'kind': 'format', 'shape': shape, 'folded': folded, 'gz': gz, 'assigned': True})
    cases.append({'kind': 'integer_valued'})
    if ctx.quick:
        ctx.note('quick: format lattice on shapes up to 3-D; thorough adds the 4-D and 5-D shapes (value lattice always covers all shapes)')
    if not ctx.quick:
        # every one of the 2^n masks of small spectra
        for shape in [(3,), (5,), (13,), (1, 4), (2, 3), (3, 3), (3, 4), (4, 4), (1, 1, 2), (2, 2, 3), (2, 2, 2, 2)]:
            n = int(np.prod(shape))
            step = 512
            for folded in (False, True):
                for lo in range(0, 2 ** n, step):
                    cases.append({'kind': 'mask_subsets', 'shape': shape, 'folded': folded, 'range': [lo, min(2 ** n, lo + step)]})
        ctx.note('thorough: all 2^n masks for shapes (3,), (5,), (13,), (1,4), (2,3), (3,3), (3,4), (4,4), (1,1,2), (2,2,3), (2,2,2,2) through file and pickle round trips')
    for shape in SHAPES:
        cases.append({'kind': 'array_io', 'shape': shape})
    for shape in [(3,), (2, 3), (3, 2), (2, 3, 4), (2, 3, 2, 3)]:
        for gz in (False, True):
            cases.append({'kind': 'layout', 'shape': shape, 'gz': gz})
    for shape in [(3,), (1, 4), (2, 3), (2, 1, 3), (2, 2, 2, 2), (2, 2, 2, 2, 2)]:
        cases.append({'kind': 'pickle', 'shape': shape})
    from mc.evidence import Collector
    a, b = Collector(), Collector()
    _dispatch(a, cases[0]); _dispatch(b, cases[0])
    assert a.viol_count == b.viol_count and a.counters == b.counters
    cases.sort(key=lambda c: -int(np.prod(c.get('shape', (1,)))) * (20 if c['kind'] == 'format' else 1))
    explore.pmap(ctx, _dispatch, cases, chunk=1)
    ctx.tick(evaluations=len(cases))
    for c in (cases[0], cases[len(cases) // 2], cases[-1]):
        ctx.sample(c)
    ctx.rule = ('values: shape x every position x 13 special values x precision x gz; format: mask pattern (none/all/corners/every singleton) x 5 '
                'label sets x 6 comment sets x foldmaskinfo x mask_corners x folded x gz; array writer/reader crosses; pickle 2..5, copy, deepcopy. '
                'distinct_nontrivial = distinct (part, shape, folded/precision, gz) groups, each fully compared after a real write+read')
    ctx.assume('labels contain no double quote or newline and comments no newline (the file format cannot represent them)')
    ctx.assume('"same values to the written precision" is read as float("%.<p>g" % v), bitwise incl. sign of zero and non-finite values')
