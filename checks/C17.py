"""C17 – DFE integration is the documented quadrature of a schedule-independent cache.

S. SCHEDULES: the real Cache1D/Cache2D._multiple_processes and _worker_sfs run as baton-controlled threads behind a fake `multiprocessing`
   (mc/sched.py); ALL interleavings of queue / result-list / start / join operations are explored (stateful, symmetry-reduced) for
   W workers x J jobs, and cross-checked by preemption-bounded exploration without pruning; bounded (<=2 preemptions) for W in {8,16}.
   Terminal invariant: cache bitwise equal to the single-process cache, every job computed exactly once, no deadlock / livelock.
F. FAULTS: a worker raising on every subset of jobs, under every schedule -> the constructor must raise, never return a cache with holes.
M. MERGE: every non-empty sub-multiset (with duplicates and permutations) of split caches; conflicting caches.
Q. QUADRATURE: 1-D and 2-D integration vs an independently coded quadrature over closed-form caches; theta linearity; selection-free caches;
   point masses (cached and on demand, repeated with different theta); mixtures; compiled pdfs vs reference formulas.
"""
import contextlib
import io
import itertools
import math
import os
import sys

import numpy as np

from mc import explore, sched

LEVEL = 'model_checking'
NS1 = (6,)
NS2 = (3, 2)


# ------------------------------------------------------------------------------------------------ closed-form demographic models
class Counter(object):
    def __init__(self):
        self.calls = []


def make_demo1(counter=None, fail=(), sel=True):
    import dadi

    def demo1(params, ns, pts):
        gamma = params[-1]
        if counter is not None:
            counter.calls.append(float(gamma))
        if any(abs(gamma - f) < 1e-12 for f in fail):
            raise RuntimeError('injected failure at gamma=%r' % gamma)
        i = np.arange(ns[0] + 1, dtype=float)
        g = gamma if sel else 0.0
        data = params[0] * np.exp(g * i / 50.0) / np.maximum(i, 1) * (1.0 + 0.01 * g / (1 + abs(g)))
        fs = dadi.Spectrum(data)
        fs.extrap_x = 0.05
        return fs
    demo1.__name__ = 'demo1'
    return demo1


def make_demo2(counter=None, fail=(), sel=True):
    import dadi

    def demo2(params, ns, pts):
        g1, g2 = params[-2], params[-1]
        if counter is not None:
            counter.calls.append((float(g1), float(g2)))
        if any(abs(g1 - f[0]) < 1e-12 and abs(g2 - f[1]) < 1e-12 for f in fail):
            raise RuntimeError('injected failure at gammas=%r,%r' % (g1, g2))
        i = np.arange(ns[0] + 1, dtype=float)[:, None]
        j = np.arange(ns[1] + 1, dtype=float)[None, :]
        a, b = (g1, g2) if sel else (0.0, 0.0)
        data = params[0] * np.exp(a * i / 40.0 + b * j / 30.0) / (1.0 + i + 2 * j) * (1 + 0.01 * a / (1 + abs(a)) + 0.02 * b / (1 + abs(b)))
        fs = dadi.Spectrum(data)
        fs.extrap_x = 0.05
        return fs
    demo2.__name__ = 'demo2'
    return demo2


@contextlib.contextmanager
def quiet():
    old = sys.stderr
    sys.stderr = io.StringIO()
    try:
        yield
    finally:
        sys.stderr = old


# ------------------------------------------------------------------------------------------------ S / F: schedules and faults
def build_cache(kind, W, J, counter, fail_idx=(), split_jobs=1, this_job_id=0, additional=()):
    """returns a thunk constructing the cache with W worker 'processes'"""
    import dadi.DFE as DFE
    if kind == '1d':
        probe = DFE.Cache1D.__new__(DFE.Cache1D)
        gam = -np.logspace(np.log10(50.0), np.log10(0.1), J)
        gam = np.concatenate((gam, additional))
        fail = [gam[k] for k in fail_idx]
        demo = make_demo1(counter, fail)
        return lambda cpus=W: DFE.Cache1D((2.0,), NS1, demo, [10], gamma_bounds=(0.1, 50.0), gamma_pts=J, additional_gammas=list(additional), cpus=cpus)
    else:
        gam = -np.logspace(np.log10(50.0), np.log10(0.1), J)
        gam = np.concatenate((gam, additional))
        pairs = [(a, b) for a in gam for b in gam]
        fail = [pairs[k] for k in fail_idx]
        demo = make_demo2(counter, fail)
        return lambda cpus=W: DFE.Cache2D((2.0,), NS2, demo, [10], gamma_bounds=(0.1, 50.0), gamma_pts=J, additional_gammas=list(additional), cpus=cpus,
                                          split_jobs=split_jobs, this_job_id=this_job_id)


def spectra_equal(a, b):
    a, b = np.asarray(a), np.asarray(b)
    return a.shape == b.shape and bool(np.array_equal(np.asarray(a, dtype=float), np.asarray(b, dtype=float)))


def case_schedule(col, p):
    kind, W, J = p['cache'], p['W'], p['J']
    fail_idx = tuple(p.get('fail', ()))
    die_idx = tuple(p.get('die', ()))
    split = p.get('split')           # (split_jobs, this_job_id): the part of the cache built by this job
    additional = tuple(p.get('additional', ()))
    njobs = J if kind == '1d' else J * J
    fatal = None
    if die_idx:
        # hard death of the worker that dequeues job k (work items are (ii, gamma) / (ii, jj, gamma1, gamma2))
        def fatal(item):
            if not isinstance(item, tuple):
                return False
            k = item[0] if kind == '1d' else item[0] * J + item[1]
            return k in die_idx
    counter = Counter()
    # reference: single process
    ref_counter = Counter()
    ref = None
    if not fail_idx:
        ref = build_cache(kind, 1, J, ref_counter, additional=additional, **({'split_jobs': split[0], 'this_job_id': split[1]} if split else {}))(1)
    outcomes = set()
    info = dict(p)

    def body():
        counter.calls = []
        with quiet():
            return build_cache(kind, W, J, counter, fail_idx, additional=additional, **({'split_jobs': split[0], 'this_job_id': split[1]} if split else {}))()

    def check(outcome, sc, choices):
        status, val = outcome
        col.tick(transitions=len(sc.points))
        if status == 'stuck':
            key = 'deadlock' if isinstance(val, sched.Deadlock) else 'livelock'
            outcomes.add(key)
            col.violation('C17:Cache%s:_multiple_processes:%s' % (kind.upper(), key), dict(info, schedule=choices), str(val)[:300])
            return
        if die_idx:
            if status == 'ok':
                outcomes.add('returned')
                col.violation('C17:Cache%s:dead_worker_absorbed' % kind.upper(), dict(info, schedule=choices),
                              'constructor returned a cache although the worker holding job(s) %s died; holes=%s' % (list(die_idx), _holes(val)))
            else:
                outcomes.add('raised:' + type(val).__name__)
            return
        if fail_idx:
            if status == 'ok':
                holes = _holes(val)
                outcomes.add('returned')
                col.violation('C17:Cache%s:failed_worker_absorbed' % kind.upper(), dict(info, schedule=choices),
                              'constructor returned a cache although the model raised for job(s) %s; holes=%s' % (list(fail_idx), holes))
            else:
                outcomes.add('raised:' + type(val).__name__)
            return
        if status == 'raised':
            outcomes.add('raised:' + type(val).__name__)
            col.violation('C17:Cache%s:_multiple_processes:raises' % kind.upper(), dict(info, schedule=choices), '%s: %s' % (type(val).__name__, str(val)[:200]))
            return
        outcomes.add('ok')
        if split or additional:
            # a part of a split cache: same jobs filled (same holes) with the same spectra as the part built by one process
            A_, B_ = np.asarray(val.spectra, dtype=object), np.asarray(ref.spectra, dtype=object)
            same = A_.shape == B_.shape
            if same:
                for x_, y_ in zip(A_.reshape(-1) if A_.ndim <= 2 else A_.reshape(A_.shape[0] * A_.shape[1], -1), B_.reshape(-1) if B_.ndim <= 2 else B_.reshape(B_.shape[0] * B_.shape[1], -1)):
                    if (x_ is None) != (y_ is None) or (x_ is not None and not np.array_equal(np.asarray(x_, dtype=float), np.asarray(y_, dtype=float))):
                        same = False
                        break
            if not same:
                col.violation('C17:Cache%s:schedule_dependent_cache' % kind.upper(), dict(info, schedule=choices), 'split-job part differs from the part built by one process')
            return
        if not spectra_equal(val.spectra, ref.spectra) or not spectra_equal(val.neu_spec if kind == '1d' else 0, ref.neu_spec if kind == '1d' else 0):
            col.violation('C17:Cache%s:schedule_dependent_cache' % kind.upper(), dict(info, schedule=choices), 'cache differs from the single-process cache')
        # every job computed exactly once (+1 neutral evaluation in 1-D)
        calls = counter.calls
        expected = njobs + (1 if kind == '1d' else 0)
        if len(calls) != expected or len(set(map(repr, calls))) < njobs:
            col.violation('C17:Cache%s:job_not_computed_exactly_once' % kind.upper(), dict(info, schedule=choices), {'calls': len(calls), 'expected': expected})

    mode = p['mode']
    if mode == 'stateful':
        st = sched.explore(body, check, preemption_bound=None, stateful=True, max_executions=p.get('cap'), fatal=fatal)
    else:
        st = sched.explore(body, check, preemption_bound=p['bound'], stateful=False, max_executions=p.get('cap'), fatal=fatal)
    col.tick(states=st['states'], traces=st['executions'], executions=st['executions'])
    if st['capped']:
        col.tick(schedule_caps_hit=1)
    col.distinct('outcomes_' + '_'.join(map(str, (kind, W, J, mode))), tuple(sorted(outcomes)))
    col.distinct('nontrivial', ('schedule', kind, W, J, fail_idx, die_idx, mode, p.get('bound'), tuple(split or ()), additional))
    col.observe('executions_%s_W%d_J%d_%s' % (kind, W, J, mode), st['executions'])


def _holes(cache):
    try:
        sp = cache.spectra
        flat = list(sp.flat) if hasattr(sp, 'flat') and sp.dtype == object else []
        return sum(1 for v in flat if v is None)
    except Exception:
        return 'unknown'


def case_real_processes(col, p):
    """free-running pass with real OS processes (the cooperative scheduler hides nothing here: the code shares only Manager proxies)"""
    kind, W, J = p['cache'], p['W'], p['J']
    ref = build_cache(kind, 1, J, None)(1)
    got = build_cache(kind, W, J, None)()
    col.tick(transitions=1, states=1, traces=1)
    if not spectra_equal(got.spectra, ref.spectra):
        col.violation('C17:Cache%s:real_processes_differ' % kind.upper(), dict(p), '')
    col.distinct('nontrivial', ('real', kind, W, J))


# ------------------------------------------------------------------------------------------------ M: split jobs and merge
def case_merge(col, p):
    import copy
    import dadi.DFE as DFE
    J, split = p['J'], p['split']
    full = build_cache('2d', 1, J, None)(1)
    parts = [build_cache('2d', 1, J, None, split_jobs=split, this_job_id=k)(1) for k in range(split)]
    njobs = J * J
    n = 0
    # every job belongs to exactly one part
    owner = {}
    for k, c in enumerate(parts):
        for ii in range(J):
            for jj in range(J):
                if c.spectra[ii][jj] is not None:
                    if (ii, jj) in owner:
                        col.violation('C17:Cache2D:split_jobs:job_in_two_parts', dict(p, job=(ii, jj)), '')
                    owner[(ii, jj)] = k
    if len(owner) != njobs:
        col.violation('C17:Cache2D:split_jobs:jobs_missing', dict(p), {'assigned': len(owner), 'jobs': njobs})
    # every multiset of parts of size <= split+1 in every order
    idxs = list(range(split))
    seqs = set()
    for size in range(1, split + 2):
        for combo in itertools.product(idxs, repeat=size):
            seqs.add(combo)
    if len(seqs) > p.get('max_seqs', 10 ** 9):
        seqs = {s for s in seqs if len(s) <= split or len(set(s)) == split}
    for seq in sorted(seqs):
        caches = [copy.deepcopy(parts[k]) for k in seq]
        # complete = every job is owned by one of the parts listed (a part that owns no job - more split jobs than jobs - is not needed)
        complete = set(k for k in owner.values()) <= set(seq)
        try:
            merged = DFE.Cache2D.merge(caches)
            raised = None
        except ValueError as e:
            raised = e
        except Exception as e:
            col.violation('C17:Cache2D:merge:wrong_exception', dict(p, seq=seq), repr(e))
            continue
        col.tick(transitions=1)
        n += 1
        if complete:
            if raised is not None:
                col.violation('C17:Cache2D:merge:complete_set_rejected', dict(p, seq=seq), str(raised))
            elif not spectra_equal(merged.spectra, full.spectra):
                col.violation('C17:Cache2D:merge:differs_from_single_job_cache', dict(p, seq=seq), '')
        else:
            if raised is None:
                col.violation('C17:Cache2D:merge:incomplete_set_accepted', dict(p, seq=seq), 'missing parts %s' % sorted(set(owner.values()) - set(seq)))
            else:
                # the message names the first hole (row-major)
                first = min((job for job, k in owner.items() if k not in seq))
                if '%d,%d' % first not in str(raised):
                    col.violation('C17:Cache2D:merge:wrong_first_hole', dict(p, seq=seq), {'message': str(raised), 'first_hole': first})
    # conflicts: one altered spectrum in one extra copy, at every position of the list
    if split >= 2:
        for victim in range(split):
            owned = [jb for jb, k in sorted(owner.items()) if k == victim]
            if not owned:
                continue          # more split jobs than jobs: this part is empty
            bad = copy.deepcopy(parts[victim])
            job = owned[0]
            orig = bad.spectra[job[0]][job[1]]
            # gross and slight disagreements (a regenerated job differing in the 7th digit, or only in an entry far below the others)
            alterations = {'x1.5': orig * 1.5, 'rel1e-7': orig * (1.0 + 1e-7), 'one_entry_abs1e-12': None}
            tiny = orig.copy()
            tiny.flat[1] = tiny.flat[1] + 1e-12
            alterations['one_entry_abs1e-12'] = tiny
            base = [copy.deepcopy(c) for c in parts]
            for aname, altered in alterations.items():
                bad.spectra[job[0]][job[1]] = altered
                for pos in range(len(base) + 1):
                    caches = base[:pos] + [bad] + base[pos:]
                    try:
                        DFE.Cache2D.merge([copy.deepcopy(c) for c in caches])
                        col.violation('C17:Cache2D:merge:conflict_absorbed', dict(p, victim=victim, position=pos, alteration=aname),
                                      'a cache whose job %s differs (%s) was merged silently' % (job, aname))
                    except ValueError:
                        pass
                    col.tick(transitions=1)
                    n += 1
    col.tick(states=n, traces=n)
    col.distinct('nontrivial', ('merge', J, split))


# ------------------------------------------------------------------------------------------------ Q: quadrature
def trapz(y, x):
    tot = 0.0 * y[0]
    for k in range(len(x) - 1):
        tot = tot + (x[k + 1] - x[k]) * (y[k + 1] + y[k]) / 2.0
    return tot


def oracle_1d(cache_gammas, spectra, neu, pdf, params, theta, exterior):
    import scipy.integrate
    g = np.asarray(cache_gammas)
    w = pdf(-g, params)
    fs = trapz([w[k] * spectra[k] for k in range(len(g))], g)
    if exterior:
        wn = scipy.integrate.quad(pdf, 0, -g[-1], args=(params,))[0]
        wd = scipy.integrate.quad(pdf, -g[0], np.inf, args=(params,))[0]
        fs = fs + neu * wn + spectra[0] * wd
    return theta * fs


def pdf_lattice_1d():
    from dadi.DFE import PDFs
    return [('exponential', PDFs.exponential, [[0.5], [5.0], [60.0]]),
            ('gamma', PDFs.gamma, [[0.2, 10.0], [1.0, 3.0], [4.0, 2.0]]),
            ('lognormal', PDFs.lognormal, [[0.0, 1.0], [2.0, 0.5], [-1.0, 2.0]]),
            ('beta', PDFs.beta, [[2.0, 3.0], [0.7, 0.7]])]


def case_quad1d(col, p):
    import dadi
    import dadi.DFE as DFE
    J, bounds, additional, sel = p['J'], tuple(p['bounds']), list(p['additional']), p['sel']
    demo = make_demo1(sel=sel)
    cache = DFE.Cache1D((2.0,), NS1, demo, [10], gamma_bounds=bounds, gamma_pts=J, additional_gammas=additional, cpus=1)
    gam = -np.logspace(np.log10(bounds[1]), np.log10(bounds[0]), J)
    spectra = [np.asarray(demo((2.0, g), NS1, None).data) for g in gam]
    neu = np.asarray(demo((2.0, 0.0), NS1, None).data)
    n = 0
    for name, pdf, plist in pdf_lattice_1d():
        for params in plist:
            for ext in (True, False):
                base = None
                for theta in (0.5, 1.0, 3.0):
                    got = cache.integrate(params, None, pdf, theta, None, exterior_int=ext)
                    col.tick(transitions=1)
                    n += 1
                    ex = oracle_1d(gam, spectra, neu, pdf, params, theta, ext)
                    gd = np.asarray(got.data)
                    info = dict(p, pdf=name, params=params, theta=theta, exterior_int=ext)
                    sc = max(float(np.abs(ex).max()), 1e-300)
                    if not float(np.abs(gd - ex).max()) <= 1e-9 * sc:
                        col.violation('C17:Cache1D:integrate:quadrature', info, {'maxerr': float(np.abs(gd - ex).max()), 'scale': sc})
                    else:
                        col.observe('quad1d', float(np.abs(gd - ex).max()) / (1e-9 * sc))
                    if base is None:
                        base = (theta, gd)
                    elif not np.allclose(gd / theta, base[1] / base[0], rtol=1e-13, atol=0):
                        col.violation('C17:Cache1D:integrate:not_linear_in_theta', info, '')
                    if not sel and ext and name != 'beta':
                        # selection has no effect: theta * W * fs with W the total quadrature weight (one up to quadrature error)
                        W = float(gd[1] / (theta * neu[1]))
                        if not np.allclose(gd[1:-1], theta * W * neu[1:-1], rtol=1e-12):
                            col.violation('C17:Cache1D:integrate:selection_free_not_proportional', info, '')
                        # 'one, up to quadrature error': only asserted on grids fine enough for the trapezoid rule to resolve the pdf
                        if p.get('wtol') is not None:
                            if not abs(W - 1.0) <= p['wtol']:
                                col.violation('C17:Cache1D:integrate:total_weight', info, {'W': W})
                            col.observe('W1d_minus_1', abs(W - 1.0) / p['wtol'])
    # point masses: cached gamma, and on demand; repeated with different theta (history)
    from dadi.DFE import PDFs
    pdf, params = PDFs.gamma, [1.0, 3.0]
    for gpos in additional:
        pos = np.asarray(demo((2.0, gpos), NS1, None).data)
        for ppos in (0.0, 0.25, 1.0):
            for theta in (0.5, 3.0, 0.5):
                got = cache.integrate_point_pos(params + [ppos, gpos], None, pdf, theta, None)
                col.tick(transitions=1)
                n += 1
                ex = (1 - ppos) * oracle_1d(gam, spectra, neu, pdf, params, theta, True) + ppos * theta * pos
                if not np.allclose(np.asarray(got.data), ex, rtol=1e-9, atol=0):
                    col.violation('C17:Cache1D:integrate_point_pos:cached_gamma', dict(p, ppos=ppos, gammapos=gpos, theta=theta),
                                  {'got': np.asarray(got.data), 'exact': ex})
    # two and three point masses (Npos), every ordering of the cached positive gammas, unequal proportions
    if len(additional) >= 2:
        for Npos in (2, 3):
            for gs in itertools.product(additional, repeat=Npos):
                for pps in ((0.1, 0.3, 0.2)[:Npos], (0.5, 0.0, 0.25)[:Npos]):
                    flat = []
                    for pp_, g_ in zip(pps, gs):
                        flat += [pp_, g_]
                    for theta in (0.5, 3.0):
                        got = cache.integrate_point_pos(params + flat, None, pdf, theta, None, Npos=Npos)
                        col.tick(transitions=1)
                        n += 1
                        ex = (1 - sum(pps)) * oracle_1d(gam, spectra, neu, pdf, params, theta, True)
                        for pp_, g_ in zip(pps, gs):
                            ex = ex + pp_ * theta * np.asarray(demo((2.0, g_), NS1, None).data)
                        if not np.allclose(np.asarray(got.data), ex, rtol=1e-9, atol=0):
                            col.violation('C17:Cache1D:integrate_point_pos:several_point_masses', dict(p, Npos=Npos, ppos=pps, gammapos=gs, theta=theta),
                                          {'got': np.asarray(got.data), 'exact': ex})
    gnew = 7.5
    posn = np.asarray(demo((2.0, gnew), NS1, None).data)
    for theta in (0.5, 3.0, 1.0):
        got = cache.integrate_point_pos(params + [0.25, gnew], None, pdf, theta, demo)
        col.tick(transitions=1)
        n += 1
        ex = 0.75 * oracle_1d(gam, spectra, neu, pdf, params, theta, True) + 0.25 * theta * posn
        if not np.allclose(np.asarray(got.data), ex, rtol=1e-9, atol=0):
            col.violation('C17:Cache1D:integrate_point_pos:on_demand_gamma', dict(p, gammapos=gnew, theta=theta), {'got': np.asarray(got.data), 'exact': ex})
    try:
        cache.integrate_point_pos(params + [0.25, 123.0], None, pdf, 1.0, None)
        col.violation('C17:Cache1D:integrate_point_pos:missing_gamma_accepted', dict(p), '')
    except IndexError:
        pass
    col.tick(states=n, traces=n)
    col.distinct('nontrivial', ('quad1d', J, bounds, tuple(additional), sel))


def oracle_2d(gam, spectra, pdf, params, theta, exterior):
    """documented 2-D quadrature: interior trapezoid + four edge terms + three corner terms (both neutral, neutral/lethal, lethal/neutral)"""
    import scipy.integrate
    g = np.asarray(gam)
    n = len(g)
    W = np.array([[float(np.squeeze(pdf(np.array([-g[i]]), np.array([-g[j]]), params))) for j in range(n)] for i in range(n)])
    inner = [trapz([W[i, j] * spectra[i][j] for j in range(n)], g) for i in range(n)]
    fs = trapz(inner, g)
    if exterior:
        mx, mn = -g[-1], -g[0]
        f1 = lambda a, b: float(np.squeeze(pdf(np.array([a]), np.array([b]), params)))
        q = lambda fn, lo, hi: scipy.integrate.quad(fn, lo, hi, epsabs=1e-4, epsrel=1e-3)[0]
        w1low = [q(lambda a, b=-g[k]: f1(a, b), mn, np.inf) for k in range(n)]
        w1high = [q(lambda a, b=-g[k]: f1(a, b), 0, mx) for k in range(n)]
        w2low = [q(lambda b, a=-g[k]: f1(a, b), mn, np.inf) for k in range(n)]
        w2high = [q(lambda b, a=-g[k]: f1(a, b), 0, mx) for k in range(n)]
        fs = fs + trapz([spectra[k][0] * w2low[k] for k in range(n)], g)
        fs = fs + trapz([spectra[k][n - 1] * w2high[k] for k in range(n)], g)
        fs = fs + trapz([spectra[0][k] * w1low[k] for k in range(n)], g)
        fs = fs + trapz([spectra[n - 1][k] * w1high[k] for k in range(n)], g)
        dq = lambda alo, ahi, blo, bhi: scipy.integrate.dblquad(lambda b, a: f1(a, b), alo, ahi, lambda _: blo, lambda _: bhi, epsrel=1e-3, epsabs=1e-4)[0]
        fs = fs + spectra[n - 1][n - 1] * dq(0, mx, 0, mx)
        fs = fs + spectra[0][n - 1] * dq(mn, np.inf, 0, mx)
        fs = fs + spectra[n - 1][0] * dq(0, mx, mn, np.inf)
    return theta * fs


def pdf_lattice_2d():
    from dadi.DFE import PDFs
    L = []
    for rho in (-0.9, 0.0, 0.9):
        L.append(('biv_lognormal3', PDFs.biv_lognormal, [1.0, 1.0, rho]))
        L.append(('biv_lognormal5', PDFs.biv_lognormal, [0.5, 2.0, 1.0, 0.6, rho]))
    L.append(('biv_lognormal5_narrow', PDFs.biv_lognormal, [1.5, 3.0, 0.4, 0.4, 0.0]))
    L.append(('biv_ind_gamma2', PDFs.biv_ind_gamma, [1.0, 3.0]))
    L.append(('biv_ind_gamma4', PDFs.biv_ind_gamma, [0.4, 2.0, 5.0, 1.5]))
    L.append(('biv_ind_gamma3', PDFs.biv_ind_gamma, [2.0, 1.0, 0.0]))
    L.append(('biv_ind_gamma5', PDFs.biv_ind_gamma, [0.3, 1.2, 4.0, 2.0, 0.0]))
    # much of the mass below the smallest cached |gamma| in both populations (effectively neutral corner and edges carry real weight)
    L.append(('biv_lognormal3_near_neutral', PDFs.biv_lognormal, [-3.0, 1.0, 0.3]))
    L.append(('biv_ind_gamma4_near_neutral', PDFs.biv_ind_gamma, [0.2, 0.5, 0.3, 0.4]))
    # broad exchangeable DFEs (appended last so that the indices used elsewhere stay): real joint mass in the corners where one gamma is below the
    # smallest and the other above the largest cached value
    L.append(('biv_lognormal3_broad', PDFs.biv_lognormal, [1.5, 3.0, -0.8]))
    L.append(('biv_ind_gamma2_broad', PDFs.biv_ind_gamma, [0.3, 30.0]))
    return L


def case_quad2d(col, p):
    import dadi.DFE as DFE
    J, bounds, additional, sel = p['J'], tuple(p['bounds']), list(p['additional']), p['sel']
    demo = make_demo2(sel=sel)
    cache = DFE.Cache2D((2.0,), NS2, demo, [10], gamma_bounds=bounds, gamma_pts=J, additional_gammas=additional, cpus=1)
    gam = -np.logspace(np.log10(bounds[1]), np.log10(bounds[0]), J)
    spectra = [[np.asarray(demo((2.0, a, b), NS2, None).data) for b in gam] for a in gam]
    name, pdf, params = pdf_lattice_2d()[p['pdf_index']]
    n = 0
    info0 = dict(p, pdf=name, params=params)
    res = {}
    for ext in (True, False):
        for theta in (0.5, 3.0):
            got = cache.integrate(params, None, pdf, theta, None, exterior_int=ext)
            col.tick(transitions=1)
            n += 1
            gd = np.asarray(got.data)
            res[(ext, theta)] = gd
            ex = oracle_2d(gam, spectra, pdf, params, theta, ext)
            sc = max(float(np.abs(ex).max()), 1e-300)
            tol = 1e-9 if not ext else 2e-3      # tails use adaptive quadrature with epsrel 1e-3 in both codes
            if not float(np.abs(gd - ex).max()) <= tol * sc:
                col.violation('C17:Cache2D:integrate:quadrature', dict(info0, theta=theta, exterior_int=ext), {'maxerr': float(np.abs(gd - ex).max()), 'scale': sc})
            else:
                col.observe('quad2d_ext' if ext else 'quad2d_int', float(np.abs(gd - ex).max()) / (tol * sc))
        if not np.allclose(res[(ext, 0.5)] / 0.5, res[(ext, 3.0)] / 3.0, rtol=1e-12, atol=0):
            col.violation('C17:Cache2D:integrate:not_linear_in_theta', dict(info0, exterior_int=ext), '')
    if not sel:
        neu = spectra[0][0]
        gd = res[(True, 3.0)]
        W = float(gd[1, 1] / (3.0 * neu[1, 1]))
        if not np.allclose(gd[~np.isnan(gd)].ravel()[1:-1], (3.0 * W * neu).ravel()[1:-1], rtol=1e-9):
            col.violation('C17:Cache2D:integrate:selection_free_not_proportional', info0, '')
        if p.get('wtol') is not None:
            col.observe('W2d_minus_1', abs(W - 1.0) / p['wtol'])
            if not abs(W - 1.0) <= p['wtol']:
                col.violation('C17:Cache2D:integrate:total_weight', info0, {'W': W})
    # point masses: quadrant weights
    if additional:
        gp1, gp2 = additional[0], additional[-1]
        pp = np.asarray(demo((2.0, gp1, gp2), NS2, None).data)
        negneg = oracle_2d(gam, spectra, pdf, params, 1.0, True)
        Wm = np.array([[float(np.squeeze(pdf(np.array([-a]), np.array([-b]), params))) for b in gam] for a in gam])
        m2 = [trapz([Wm[i, j] for i in range(J)], gam) for j in range(J)]       # marginal of pop 2
        m1 = [trapz([Wm[i, j] for j in range(J)], gam) for i in range(J)]       # marginal of pop 1
        posneg = trapz([m2[j] * np.asarray(demo((2.0, gp1, gam[j]), NS2, None).data) for j in range(J)], gam)
        negpos = trapz([m1[i] * np.asarray(demo((2.0, gam[i], gp2), NS2, None).data) for i in range(J)], gam)
        for (pp1, pp2), rho, theta in itertools.product([(0.0, 0.0), (0.2, 0.2), (0.1, 0.4), (1.0, 1.0)], (0.0, 0.5, 1.0), (1.0, 2.5)):
            got = cache.integrate_point_pos(list(params) + [pp1, gp1, pp2, gp2], None, pdf, theta, rho=rho)
            col.tick(transitions=1)
            n += 1
            s = math.sqrt(pp1 * pp2)
            w_pp = pp1 * pp2 + rho * (s - pp1 * pp2)
            w_pn = (1 - rho) * pp1 * (1 - pp2)
            w_np = (1 - rho) * (1 - pp1) * pp2
            w_nn = (1 - pp1) * (1 - pp2) + rho * (1 - s - (1 - pp1) * (1 - pp2))
            ex = theta * (w_pp * pp + w_pn * posneg + w_np * negpos + w_nn * negneg)
            gd = np.asarray(got.data if hasattr(got, 'data') and not isinstance(got, np.ndarray) else got)
            gd = np.asarray(gd, dtype=float)
            sc = float(np.abs(ex).max())
            if not float(np.nanmax(np.abs(gd - ex))) <= 2e-3 * sc:
                col.violation('C17:Cache2D:integrate_point_pos:quadrant_weights', dict(info0, ppos=(pp1, pp2), rho=rho, theta=theta),
                              {'maxerr': float(np.nanmax(np.abs(gd - ex))), 'scale': sc})
            if abs(w_pp + w_pn + w_np + w_nn - 1) > 1e-12:
                col.violation('harness:C17:quadrant_weights', dict(info0), '')
        # symmetric variant = general variant with equal point masses
        if len(params) in (3, 5) and name.startswith('biv_lognormal'):
            a = cache.integrate_symmetric_point_pos(list(params) + [0.2, gp1], None, pdf, 2.0, None)
            b = cache.integrate_point_pos(list(params) + [0.2, gp1, 0.2, gp1], None, pdf, 2.0, rho=params[-1])
            col.tick(transitions=2)
            if not np.allclose(np.asarray(a, dtype=float), np.asarray(b, dtype=float), rtol=1e-12, equal_nan=True):
                col.violation('C17:Cache2D:integrate_symmetric_point_pos:differs_from_general', info0, '')
    col.tick(states=n, traces=n)
    col.distinct('nontrivial', ('quad2d', J, bounds, tuple(additional), sel, name))


def case_mixture(col, p):
    import dadi.DFE as DFE
    from dadi.DFE import PDFs
    J, bounds = 5, (0.1, 50.0)
    add = [4.0]
    d1, d2 = make_demo1(), make_demo2()
    # a 1-D cache for the perfectly-correlated component must live on the 2-D sample space: use a 2-D spectrum-valued 1-D model
    import dadi

    def demo1_2d(params, ns, pts):
        g = params[-1]
        return d2(tuple(params[:-1]) + (g, g), ns, pts)
    demo1_2d.__name__ = 'demo1_2d'
    s1 = DFE.Cache1D((2.0,), NS2, demo1_2d, [10], gamma_bounds=bounds, gamma_pts=J, additional_gammas=add, cpus=1)
    s2 = DFE.Cache2D((2.0,), NS2, d2, [10], gamma_bounds=bounds, gamma_pts=J, additional_gammas=add, cpus=1)
    n = 0
    for p2d, rho, theta in itertools.product((0.0, 0.3, 1.0), (0.0, 0.6), (1.0, 2.0)):
        params = [1.0, 0.8, rho, p2d]
        for ext in (True, False):
            got = DFE.mixture(params, None, s1, s2, PDFs.lognormal, PDFs.biv_lognormal, theta, None, exterior_int=ext)
            a = s1.integrate(params[:2], None, PDFs.lognormal, theta, None, exterior_int=ext)
            b = s2.integrate(params[:3], None, PDFs.biv_lognormal, theta, None, exterior_int=ext)
            col.tick(transitions=3)
            n += 1
            ex = (1 - p2d) * np.asarray(a.data) + p2d * np.asarray(b.data)
            if not np.allclose(np.asarray(got.data), ex, rtol=1e-12, equal_nan=True):
                col.violation('C17:mixture:weights', dict(p, p2d=p2d, rho=rho, theta=theta, exterior_int=ext), '')
        for fn_name in ('mixture_symmetric_point_pos', 'mixture_point_pos'):
            import dadi.DFE.Cache2D_mod as C2
            fn = getattr(C2, fn_name)
            if fn_name == 'mixture_symmetric_point_pos':
                pr = [1.0, 0.8, rho, 0.2, 4.0, p2d]
                f1 = s1.integrate_point_pos([1.0, 0.8, 0.2, 4.0], None, PDFs.lognormal, theta, Npos=1)
                f2 = s2.integrate_symmetric_point_pos([1.0, 0.8, rho, 0.2, 4.0], None, PDFs.biv_lognormal, theta, None)
            else:
                pr = [1.0, 0.8, rho, 0.2, 4.0, 0.1, 4.0, p2d]
                f1 = s1.integrate_point_pos([1.0, 0.8, 0.2, 4.0], None, PDFs.lognormal, theta, Npos=1)
                f2 = s2.integrate_point_pos([1.0, 0.8, rho, 0.2, 4.0, 0.1, 4.0], None, PDFs.biv_lognormal, theta, rho=rho)
            try:
                got = fn(pr, None, s1, s2, PDFs.lognormal, PDFs.biv_lognormal, theta, None)
            except Exception as e:
                col.violation('C17:%s:raises' % fn_name, dict(p, p2d=p2d, rho=rho, theta=theta), '%s: %s' % (type(e).__name__, e))
                continue
            col.tick(transitions=1)
            ex = (1 - p2d) * np.asarray(f1, dtype=float) + p2d * np.asarray(f2, dtype=float)
            if not np.allclose(np.asarray(got, dtype=float), ex, rtol=1e-12, equal_nan=True):
                col.violation('C17:%s:weights' % fn_name, dict(p, p2d=p2d, rho=rho, theta=theta), '')
    # Vourlaki et al. mixture: six components (both negative equal / independent; positive in one, the other gamma-distributed; both positive)
    from dadi.DFE import Vourlaki2022
    import scipy.integrate
    gpos = 4.0
    gam = np.asarray(s2.gammas, dtype=float)
    ipos = int(np.where(gam == gpos)[0][0])
    nneg = len(s2.neg_gammas)
    neg = np.asarray(s2.neg_gammas, dtype=float)
    S2 = np.asarray(s2.spectra, dtype=float)

    def tail_mix(rows, alpha, beta):
        # rows[k] = cached spectrum with the negative population at neg[k]; trapezoid over the cached grid + tails at the ends
        w = np.array([PDFs.gamma(-g, [alpha, beta]) for g in neg])
        out = np.zeros_like(rows[0])
        for k in range(nneg - 1):
            out = out + 0.5 * (neg[k + 1] - neg[k]) * (w[k] * rows[k] + w[k + 1] * rows[k + 1])
        w_neu = scipy.integrate.quad(PDFs.gamma, 0, -neg[-1], args=[alpha, beta])[0]
        w_del = scipy.integrate.quad(PDFs.gamma, -neg[0], np.inf, args=[alpha, beta])[0]
        return out + rows[0] * w_del + rows[-1] * w_neu
    for alpha, beta_ in ((0.2, 10.0), (1.5, 2.0)):
        comp = {
            'm5': np.asarray(s1.integrate([alpha, beta_], None, PDFs.gamma, 1, None), dtype=float),
            'm6': np.asarray(s2.integrate([alpha, beta_], None, PDFs.biv_ind_gamma, 1, None, exterior_int=True), dtype=float),
            'm2': S2[ipos, ipos],
            'm4': tail_mix([S2[ipos, k] for k in range(nneg)], alpha, beta_),     # population 1 positive, population 2 negative
            'm7': tail_mix([S2[k, ipos] for k in range(nneg)], alpha, beta_),     # population 2 positive, population 1 negative
        }
        for w, ch, cp, theta in itertools.product((0.0, 0.3, 1.0), (0.0, 0.5, 1.0), (0.0, 0.4, 1.0), (1.0, 2.0)):
            pr = [alpha, beta_, w, gpos, ch, cp]
            try:
                got = Vourlaki2022.Vourlaki_mixture(pr, None, s1, s2, theta, None)
            except Exception as e:
                col.violation('C17:Vourlaki_mixture:raises', dict(p, params=pr, theta=theta), '%s: %s' % (type(e).__name__, e))
                continue
            col.tick(transitions=1)
            n += 1
            ex = theta * (comp['m5'] * (1 - w) * (1 - ch) + comp['m6'] * (1 - w) * ch * (1 - cp) + comp['m7'] * (1 - w) * ch * cp
                          + comp['m2'] * w * (1 - ch) + comp['m2'] * w * ch * cp + comp['m4'] * w * ch * (1 - cp))
            if not np.allclose(np.asarray(got, dtype=float), ex, rtol=1e-10, atol=1e-13 * float(np.abs(ex).max())):
                col.violation('C17:Vourlaki_mixture:weights', dict(p, params=pr, theta=theta),
                              {'maxrel': float(np.abs(np.asarray(got, dtype=float) - ex).max() / np.abs(ex).max())})
    col.tick(states=n, traces=n)
    col.distinct('nontrivial', ('mixture',))


def case_pdfs(col, p):
    """compiled bivariate densities vs the Python reference formulas and vs scipy"""
    from dadi.DFE import PDFs
    import scipy.stats
    xs = np.array([1e-6, 1e-3, 0.05, 0.7, 1.0, 3.3, 40.0, 1e3, 1e4])
    n = 0
    for rho in (-0.9, -0.3, 0.0, 0.5, 0.9):
        for params in ([0.3, 1.2, rho], [0.0, 2.0, 0.5, 1.5, rho], [-1.0, -1.0, 2.5, 0.3, rho]):
            a = PDFs.biv_lognormal(xs, xs[::-1].copy(), params)
            b = PDFs.biv_lognormal_py(xs, xs[::-1].copy(), params)
            col.tick(transitions=2)
            n += 1
            if not np.allclose(a, b, rtol=1e-10, atol=1e-300):
                col.violation('C17:PDFs:biv_lognormal:compiled_vs_python', dict(p, params=params), {'maxrel': float(np.nanmax(np.abs(a / np.where(b == 0, 1, b) - 1)))})
            if rho == 0.0:
                if len(params) == 3:
                    mu1 = mu2 = params[0]; s1 = s2 = params[1]
                else:
                    mu1, mu2, s1, s2 = params[:4]
                ref = np.outer(scipy.stats.lognorm.pdf(xs, s1, scale=np.exp(mu1)), scipy.stats.lognorm.pdf(xs[::-1], s2, scale=np.exp(mu2)))
                if not np.allclose(a, ref, rtol=1e-10, atol=1e-300):
                    col.violation('C17:PDFs:biv_lognormal:vs_scipy', dict(p, params=params), '')
    for params in ([0.18, 2.0], [0.3, 5.0], [0.5, 1.0], [1.0, 3.0], [2.5, 0.7], [0.4, 2.0, 5.0, 1.5], [3.0, 0.2, 0.1, 9.0], [0.7, 1.1, 0.0], [0.3, 1.2, 4.0, 2.0, 0.0]):
        a = PDFs.biv_ind_gamma(xs, xs[::-1].copy(), params)
        b = PDFs.biv_ind_gamma_py(xs, xs[::-1].copy(), params)
        col.tick(transitions=2)
        n += 1
        if len(params) in (2, 3):
            a1 = a2 = params[0]; b1 = b2 = params[1]
        else:
            a1, a2, b1, b2 = params[:4]
        ref = np.outer(scipy.stats.gamma.pdf(xs, a1, scale=b1), scipy.stats.gamma.pdf(xs[::-1], a2, scale=b2))
        if not np.allclose(a, b, rtol=1e-10, atol=1e-300):
            col.violation('C17:PDFs:biv_ind_gamma:compiled_vs_python', dict(p, params=params), {'maxrel': float(np.nanmax(np.abs(a / np.where(b == 0, 1, b) - 1)))})
        if not np.allclose(a, ref, rtol=1e-9, atol=1e-300):
            col.violation('C17:PDFs:biv_ind_gamma:vs_scipy', dict(p, params=params), {'maxrel': float(np.nanmax(np.abs(a / np.where(ref == 0, 1, ref) - 1)))})
    # every rectangular pair of vector lengths (the plotting helpers and marginalisations evaluate the densities on non-square grids); the shapes
    # with fewer x than y values first
    shapes = [nm for nm in itertools.product(range(1, 10), repeat=2) if (nm[0] > nm[1]) == bool(p.get('wide'))]
    for (nx, ny) in shapes:
        for nm, fc, fpy, params in (('biv_lognormal', PDFs.biv_lognormal, PDFs.biv_lognormal_py, [0.0, 2.0, 0.5, 1.5, 0.5]),
                                    ('biv_ind_gamma', PDFs.biv_ind_gamma, PDFs.biv_ind_gamma_py, [0.4, 2.0, 5.0, 1.5])):
            x, y = xs[:nx].copy(), xs[::-1][:ny].copy()
            a = np.asarray(fc(x, y, params), dtype=float)
            b = np.asarray(fpy(x, y, params), dtype=float)
            col.tick(transitions=2)
            n += 1
            if a.shape != b.shape or not np.allclose(a, b, rtol=1e-10, atol=1e-300):
                col.violation('C17:PDFs:%s:compiled_vs_python' % nm, dict(p, params=params, lengths=(nx, ny)),
                              {'shape_compiled': a.shape, 'shape_python': b.shape})
    col.tick(states=n, traces=n)
    col.distinct('nontrivial', ('pdfs', bool(p.get('wide'))))


CASES = {'schedule': case_schedule, 'real': case_real_processes, 'merge': case_merge, 'quad1d': case_quad1d, 'quad2d': case_quad2d,
         'mixture': case_mixture, 'pdfs': case_pdfs}


def _dispatch(col, case):
    CASES[case['kind']](col, case)


def replay(ctx, case):
    _dispatch(ctx, case)


def run(ctx):
    cases = []
    q = ctx.quick
    # S: exhaustive stateful exploration
    grid = [(1, 3), (2, 1), (2, 2), (2, 3), (3, 2), (3, 3), (2, 4)] if q else \
           [(1, 1), (1, 3), (1, 5), (2, 1), (2, 2), (2, 3), (2, 4), (2, 5), (3, 2), (3, 3), (3, 4), (3, 5), (4, 2), (4, 3), (4, 4), (4, 5)]
    for W, J in grid:
        cases.append({'kind': 'schedule', 'cache': '1d', 'W': W, 'J': J, 'mode': 'stateful'})
    for W, J in [(2, 1), (2, 2), (3, 2)] + ([] if q else [(4, 2), (2, 3)]):
        cases.append({'kind': 'schedule', 'cache': '2d', 'W': W, 'J': J, 'mode': 'stateful'})
    # cross-check of the state abstraction: no pruning, preemption bounds 0,1,2
    for W, J in [(2, 2), (2, 3), (3, 2)] + ([] if q else [(3, 3), (2, 4)]):
        for b in (0, 1, 2):
            if q and b == 2 and (W, J) != (2, 2):
                continue
            cases.append({'kind': 'schedule', 'cache': '1d', 'W': W, 'J': J, 'mode': 'bounded', 'bound': b, 'cap': 40000})
    # many workers: preemption-bounded only
    for W, J in [(8, 3), (16, 2)] + ([] if q else [(8, 6), (16, 6)]):
        for b in ((0, 1) if q else (0, 1, 2)):
            cases.append({'kind': 'schedule', 'cache': '1d', 'W': W, 'J': J, 'mode': 'bounded', 'bound': b, 'cap': 1500 if q else 30000})
    # F: every subset of failing jobs
    for W, J in [(2, 2), (2, 3)] + ([] if q else [(3, 3), (2, 4), (3, 4)]):
        for r in range(1, J + 1):
            for fail in itertools.combinations(range(J), r):
                cases.append({'kind': 'schedule', 'cache': '1d', 'W': W, 'J': J, 'mode': 'stateful', 'fail': list(fail)})
    for fail in ([0], [3], [1, 2]):
        cases.append({'kind': 'schedule', 'cache': '2d', 'W': 2, 'J': 2, 'mode': 'stateful', 'fail': fail})
    # hard death (no exception raised) of the worker holding one job; at least one worker survives
    for W, J in [(2, 2), (2, 3), (3, 2)] + ([] if q else [(3, 3), (2, 4), (4, 3)]):
        for k in range(J):
            cases.append({'kind': 'schedule', 'cache': '1d', 'W': W, 'J': J, 'mode': 'stateful', 'die': [k]})
    for k in range(4):
        cases.append({'kind': 'schedule', 'cache': '2d', 'W': 2, 'J': 2, 'mode': 'stateful', 'die': [k]})
    # parts of a split 2-D cache (with point-mass gammas) built by a worker pool
    for sj in (2, 3):
        for jid in range(sj):
            cases.append({'kind': 'schedule', 'cache': '2d', 'W': 2, 'J': 2, 'mode': 'stateful', 'split': [sj, jid], 'additional': [4.0]})
    cases.append({'kind': 'schedule', 'cache': '1d', 'W': 2, 'J': 2, 'mode': 'stateful', 'additional': [4.0, 2.0]})
    cases.append({'kind': 'real', 'cache': '1d', 'W': 3, 'J': 5})
    cases.append({'kind': 'real', 'cache': '2d', 'W': 2, 'J': 3})
    # M
    for J, split in [(2, 1), (2, 2), (2, 3), (2, 4), (3, 2), (3, 3)] + ([] if q else [(2, 5), (2, 6), (3, 4), (3, 5), (3, 6)]):
        cases.append({'kind': 'merge', 'J': J, 'split': split, 'max_seqs': 3000})
    # Q
    for J in (2, 3, 7):
        for bounds in ((0.1, 50.0), (1e-3, 500.0)):
            for sel in (True, False):
                cases.append({'kind': 'quad1d', 'J': J, 'bounds': bounds, 'additional': [4.0, 0.0], 'sel': sel, 'wtol': None})
    cases.append({'kind': 'quad1d', 'J': 300, 'bounds': (1e-4, 2000.0), 'additional': [4.0], 'sel': False, 'wtol': 0.01})
    cases.append({'kind': 'quad2d', 'J': 40, 'bounds': (1e-3, 500.0), 'additional': [], 'sel': False, 'pdf_index': 0, 'wtol': 0.05})
    cases.append({'kind': 'quad2d', 'J': 40, 'bounds': (1e-3, 500.0), 'additional': [], 'sel': False, 'pdf_index': 7, 'wtol': 0.05})
    for pi in range(len(pdf_lattice_2d())):
        for J in ((3,) if q else (2, 3, 5)):
            for sel in (True, False):
                cases.append({'kind': 'quad2d', 'J': J, 'bounds': (0.1, 50.0), 'additional': [4.0, 2.0] if sel else [], 'sel': sel, 'pdf_index': pi, 'wtol': None})
    cases.append({'kind': 'mixture'})
    cases.append({'kind': 'pdfs'})
    cases.append({'kind': 'pdfs', 'wide': True})      # more x than y values: in a process of its own
    explore.pmap(ctx, _dispatch, cases, chunk=1)
    if ctx.counters.get('schedule_caps_hit'):
        ctx.cap_hit('execution cap reached in %d preemption-bounded (unpruned) explorations; all stateful explorations are complete' % ctx.counters['schedule_caps_hit'])
    ctx.tick(evaluations=len(cases))
    for c in (cases[3], cases[len(cases) // 2], cases[-3]):
        ctx.sample(c)
    ctx.sample({'example_schedule': 'choice list, e.g. [0,0,1,0,2,...]: index into the canonical enabled-thread order at each scheduling point'})
    ctx.rule = ('schedules: depth-first enumeration of all choice sequences at queue/list/start/join points, pruned by abstract-state equality '
                '(symmetric workers sorted) or bounded by preemptions; faults: every non-empty subset of failing jobs; merge: every sequence of split '
                'caches up to length split+1; quadrature: pdf x parameter x theta x exterior lattice. distinct_nontrivial = distinct explorations')
    ctx.assume('the worker code shares nothing but Manager proxies, so scheduling points at queue/list/start/join operations are sufficient; a free-running pass with real processes is included')
    ctx.assume('2-D tail terms use adaptive quadrature with epsrel=1e-3 in the implementation: compared at 2e-3')
