"""C19 – uncertainty machinery differentiates exactly and matches closed-form information.

A. get_hess / get_grad are linear in func: ALL monomials of degree <= 2 in 1..5 variables x p0 over {-2,0,1e-9,3e-5,0.7,40}^k (every regime of
   the p*eps<1e-6 switch and of the zero test, mixed per coordinate) x eps in {1e-4,1e-2,1e-1}; oracle = exact derivatives.
B. Poisson models with closed-form derivatives: FIM / GIM uncertainties, LRT adjustment, Wald and score statistics vs closed forms on an
   eps ladder (error contracts ~4x per halving); all permutations of the bootstraps; log and multinom variants.
C. sum_chi2_ppf on scalars, 0-d arrays, lists, arrays x weight vectors.
D. Histories: ALL sequences of <= 3 calls from an alphabet sharing the module-level cache; each call must equal its fresh-state value.
"""
import itertools
import math

import numpy as np

from mc import explore

LEVEL = 'model_checking'
PVALS = [-2.0, 0.0, 1e-9, 3e-5, 0.7, 40.0]


def monomials(k):
    """list of (name, exponents tuple) of total degree <= 2"""
    out = [('1', (0,) * k)]
    for i in range(k):
        e = [0] * k
        e[i] = 1
        out.append(('x%d' % i, tuple(e)))
    for i in range(k):
        for j in range(i, k):
            e = [0] * k
            e[i] += 1
            e[j] += 1
            out.append(('x%dx%d' % (i, j), tuple(e)))
    return out


def mono_f(expo):
    def f(p):
        v = 1.0
        for x, e in zip(p, expo):
            if e:
                v *= float(x) ** e
        return v
    return f


def stencil_regime(pv, eps):
    """(absolute step, one_sided?) per the documented rule"""
    if pv != 0:
        if pv * eps < 1e-6:
            return eps, True
        return eps * pv, False
    return eps, True


def case_fd(col, p):
    from dadi import Godambe
    k = p['k']
    monos = monomials(k)
    n = 0
    for p0 in p['points']:
        p0 = [int(v) for v in p0] if p.get('integer') else list(p0)
        for eps in (1e-4, 1e-2, 1e-1):
            regs = [stencil_regime(v, eps) for v in p0]
            hs = [r[0] for r in regs]
            one = [r[1] for r in regs]
            for name, expo in monos:
                f = mono_f(expo)
                H = Godambe.get_hess(f, list(p0), eps)
                col.tick(transitions=1)
                n += 1
                # exact Hessian of the monomial at p0
                exH = np.zeros((k, k))
                for i in range(k):
                    for j in range(k):
                        e = list(expo)
                        if i == j:
                            if e[i] == 2:
                                exH[i, j] = 2.0
                        else:
                            if e[i] == 1 and e[j] == 1:
                                exH[i, j] = 1.0
                fscale = 1.0
                for x, e, h in zip(p0, expo, hs):
                    if e:
                        fscale *= (abs(x) + 2 * abs(h)) ** e
                for i in range(k):
                    for j in range(k):
                        tol = 200 * 2.3e-16 * fscale / (abs(hs[i]) * abs(hs[j])) + 1e-10 * abs(exH[i, j])
                        if not abs(H[i, j] - exH[i, j]) <= tol:
                            regime = 'one_sided' if (one[i] or one[j]) else 'central'
                            col.violation('C19:get_hess:%s:%s' % ('diag' if i == j else 'offdiag', regime),
                                          dict(k=k, p0=p0, eps=eps, monomial=name, i=i, j=j, kind='fd', points=[p0]),
                                          {'got': float(H[i, j]), 'exact': float(exH[i, j]), 'tol': tol})
                        else:
                            col.observe('hess', abs(H[i, j] - exH[i, j]) / tol)
                if not np.array_equal(H, H.T):
                    col.violation('C19:get_hess:not_symmetric', dict(k=k, p0=p0, eps=eps, monomial=name, kind='fd', points=[p0]), '')
                # gradient: exact for quadratics under central, for functions linear in x_i under one-sided differences
                g = Godambe.get_grad(f, list(p0), eps)
                col.tick(transitions=1)
                if np.shape(g) != (k, 1):
                    col.violation('C19:get_grad:shape', dict(k=k, p0=p0, eps=eps, monomial=name, kind='fd', points=[p0]), str(np.shape(g)))
                    continue
                for i in range(k):
                    if one[i] and expo[i] == 2:
                        continue
                    e = list(expo)
                    if e[i] == 0:
                        ex = 0.0
                    else:
                        ex = e[i]
                        for j2, (x, ej) in enumerate(zip(p0, e)):
                            ee = ej - 1 if j2 == i else ej
                            if ee:
                                ex *= float(x) ** ee
                    tol = 200 * 2.3e-16 * fscale / abs(hs[i]) + 1e-10 * abs(ex)
                    if not abs(float(g[i, 0]) - ex) <= tol:
                        col.violation('C19:get_grad:%s' % ('one_sided' if one[i] else 'central'),
                                      dict(k=k, p0=p0, eps=eps, monomial=name, i=i, kind='fd', points=[p0]), {'got': float(g[i, 0]), 'exact': ex, 'tol': tol})
                    else:
                        col.observe('grad', abs(float(g[i, 0]) - ex) / tol)
    col.tick(states=n, traces=n)
    col.distinct('nontrivial', ('fd', k, len(p['points']), tuple(p['points'][0])))


# ------------------------------------------------------------------------------------------------ closed forms
NENT = 13


def basisB(k):
    i = np.arange(NENT, dtype=float)
    B = [1.0 / np.maximum(i, 1), np.exp(-i / 4.0), (i / NENT) ** 2 + 0.05]
    return [b for b in B[:k]]


def make_linear(k):
    import dadi
    B = basisB(k)

    def f(p, ns, pts):
        gfac = 1.0 if pts is None else 1.0 + 0.0 * float(np.atleast_1d(pts)[0])
        return dadi.Spectrum(gfac * sum(float(pk) * b for pk, b in zip(p, B)))
    dM = lambda p: np.array(B)                                  # (k, NENT)
    d2M = lambda p: np.zeros((k, k, NENT))
    return f, dM, d2M


def make_curved(k):
    """M_i = p0 * exp(-p1 * i/20) / max(i,1) (+ p2 * B3): smooth non-linear model with analytic derivatives"""
    import dadi
    i = np.arange(NENT, dtype=float)
    inv = 1.0 / np.maximum(i, 1)
    B3 = (i / NENT) ** 2 + 0.05

    def M(p):
        m = p[0] * np.exp(-p[1] * i / 20.0) * inv
        if k >= 3:
            m = m + p[2] * B3
        return m

    def f(p, ns, pts):
        return dadi.Spectrum(M([float(v) for v in p]))

    def dM(p):
        e = np.exp(-p[1] * i / 20.0) * inv
        rows = [e, -p[0] * (i / 20.0) * e]
        if k >= 3:
            rows.append(B3)
        return np.array(rows)

    def d2M(p):
        e = np.exp(-p[1] * i / 20.0) * inv
        out = np.zeros((k, k, NENT))
        out[0, 1] = out[1, 0] = -(i / 20.0) * e
        out[1, 1] = p[0] * (i / 20.0) ** 2 * e
        return out
    return f, dM, d2M


def make_shape(k):
    """M_i = 10 exp(-p0 i/20)/max(i,1) + p1 B3 (+ p2 B2): no overall scale parameter, so the theta-augmented (multinom) problem is regular"""
    import dadi
    i = np.arange(NENT, dtype=float)
    inv = 1.0 / np.maximum(i, 1)
    B3 = (i / NENT) ** 2 + 0.05
    B2 = np.exp(-i / 4.0)

    def M(p):
        m = 10.0 * np.exp(-p[0] * i / 20.0) * inv
        if k >= 2:
            m = m + p[1] * B3
        if k >= 3:
            m = m + p[2] * B2
        return m

    def f(p, ns, pts):
        return dadi.Spectrum(M([float(v) for v in p]))

    def dM(p):
        e = 10.0 * np.exp(-p[0] * i / 20.0) * inv
        rows = [-(i / 20.0) * e]
        if k >= 2:
            rows.append(B3)
        if k >= 3:
            rows.append(B2)
        return np.array(rows)

    def d2M(p):
        e = 10.0 * np.exp(-p[0] * i / 20.0) * inv
        out = np.zeros((k, k, NENT))
        out[0, 0] = (i / 20.0) ** 2 * e
        return out
    return f, dM, d2M


def closed_forms(p, data, boots, M, dM, d2M, sel=slice(1, -1)):
    """observed information H = -Hessian(ll), gradients per bootstrap, on the unmasked entries"""
    p = np.array(p, dtype=float)
    m = M[sel]
    D = dM[:, sel]
    D2 = d2M[:, :, sel]
    d = np.asarray(data, dtype=float)[sel]
    k = len(p)
    H = np.zeros((k, k))
    for a in range(k):
        for b in range(k):
            H[a, b] = -np.sum((d / m - 1.0) * D2[a, b] - d / m ** 2 * D[a] * D[b])
    grads = []
    for bt in boots:
        bb = np.asarray(bt, dtype=float)[sel]
        grads.append(np.array([np.sum((bb / m - 1.0) * D[a]) for a in range(k)]))
    g_data = np.array([np.sum((d / m - 1.0) * D[a]) for a in range(k)])
    return H, grads, g_data


def case_info(col, p):
    import dadi
    from dadi import Godambe, Inference
    k, kind, multinom, log = p['k'], p['model'], p['multinom'], p['log']
    f, dMf, d2Mf = {'linear': make_linear, 'curved': make_curved, 'shape': make_shape}[kind](k)
    pstar = {'curved': np.array([30.0, 2.0, 4.0][:k]), 'linear': np.array([30.0, 20.0, 8.0][:k]), 'shape': np.array([2.0, 6.0, 3.0][:k])}[kind]
    i = np.arange(NENT, dtype=float)
    base = np.asarray(f(pstar, None, None).data)
    data = dadi.Spectrum(base * (1 + 0.08 * np.sin(1.3 * i)))
    boots = [dadi.Spectrum(base * (1 + 0.1 * np.sin(i * (0.7 + 0.37 * b) + b * b))) for b in range(8)]
    p0 = pstar * np.array([1.02, 0.97, 1.01][:k])
    ns = data.sample_sizes
    sel = np.ones(NENT, bool)
    sel[0] = sel[-1] = False
    if p.get('extra_mask'):
        # entries the user chose to ignore (e.g. singletons): masked in the data and the bootstraps, not in the model
        for fs_ in [data] + boots:
            fs_.mask[1] = fs_.mask[7] = True
        sel[1] = sel[7] = False
    # parameters actually differentiated: (p, theta) when multinom
    if multinom:
        model = np.asarray(f(p0, ns, None).data)
        theta = float(np.asarray(data.data)[sel].sum() / model[sel].sum())
        pe = np.concatenate([p0, [theta]])
        Mx = theta * model
        D = np.vstack([theta * dMf(p0), model[None, :]])
        D2 = np.zeros((k + 1, k + 1, NENT))
        D2[:k, :k] = theta * d2Mf(p0)
        for a in range(k):
            D2[a, k] = D2[k, a] = dMf(p0)[a]
    else:
        pe = p0.copy()
        Mx = np.asarray(f(p0, ns, None).data)
        D, D2 = dMf(p0), d2Mf(p0)
    H, grads, g_data = closed_forms(pe, data.data, [b.data for b in boots], Mx, D, D2, sel)
    kk = len(pe)
    if log:
        Hl = np.zeros_like(H)
        for a in range(kk):
            for b in range(kk):
                Hl[a, b] = pe[a] * pe[b] * H[a, b] - (pe[a] * g_data[a] if a == b else 0.0)
        Hc = Hl
        gc = [g * pe for g in grads]
    else:
        Hc, gc = H, grads
    J = sum(np.outer(g, g) for g in gc) / len(gc)
    condJ = float(np.linalg.cond(J))
    G = Hc @ np.linalg.inv(J) @ Hc
    info = dict(p)
    # eps ladder on the information matrices themselves (uncertainties are sqrt(diag(inv(.))) of them)
    errs_f, errs_g = [], []
    for eps in (1e-2, 5e-3, 2.5e-3):
        Godambe.cache.clear()
        unc_f, got_H = Godambe.FIM_uncert(f, [20], list(p0), data, log=log, multinom=multinom, eps=eps, return_FIM=True)
        unc_g, got_G, got_H2 = Godambe.GIM_uncert(f, [20], boots, list(p0), data, log=log, multinom=multinom, eps=eps, return_GIM=True)
        col.tick(transitions=2)
        errs_f.append(float(np.max(np.abs(got_H - Hc)) / np.max(np.abs(Hc))))
        errs_g.append(float(np.max(np.abs(got_G - G)) / np.max(np.abs(G))))
        if not np.allclose(got_H, got_H2, rtol=1e-12, atol=0):
            col.violation('C19:GIM_uncert:hessian_differs_from_FIM', info, '')
        # the reported uncertainties are sqrt(diag(inv(matrix))) of the reported matrices
        with np.errstate(all='ignore'):
            if not np.allclose(unc_f, np.sqrt(np.diag(np.linalg.inv(got_H))), rtol=1e-10, equal_nan=True):
                col.violation('C19:FIM_uncert:uncert_not_from_matrix', info, '')
            if not np.allclose(unc_g, np.sqrt(np.diag(np.linalg.inv(got_G))), rtol=1e-10, equal_nan=True):
                col.violation('C19:GIM_uncert:uncert_not_from_matrix', info, '')
    amp = max(1.0, condJ * 1e-3)
    for name, errs, a_ in (('FIM_uncert', errs_f, 1.0), ('GIM_uncert', errs_g, amp)):
        bound = 2e-3 * a_
        if not errs[-1] <= bound:
            col.violation('C19:%s:closed_form' % name, info, {'relerr_by_eps': errs, 'bound': bound, 'cond_J': condJ})
        elif errs[0] > 1e-6 and not (errs[0] / max(errs[1], 1e-300) > 2.0 and errs[1] / max(errs[2], 1e-300) > 2.0):
            col.violation('C19:%s:not_second_order' % name, info, {'relerr_by_eps': errs})
        col.observe(name, errs[-1] / bound)
    if not log:
        eps = 2.5e-3
        # every set of nested parameters (LRT_adjust = |N| / trace(J_NN inv(H_NN)))
        for r in range(1, k + 1):
            for nested in itertools.combinations(range(k), r):
                nested = list(nested)
                Godambe.cache.clear()
                got = Godambe.LRT_adjust(f, [20], boots, list(p0), data, nested, multinom=multinom, eps=eps)
                col.tick(transitions=1)
                Hn = Hc[np.ix_(nested, nested)]
                Jn = sum(np.outer(g[nested], g[nested]) for g in gc) / len(gc)
                ex = len(nested) / float(np.trace(Jn @ np.linalg.inv(Hn)))
                tol = 2e-3 * max(1.0, float(np.linalg.cond(Hn)) * 1e-3)
                if not abs(got / ex - 1) <= tol:
                    col.violation('C19:LRT_adjust:closed_form', dict(info, nested=nested), {'got': float(got), 'exact': ex, 'tol': tol})
                else:
                    col.observe('LRT_adjust_sets', abs(got / ex - 1) / tol)
    if not multinom:
        # bootstraps with their own relative theta: gradient of ll(adj*M, boot) is sum (boot/M - adj) dM  (times p for log-parameters)
        eps = 2.5e-3
        adj = [1.0 + 0.07 * ((b % 3) - 1) + 0.01 * b for b in range(len(boots))]
        m_ = Mx[sel]
        gadj = [np.array([np.sum((np.asarray(bt.data)[sel] / m_ - a_) * D[q][sel]) for q in range(kk)]) * (pe if log else 1.0) for bt, a_ in zip(boots, adj)]
        Jadj = sum(np.outer(g, g) for g in gadj) / len(gadj)
        Gadj = Hc @ np.linalg.inv(Jadj) @ Hc
        Godambe.cache.clear()
        _, H_before = Godambe.FIM_uncert(f, [20], list(p0), data, log=log, multinom=False, eps=eps, return_FIM=True)
        _, got_G, _h = Godambe.GIM_uncert(f, [20], boots, list(p0), data, log=log, multinom=False, eps=eps, return_GIM=True, boot_theta_adjusts=adj)
        _, got_G2, _h2 = Godambe.GIM_uncert(f, [20], list(reversed(boots)), list(p0), data, log=log, multinom=False, eps=eps, return_GIM=True, boot_theta_adjusts=list(reversed(adj)))
        _, H_after = Godambe.FIM_uncert(f, [20], list(p0), data, log=log, multinom=False, eps=eps, return_FIM=True)      # same cache: must not have been polluted
        col.tick(transitions=4)
        e_ = float(np.max(np.abs(got_G - Gadj)) / np.max(np.abs(Gadj)))
        bound = 2e-3 * max(1.0, float(np.linalg.cond(Jadj)) * 1e-3)
        if not e_ <= bound:
            col.violation('C19:GIM_uncert:boot_theta_adjusts:closed_form', info, {'relerr': e_, 'bound': bound})
        if not np.allclose(got_G, got_G2, rtol=1e-9 * max(1.0, float(np.linalg.cond(Jadj))), atol=0):
            col.violation('C19:bootstrap_order_dependence', dict(info, what='boot_theta_adjusts reversed'), '')
        if not log:
            for nested in ([k - 1], list(range(k))):
                Godambe.cache.clear()
                got_l = Godambe.LRT_adjust(f, [20], boots, list(p0), data, nested, multinom=False, eps=eps, boot_theta_adjusts=adj)
                col.tick(transitions=1)
                Hn = Hc[np.ix_(nested, nested)]
                Jn = sum(np.outer(g[nested], g[nested]) for g in gadj) / len(gadj)
                ex_l = len(nested) / float(np.trace(Jn @ np.linalg.inv(Hn)))
                tol_l = 2e-3 * max(1.0, float(np.linalg.cond(Hn)) * 1e-3)
                if not abs(got_l / ex_l - 1) <= tol_l:
                    col.violation('C19:LRT_adjust:boot_theta_adjusts:closed_form', dict(info, nested=nested), {'got': float(got_l), 'exact': ex_l})
        if not np.array_equal(H_before, H_after):
            col.violation('C19:result_depends_on_call_history', dict(info, what='FIM after GIM with boot_theta_adjusts'),
                          {'maxrel': float(np.max(np.abs(H_after - H_before)) / np.max(np.abs(H_before)))})
    if not log:
        # the parameter vector given as a float array (what the optimisers return) must come back untouched, and give the same numbers as a list
        eps = 2.5e-3
        nested = [k - 1]
        full = list(p0)
        full[k - 1] = p0[k - 1] * 1.3
        calls = {
            'LRT_adjust': lambda pv: Godambe.LRT_adjust(f, [20], boots[:4], pv, data, nested, multinom=multinom, eps=eps),
            'Wald_stat': lambda pv: Godambe.Wald_stat(f, [20], boots[:4], pv, data, nested, full, multinom=multinom, eps=eps),
            'score_stat': lambda pv: Godambe.score_stat(f, [20], boots[:4], pv, data, nested, multinom=multinom, eps=eps),
            'FIM_uncert': lambda pv: Godambe.FIM_uncert(f, [20], pv, data, multinom=multinom, eps=eps),
            'GIM_uncert': lambda pv: Godambe.GIM_uncert(f, [20], boots[:4], pv, data, multinom=multinom, eps=eps),
        }
        for nm, fn_ in calls.items():
            Godambe.cache.clear()
            ref_ = np.asarray(fn_(list(p0)), dtype=float)
            arr_ = np.array(p0, dtype=float)
            Godambe.cache.clear()
            got_ = np.asarray(fn_(arr_), dtype=float)
            col.tick(transitions=2)
            if not np.array_equal(arr_, np.array(p0, dtype=float)):
                col.violation('C19:%s:p0_array_modified' % nm, info, {'before': np.array(p0, dtype=float), 'after': arr_})
            if not np.allclose(got_, ref_, rtol=1e-12, atol=0, equal_nan=True):
                col.violation('C19:%s:array_p0_differs_from_list_p0' % nm, info, {'list': ref_, 'array': got_})
    # permutation invariance of the bootstraps + LRT / Wald / score closed forms (not for log)
    if not log:
        nested = [k - 1]
        eps = 2.5e-3
        base_vals = None
        perm_boots = boots[:4]
        gcp = gc[:4]
        Jp = sum(np.outer(g, g) for g in gcp) / len(gcp)
        for perm in itertools.permutations(range(len(perm_boots))):
            bl = [perm_boots[q] for q in perm]
            Godambe.cache.clear()
            lrt = Godambe.LRT_adjust(f, [20], bl, list(p0), data, nested, multinom=multinom, eps=eps)
            full = list(p0)
            full[k - 1] = p0[k - 1] * 1.3
            wald = Godambe.Wald_stat(f, [20], bl, list(p0), data, nested, full, multinom=multinom, eps=eps)
            score = Godambe.score_stat(f, [20], bl, list(p0), data, nested, multinom=multinom, eps=eps)
            vals = [lrt, wald, score]
            col.tick(transitions=3)
            if len(pe) <= 3:
                _, gm, _h = Godambe.GIM_uncert(f, [20], bl, list(p0), data, multinom=multinom, eps=eps, return_GIM=True)
                col.tick(transitions=1)
                vals += list(np.ravel(gm) / np.max(np.abs(gm)))
            vals = np.array(vals, dtype=float)
            if base_vals is None:
                base_vals = vals
                a = k - 1
                Hn = Hc[a, a]
                Jn = float(np.mean([g[a] ** 2 for g in gcp]))
                cU = float(np.mean([g[a] for g in gcp]))
                ex_lrt = Hn / Jn
                Gn = Hn ** 2 / Jn
                dlt = full[k - 1] - p0[k - 1]
                for nm, got, ex in (('LRT_adjust', lrt, ex_lrt), ('Wald_stat', wald, dlt * Gn * dlt), ('score_stat', score, cU ** 2 / Jn)):
                    if not abs(got / ex - 1) <= 2e-3:
                        col.violation('C19:%s:closed_form' % nm, info, {'got': float(got), 'exact': float(ex)})
                    col.observe(nm, abs(got / ex - 1) / 2e-3)
                # the two-value form: (adjusted, unadjusted) in this order; the unadjusted ones use H where the adjusted use the Godambe matrix
                w2 = Godambe.Wald_stat(f, [20], bl, list(p0), data, nested, full, multinom=multinom, eps=eps, adj_and_org=True)
                s2 = Godambe.score_stat(f, [20], bl, list(p0), data, nested, multinom=multinom, eps=eps, adj_and_org=True)
                col.tick(transitions=2)
                for nm, pair, ex_adj, ex_org in (('Wald_stat', w2, dlt * Gn * dlt, dlt * Hn * dlt), ('score_stat', s2, cU ** 2 / Jn, cU ** 2 / Hn)):
                    try:
                        g_adj, g_org = float(pair[0]), float(pair[1])
                    except Exception:
                        col.violation('C19:%s:adj_and_org' % nm, info, {'got': repr(pair)[:100]})
                        continue
                    if not (abs(g_adj / ex_adj - 1) <= 2e-3 and abs(g_org / ex_org - 1) <= 2e-3):
                        col.violation('C19:%s:adj_and_org' % nm, info, {'got': [g_adj, g_org], 'exact': [float(ex_adj), float(ex_org)]})
            else:
                tol = 1e-12 * max(1.0, float(np.linalg.cond(Jp))) if len(pe) <= 3 else 1e-11
                if not np.allclose(vals, base_vals, rtol=tol, atol=tol):
                    col.violation('C19:bootstrap_order_dependence', dict(info, perm=perm), {'got': vals, 'base': base_vals, 'tol': tol})
    col.tick(states=1, traces=1)
    col.distinct('nontrivial', ('info', k, kind, multinom, log, bool(p.get('extra_mask'))))


def case_chi2(col, p):
    from dadi import Godambe
    import scipy.stats
    weights_l = [(0, 1), (0.5, 0.5), (0.25, 0.5, 0.25), (1.0, 0.0), (0.0, 0.0, 1.0)]
    xs = [0.0, 1e-9, 0.5, 2.71, 10.0]

    def exact(x, w):
        cdf = sum(wd * scipy.stats.chi2.cdf(x, d + 1) for d, wd in enumerate(w[1:]))
        if x > 0:
            cdf += w[0]
        return 1 - cdf
    n = 0
    for w in weights_l:
        forms = [('scalar', 2.71), ('int', 3), ('numpy_scalar', np.float64(0.5)), ('list', list(xs)), ('array', np.array(xs)), ('zero_d', np.array(2.71)),
                 ('tuple', tuple(xs)), ('2d', np.array([xs, xs]))]
        for fname, x in forms:
            try:
                out = Godambe.sum_chi2_ppf(x, weights=w)
            except Exception as e:
                col.violation('C19:sum_chi2_ppf:%s:raises' % fname, dict(p, weights=w), '%s: %s' % (type(e).__name__, e))
                continue
            col.tick(transitions=1)
            n += 1
            ex = np.vectorize(lambda v: exact(float(v), w))(np.asarray(x, dtype=float))
            if not np.allclose(np.asarray(out, dtype=float).ravel(), np.atleast_1d(ex).ravel(), rtol=1e-12, atol=1e-15):
                col.violation('C19:sum_chi2_ppf:%s:value' % fname, dict(p, weights=w), {'got': out, 'exact': ex})
            if fname in ('scalar', 'int', 'numpy_scalar') and np.ndim(out) != 0:
                col.violation('C19:sum_chi2_ppf:scalar_in_array_out', dict(p, weights=w, form=fname), '')
            if fname in ('list', 'array', 'tuple') and np.shape(out) != (len(xs),):
                col.violation('C19:sum_chi2_ppf:array_shape', dict(p, weights=w, form=fname), str(np.shape(out)))
        try:
            Godambe.sum_chi2_ppf(1.0, weights=(0.5, 0.4))
            col.violation('C19:sum_chi2_ppf:bad_weights_accepted', dict(p), '')
        except ValueError:
            pass
    col.tick(states=n, traces=n)
    col.distinct('nontrivial', ('chi2',))


def _isolated(fn):
    import os
    import pickle
    r, w = os.pipe()
    pid = os.fork()
    if pid == 0:
        try:
            os.close(r)
            from dadi import Godambe
            Godambe.cache.clear()
            try:
                out = ('ok', np.array(fn(), dtype=float))
            except BaseException as e:
                out = ('err', repr(e))
            with os.fdopen(w, 'wb') as f:
                pickle.dump(out, f)
        finally:
            os._exit(0)
    os.close(w)
    with os.fdopen(r, 'rb') as f:
        out = pickle.load(f)
    os.waitpid(pid, 0)
    if out[0] != 'ok':
        raise RuntimeError('isolated evaluation failed: %s' % out[1])
    return out[1]


def case_history(col, p):
    """all call sequences up to the depth bound over an alphabet of uncertainty calls that share Godambe.cache"""
    import dadi
    from dadi import Godambe
    fA0, _, _ = make_linear(3)
    fB, _, _ = make_curved(3)

    def fA(p, ns, pts):
        # mildly grid-dependent, as real models are
        return fA0(p, ns, pts) * (1.0 + (0.5 / float(np.atleast_1d(pts)[0]) if pts is not None else 0.0))
    i = np.arange(NENT, dtype=float)
    pA = [30.0, 20.0, 8.0]
    pA2 = [25.0, 28.0, 8.0]
    pB = [30.0, 2.0, 8.0]
    data = dadi.Spectrum(np.asarray(fA(pA, None, None).data) * (1 + 0.08 * np.sin(1.3 * i)))
    boots = [dadi.Spectrum(np.asarray(data.data) * (1 + 0.1 * np.sin(i * (0.7 + 0.2 * b) + b))) for b in range(3)]
    OPS = {
        'FIM(fA)': lambda: Godambe.FIM_uncert(fA, [20], pA, data, multinom=False),
        'FIM(fB)': lambda: Godambe.FIM_uncert(fB, [20], pB, data, multinom=False),
        'FIM(fA,pts=40)': lambda: Godambe.FIM_uncert(fA, [40], pA, data, multinom=False),
        'GIM(fA,int p0)': lambda: Godambe.GIM_uncert(fA, [20], boots, [30, 20, 8], data, multinom=False),
        'FIM(fA,multinom)': lambda: Godambe.FIM_uncert(fA, [20], pA, data, multinom=True),
        'FIM(fA,log)': lambda: Godambe.FIM_uncert(fA, [20], pA, data, multinom=False, log=True),
        'GIM(fA)': lambda: Godambe.GIM_uncert(fA, [20], boots, pA, data, multinom=False),
        'LRT(fA,pA)': lambda: Godambe.LRT_adjust(fA, [20], boots, pA, data, [2], multinom=False),
        'LRT(fA,pA2)': lambda: Godambe.LRT_adjust(fA, [20], boots, pA2, data, [2], multinom=False),
        'LRT(fB,pB)': lambda: Godambe.LRT_adjust(fB, [20], boots, pB, data, [2], multinom=False),
        'Wald(fA,pA2)': lambda: Godambe.Wald_stat(fA, [20], boots, pA2, data, [2], [25.0, 28.0, 10.0], multinom=False),
        'score(fB,pB)': lambda: Godambe.score_stat(fB, [20], boots, pB, data, [2], multinom=False),
    }
    # the same statistics on bootstrap sets of other sizes (smaller first, larger later and the reverse are both in the product below)
    boots5 = boots + [dadi.Spectrum(np.asarray(data.data) * (1 + 0.1 * np.cos(i * (0.5 + 0.3 * b) + b))) for b in range(2)]
    OPS['Wald(fA,pA2,2 boots)'] = lambda: Godambe.Wald_stat(fA, [20], boots[:2], pA2, data, [2], [25.0, 28.0, 10.0], multinom=False)
    OPS['score(fB,pB,5 boots)'] = lambda: Godambe.score_stat(fB, [20], boots5, pB, data, [2], multinom=False)
    OPS['Wald(fA,pA2,5 boots)'] = lambda: Godambe.Wald_stat(fA, [20], boots5, pA2, data, [2], [25.0, 28.0, 10.0], multinom=False)
    # the same model, parameters and grid against the folded data (the model spectra cached for one must not be handed to the other)
    dataf = data.fold()
    OPS['FIM(fA,folded data)'] = lambda: Godambe.FIM_uncert(fA, [20], pA, dataf, multinom=False)
    OPS['GIM(fA,folded data)'] = lambda: Godambe.GIM_uncert(fA, [20], [b.fold() for b in boots], pA, dataf, multinom=False)
    names = list(OPS)
    fresh = {}
    for nm in names:
        # the value with no history at all: computed in a forked child, so that nothing an earlier call left behind (cache entries, grown
        # default arguments, module attributes) can reach it
        fresh[nm] = _isolated(OPS[nm])
    n = 0
    import gc
    for depth in range(2, p['depth'] + 1):
        for seq in itertools.product(names, repeat=depth):
            Godambe.cache.clear()
            gc.collect()
            for pos, nm in enumerate(seq):
                try:
                    got = np.array(OPS[nm](), dtype=float)
                except Exception as e:
                    col.tick(transitions=1)
                    col.violation('C19:raises_after_call_history', dict(p, seq=seq, at=pos), '%s: %s' % (type(e).__name__, str(e)[:200]))
                    break
                col.tick(transitions=1)
                if not np.allclose(got, fresh[nm], rtol=1e-10, atol=0, equal_nan=True):
                    col.violation('C19:result_depends_on_call_history', dict(p, seq=seq, at=pos), {'got': got, 'fresh': fresh[nm]})
                    break
            n += 1
    col.tick(states=n, traces=n)
    col.distinct('nontrivial', ('history', p['depth']))


CASES = {'fd': case_fd, 'info': case_info, 'chi2': case_chi2, 'history': case_history}


def _dispatch(col, case):
    CASES[case['kind']](col, case)


def replay(ctx, case):
    _dispatch(ctx, case)


def run(ctx):
    cases = []
    for k in (1, 2, 3):
        pts = list(itertools.product(PVALS, repeat=k))
        for lo in range(0, len(pts), 36):
            cases.append({'kind': 'fd', 'k': k, 'points': pts[lo:lo + 36]})
    # all-integer parameter vectors (a caller may pass p0=[3, 2]): the work copies must be floating point
    for k in (1, 2, 3):
        ipts = list(itertools.product([0, 1, 3, -2], repeat=k))
        cases.append({'kind': 'fd', 'k': k, 'points': ipts, 'integer': True})
    for k in (4, 5):
        pts = [tuple(PVALS[(r + c * s) % 6] for c in range(k)) for r in range(6) for s in (0, 1, 2, 5)]
        if not ctx.quick:
            pts += [tuple(PVALS[(r * (c + 2) + c) % 6] for c in range(k)) for r in range(36)]
        pts = sorted(set(pts))
        for lo in range(0, len(pts), 6):
            cases.append({'kind': 'fd', 'k': k, 'points': pts[lo:lo + 6]})
    ctx.note('finite differences: complete product of the 6-value alphabet for k<=3; for k=4,5 a covering set of mixed-regime points')
    for k in (1, 2, 3):
        for kind in ('linear', 'curved', 'shape'):
            if kind == 'curved' and k == 1:
                continue
            for multinom in ((False, True) if kind == 'shape' else (False,)):      # models with an overall scale parameter are degenerate under multinom
                for log in (False, True):
                    cases.append({'kind': 'info', 'k': k, 'model': kind, 'multinom': multinom, 'log': log})
                    if not log:
                        cases.append({'kind': 'info', 'k': k, 'model': kind, 'multinom': multinom, 'log': log, 'extra_mask': True})
    cases.append({'kind': 'chi2'})
    cases.append({'kind': 'history', 'depth': 2 if ctx.quick else 3})
    from mc.evidence import Collector
    a, b = Collector(), Collector()
    _dispatch(a, cases[0]); _dispatch(b, cases[0])
    assert a.viol_count == b.viol_count and a.maxima == b.maxima
    cases.sort(key=lambda c: -({'history': 1000, 'info': 100}.get(c['kind'], c.get('k', 1))))
    explore.pmap(ctx, _dispatch, cases, chunk=1)
    ctx.tick(evaluations=len(cases))
    for c in (cases[0], cases[len(cases) // 2], cases[-1]):
        cc = dict(c)
        if 'points' in cc:
            cc['points'] = cc['points'][:3]
        ctx.sample(cc)
    ctx.rule = ('monomial basis (degree<=2, k<=5) x p0 regime lattice x eps; Poisson models with analytic derivatives x multinom x log on an eps '
                'ladder; all 24 bootstrap permutations; input forms x weight vectors; all call sequences up to the depth bound. distinct_nontrivial = '
                'distinct (part, k, point chunk / model variant) groups')
    ctx.assume('get_hess/get_grad are linear in func, so monomials of degree <= 2 decide all quadratics')
