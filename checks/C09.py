"""C09 – folding and ancestral misidentification.

A. fold as an operator: all shapes with sample sizes from {1,2,3}^d, d=1..5 (+ (4,5),(6,)), every unit data array,
   every singleton mask and every pair of masks (d<=3) vs explicit re-indexing reference.
B. unfold on every folded unit array / folded mask; fold.unfold.fold = fold.
C. BFS depth 3 over {fold, unfold, mirror} (states merged by exact reference value, paths compared).
D. misidentification p in {0,1/4,1/2,1} on every unit array; make_anc_state_misid_func parameter plumbing.
E. arithmetic: every binary/reflected/in-place operator x operand kind x folded state: mixed folding refused;
   folded flag, mask (OR) and labels survive; slicing; likelihood auto-folding.
"""
import itertools
import operator
from fractions import Fraction

import numpy as np

from mc import explore
from mc.refs import spectrum as RS

LEVEL = 'model_checking'


def _corner_conv(mask):
    m = mask.copy()
    m.flat[0] = True
    m.flat[-1] = True
    return m


def _cmp(col, key, p, got, ref_d, ref_m, folded, tol=1e-13, check_mask=True, data_everywhere=True):
    gd = np.asarray(got.data, dtype=float)
    gm = np.ma.getmaskarray(got)
    ex = RS.to_float(ref_d)
    if gd.shape != ex.shape:
        col.violation(key + ':shape', p, {'got': gd.shape, 'exp': ex.shape})
        return False
    ok = True
    if check_mask and not np.array_equal(gm, ref_m):
        col.violation(key + ':mask', p, {'got': gm.astype(int), 'exp': ref_m.astype(int)})
        ok = False
    sel = np.ones(ex.shape, bool) if data_everywhere else ~ref_m
    err = np.abs(gd - ex)[sel].max() if sel.any() else 0.0
    scale = max(1.0, float(np.abs(ex).max()))
    if not err <= tol * scale:
        col.violation(key + ':data', p, {'maxerr': float(err), 'got': gd, 'exp': ex})
        ok = False
    if bool(got.folded) != folded:
        col.violation(key + ':folded_flag', p, {'got': got.folded})
        ok = False
    return ok


# ------------------------------------------------------------------------------------------------ A/B
def case_fold_basis(col, p):
    import dadi
    ns = tuple(p['ns'])
    shape = tuple(n + 1 for n in ns)
    N = sum(ns)
    idxs = list(np.ndindex(*shape))
    nomask = np.zeros(shape, bool)
    dense = (3.0 + (np.arange(len(idxs)) * 5 % 13).reshape(shape)) / 8.0
    ids = ['q%d' % i for i in range(len(ns))]
    lo, hi = p.get('units', (0, len(idxs)))
    for idx in idxs[lo:hi]:
        data = np.zeros(shape)
        data[idx] = 1.0
        fs = dadi.Spectrum(data, mask_corners=False, pop_ids=ids)
        f = fs.fold()
        col.tick(transitions=1)
        rd, rm = RS.fold(RS.fr_array(data), nomask)
        _cmp(col, 'C09:fold', dict(p, unit=idx), f, rd, _corner_conv(rm), True)
        if abs(float(np.asarray(f.data).sum()) - 1.0) > 1e-14:
            col.violation('C09:fold:total', dict(p, unit=idx), {'total': float(np.asarray(f.data).sum())})
        if f.pop_ids != ids:
            col.violation('C09:fold:labels', dict(p, unit=idx), {'pop_ids': f.pop_ids})
        # ambiguous entries shared equally
        mir = RS.mirror_index(idx, shape)
        if 2 * sum(idx) == N and mir != idx:
            fd = np.asarray(f.data)
            if not (fd[idx] == 0.5 and fd[mir] == 0.5):
                col.violation('C09:fold:ambiguous_split', dict(p, unit=idx), {'at_idx': float(fd[idx]), 'at_mirror': float(fd[mir])})
        # fold(mirror(x)) == fold(x)
        fm = dadi.Spectrum(data[tuple(slice(None, None, -1) for _ in shape)].copy(), mask_corners=False).fold()
        col.tick(transitions=1)
        if not np.array_equal(np.asarray(fm.data), np.asarray(f.data)):
            col.violation('C09:fold:mirror_invariance', dict(p, unit=idx), {'fold_x': np.asarray(f.data), 'fold_mirror_x': np.asarray(fm.data)})
        # the input must not be modified
        if not np.array_equal(np.asarray(fs.data), data) or np.ma.getmaskarray(fs).any() or fs.folded:
            col.violation('C09:fold:input_modified', dict(p, unit=idx), '')
        # unfold of this folded unit; fold.unfold.fold = fold (data and mask)
        u = f.unfold()
        col.tick(transitions=1)
        ud, um = RS.unfold(rd, _corner_conv(rm))
        _cmp(col, 'C09:unfold', dict(p, unit=idx), u, ud, _corner_conv(um), False)
        if abs(float(np.asarray(u.data).sum()) - 1.0) > 1e-14:
            col.violation('C09:unfold:total', dict(p, unit=idx), {'total': float(np.asarray(u.data).sum())})
        ff = u.fold()
        col.tick(transitions=1)
        if not (np.array_equal(np.asarray(ff.data), np.asarray(f.data)) and np.array_equal(np.ma.getmaskarray(ff), np.ma.getmaskarray(f))):
            col.violation('C09:fold_unfold_fold', dict(p, unit=idx), {'fold': np.asarray(f.data), 'fuf': np.asarray(ff.data),
                                                                      'mask_fold': np.ma.getmaskarray(f).astype(int),
                                                                      'mask_fuf': np.ma.getmaskarray(ff).astype(int)})
    # masks: singletons (and pairs for small shapes)
    combos = [(i,) for i in idxs[lo:hi]]
    if p.get('pairs'):
        combos += list(itertools.combinations(idxs, 2))
    for combo in combos:
        mask = np.zeros(shape, bool)
        for i in combo:
            mask[i] = True
        # the same entries masked with the corners left unmasked (monomorphic classes kept): the mask union is the same rule
        fr = dadi.Spectrum(dense.copy(), mask=mask.copy(), mask_corners=False).fold()
        col.tick(transitions=1)
        rdr, rmr = RS.fold(RS.fr_array(dense), mask)
        _cmp(col, 'C09:fold_masked', dict(p, masked=combo, corners='unmasked'), fr, rdr, _corner_conv(rmr), True, data_everywhere=True)
        mask = _corner_conv(mask)
        fs = dadi.Spectrum(dense.copy(), mask=mask.copy(), mask_corners=False)
        f = fs.fold()
        col.tick(transitions=1)
        rd, rm = RS.fold(RS.fr_array(dense), mask)
        ok = _cmp(col, 'C09:fold_masked', dict(p, masked=combo), f, rd, rm, True, data_everywhere=True)
        u = f.unfold()
        col.tick(transitions=1)
        ud, um = RS.unfold(rd, rm)
        _cmp(col, 'C09:unfold_masked', dict(p, masked=combo), u, ud, um, False)
        ff = u.fold()
        col.tick(transitions=1)
        if not (np.allclose(np.asarray(ff.data), np.asarray(f.data), rtol=0, atol=1e-13) and np.array_equal(np.ma.getmaskarray(ff), np.ma.getmaskarray(f))):
            col.violation('C09:fold_unfold_fold', dict(p, masked=combo), {'mask_fold': np.ma.getmaskarray(f).astype(int),
                                                                          'mask_fuf': np.ma.getmaskarray(ff).astype(int)})
    # unfolding a folded spectrum that fold() did not produce (read from another program's output, resampled, reweighted, or with an entry masked
    # afterwards): the two members of an ambiguous pair may then hold different values and different masks; every entry of the folded half masked in turn
    fo = RS.folded_out(shape)
    denseF = dense.copy()
    denseF[fo] = 0.0
    for idx in [None] + [i for i in idxs[lo:hi] if not fo[i]]:
        mask = fo.copy()
        if idx is not None:
            mask[idx] = True
        ff = dadi.Spectrum(denseF.copy(), mask=mask.copy(), mask_corners=False, data_folded=True)
        u = ff.unfold()
        col.tick(transitions=1)
        ud, um = RS.unfold(RS.fr_array(denseF), mask)
        _cmp(col, 'C09:unfold_of_folded', dict(p, masked=idx), u, ud, _corner_conv(um), False)
        if not np.array_equal(np.asarray(ff.data), denseF) or not np.array_equal(np.ma.getmaskarray(ff), mask):
            col.violation('C09:unfold:input_modified', dict(p, masked=idx), '')
    # double fold / unfold of unfolded refused
    fs = dadi.Spectrum(dense.copy())
    try:
        fs.fold().fold()
        col.violation('C09:fold:double_fold_accepted', p, '')
    except ValueError:
        pass
    try:
        fs.unfold()
        col.violation('C09:unfold:of_unfolded_accepted', p, '')
    except ValueError:
        pass
    col.tick(states=len(idxs) + len(combos), traces=len(idxs) + len(combos))
    col.distinct('nontrivial', ('fold', ns))


# ------------------------------------------------------------------------------------------------ C
def case_bfs(col, p):
    import dadi
    from dadi import Numerics
    ns = tuple(p['ns'])
    shape = tuple(n + 1 for n in ns)
    data0 = (1.0 + (np.arange(int(np.prod(shape))) * 7 % 11).reshape(shape)) / 4.0
    mask0 = np.zeros(shape, bool)
    for i in p.get('masked', []):
        mask0[tuple(i)] = True
    mask0 = _corner_conv(mask0)
    impl0 = dadi.Spectrum(data0.copy(), mask=mask0.copy(), mask_corners=False, pop_ids=['a%d' % i for i in range(len(ns))])
    ref0 = (RS.fr_array(data0), mask0, False)

    def enabled(state):
        folded = state[1][2]
        return ['mirror', 'unfold'] if folded else ['mirror', 'fold']

    def step(state, op):
        impl, (d, m, folded) = state
        col.tick(transitions=1)
        if op == 'fold':
            nd, nm = RS.fold(d, m)
            return (impl.fold(), (nd, nm, True))
        if op == 'unfold':
            nd, nm = RS.unfold(d, m)
            return (impl.unfold(), (nd, _corner_conv(nm), False))
        ni = Numerics.reverse_array(impl)
        return (ni, (RS.mirror(d), RS.mirror(m), folded))

    def canon(state):
        d, m, folded = state[1]
        return (tuple(d.flat), tuple(m.flat), folded)

    def check(state, path, prev=None):
        impl, (d, m, folded) = state
        if 'mirror' in path and folded:
            # mirroring a folded spectrum is outside the property (its mask no longer is a folded mask); only follow
            # the data
            _cmp(col, 'C09:bfs', dict(p, path=path), impl, d, m, folded, check_mask=True)
        else:
            _cmp(col, 'C09:bfs', dict(p, path=path), impl, d, m, folded)
        if impl.pop_ids != ['a%d' % i for i in range(len(ns))]:
            col.violation('C09:bfs:labels', dict(p, path=path), {'pop_ids': impl.pop_ids})
        if prev is not None:
            col.tick(merged_path_comparisons=1)
            if not np.allclose(np.asarray(prev.data), np.asarray(impl.data), rtol=0, atol=1e-13):
                col.violation('C09:bfs:paths_disagree', dict(p, path=path), '')

    def enabled2(state):
        # a mirrored folded spectrum is not a valid folded spectrum: do not unfold it (outside the property)
        ops = enabled(state)
        return ops

    res = explore.bfs([(impl0, ref0)], enabled2, step, canon,
                      on_state=lambda s, d, path: check(s, path),
                      on_transition=lambda s, op, ns_, path, prev: check(ns_, path, prev[0] if prev else None),
                      max_depth=p['depth'])
    col.tick(states=res['states'], traces=res['transitions'])
    col.distinct('nontrivial', ('bfs', ns, tuple(map(tuple, p.get('masked', [])))))


# ------------------------------------------------------------------------------------------------ D
def case_misid(col, p):
    import dadi
    from dadi import Numerics
    ns = tuple(p['ns'])
    shape = tuple(n + 1 for n in ns)
    idxs = list(np.ndindex(*shape))
    for idx in idxs:
        data = np.zeros(shape)
        data[idx] = 1.0
        mask = np.zeros(shape, bool)
        mask[idxs[(idxs.index(idx) + 1) % len(idxs)]] = True
        fs = dadi.Spectrum(data, mask=mask, mask_corners=False, pop_ids=['z'] * len(ns))
        for pm in (0.0, 0.25, 0.5, 1.0):
            out = Numerics.apply_anc_state_misid(fs, pm)
            col.tick(transitions=1)
            d = RS.fr_array(data)
            ex = (1 - Fraction(pm)) * d + Fraction(pm) * RS.mirror(d)
            exm = mask | RS.mirror(mask)
            _cmp(col, 'C09:misid', dict(p, unit=idx, p_misid=pm), out, ex, exm, False)
            if out.pop_ids != ['z'] * len(ns):
                col.violation('C09:misid:labels', dict(p, unit=idx, p_misid=pm), {'pop_ids': out.pop_ids})
            if not np.array_equal(np.asarray(fs.data), data):
                col.violation('C09:misid:input_modified', dict(p, unit=idx), '')

    # parameter plumbing of make_anc_state_misid_func
    seen = {}

    def model(params, ns_, pts, extra=None):
        seen['params'] = list(params)
        seen['ns'] = ns_
        seen['pts'] = pts
        seen['extra'] = extra
        d = np.arange(1.0, np.prod(shape) + 1).reshape(shape)
        return dadi.Spectrum(d, mask_corners=False)
    mf = Numerics.make_anc_state_misid_func(model)
    out = mf([2.0, 3.0, 0.25], ns, 17, extra='e')
    col.tick(transitions=1)
    d = RS.fr_array(np.arange(1.0, np.prod(shape) + 1).reshape(shape))
    ex = Fraction(3, 4) * d + Fraction(1, 4) * RS.mirror(d)
    _cmp(col, 'C09:misid_func', p, out, ex, np.zeros(shape, bool), False)
    if seen != {'params': [2.0, 3.0], 'ns': ns, 'pts': 17, 'extra': 'e'}:
        col.violation('C09:misid_func:plumbing', p, seen)
    # the wrapper over the whole range of the misidentification probability (above 1/2 the mirror image dominates - no reflection)
    for pmq in (Fraction(0), Fraction(1, 2), Fraction(5, 8), Fraction(7, 8), Fraction(1)):
        outq = mf([2.0, 3.0, float(pmq)], ns, 17, extra='e')
        col.tick(transitions=1)
        _cmp(col, 'C09:misid_func', dict(p, p_misid=float(pmq)), outq, (1 - pmq) * d + pmq * RS.mirror(d), np.zeros(shape, bool), False)
    # a folded spectrum cannot be declared unfolded by re-wrapping it (that would silently treat minor-allele counts as derived-allele counts)
    try:
        bad = dadi.Spectrum(dadi.Spectrum(np.arange(1.0, np.prod(shape) + 1).reshape(shape)).fold(), data_folded=False)
        col.violation('C09:constructor:folded_declared_unfolded_accepted', p, {'folded_flag_of_result': bool(bad.folded)})
    except ValueError:
        pass
    # the older wrapper Inference.add_misid_param (deprecated, still public) is the same convex mix
    import warnings as _w
    from dadi import Inference
    try:
        with _w.catch_warnings():
            _w.simplefilter('ignore')
            mf_old = Inference.add_misid_param(model)
            out_old = mf_old([2.0, 3.0, 0.25], ns, 17, extra='e')
        col.tick(transitions=1)
        _cmp(col, 'C09:add_misid_param', p, out_old, ex, np.zeros(shape, bool), False)
    except Exception as e:
        col.violation('C09:add_misid_param:raises', p, '%s: %s' % (type(e).__name__, e))
    # call history of ONE wrapped function: same demographic parameters and grid, but other sample sizes / extra arguments / p_misid;
    # every call must return (1-p) x + p mirror(x) of the model evaluated with the arguments of THAT call
    def model2(params, ns_, pts, extra=1.0, scale=1.0):
        sh = tuple(n + 1 for n in ns_)
        d = (np.arange(1.0, np.prod(sh) + 1).reshape(sh) * params[0] + params[1]) * extra * scale
        return dadi.Spectrum(d, mask_corners=False)
    mf2 = Numerics.make_anc_state_misid_func(model2)
    ns_alt = tuple(n + 1 for n in ns)
    calls = [(ns, 1.0, 1.0, 0.25), (ns_alt, 1.0, 1.0, 0.25), (ns, 2.0, 1.0, 0.25), (ns, 1.0, 3.0, 0.25), (ns, 1.0, 1.0, 0.5), (ns_alt, 2.0, 3.0, 0.0)]
    for order in itertools.permutations(range(len(calls)), 2):
        mf2 = Numerics.make_anc_state_misid_func(model2)
        for q in order:
            ns_q, extra, scale, pm = calls[q]
            out = mf2([2.0, 3.0, pm], ns_q, 17, extra, scale=scale)
            col.tick(transitions=1)
            d = RS.fr_array(np.asarray(model2([2.0, 3.0], ns_q, 17, extra, scale=scale).data))
            ex = (1 - Fraction(pm)) * d + Fraction(pm) * RS.mirror(d)
            if tuple(out.shape) != tuple(n + 1 for n in ns_q):
                col.violation('C09:misid_func:result_depends_on_history', dict(p, order=order, call=q), {'shape': tuple(out.shape)})
                break
            _cmp(col, 'C09:misid_func:result_depends_on_history', dict(p, order=order, call=q), out, ex, np.zeros(out.shape, bool), False)
    col.tick(states=len(idxs) * 4, traces=len(idxs) * 4)
    col.distinct('nontrivial', ('misid', ns))


# ------------------------------------------------------------------------------------------------ E
BIN = {'add': operator.add, 'sub': operator.sub, 'mul': operator.mul, 'truediv': operator.truediv,
       'floordiv': operator.floordiv, 'pow': operator.pow}
INP = {'iadd': operator.iadd, 'isub': operator.isub, 'imul': operator.imul, 'itruediv': operator.itruediv,
       'ifloordiv': operator.ifloordiv, 'ipow': operator.ipow}


def case_arith(col, p):
    import dadi
    ns = tuple(p['ns'])
    shape = tuple(n + 1 for n in ns)
    opname, okind, self_folded, refl = p['op'], p['operand'], p['self_folded'], p['reflected']
    base = (2.0 + (np.arange(int(np.prod(shape))) * 3 % 7).reshape(shape)) / 2.0
    base.flat[3] = 0.0            # an empty, unmasked bin: arithmetic must not mask it (nor anything else the operands did not mask)
    other_d = (1.0 + (np.arange(int(np.prod(shape))) * 5 % 3).reshape(shape))
    m1 = np.zeros(shape, bool); m1.flat[1] = True
    m2 = np.zeros(shape, bool); m2.flat[2] = True
    ids = ['L%d' % i for i in range(len(ns))]
    self_labelled = p.get('self_labelled', True)
    a = dadi.Spectrum(base.copy(), mask=m1.copy(), mask_corners=False, pop_ids=ids if self_labelled else None)
    if self_folded:
        a = a.fold()
    a_data0, a_mask0 = np.asarray(a.data).copy(), np.ma.getmaskarray(a).copy()
    if okind == 'scalar':
        b, bmask, bfolded = 2.0, None, None
    elif okind == 'ndarray':
        b, bmask, bfolded = other_d.copy(), None, None
    elif okind == 'masked':
        b, bmask, bfolded = np.ma.masked_array(other_d.copy(), mask=m2.copy()), m2, None
    else:
        b = dadi.Spectrum(other_d.copy(), mask=m2.copy(), mask_corners=False, pop_ids=ids)
        if okind == 'folded':
            b = b.fold()
        bmask, bfolded = np.ma.getmaskarray(b).copy(), (okind == 'folded')
    bd = np.asarray(getattr(b, 'data', b), dtype=float) if not np.isscalar(b) else b
    inplace = opname.startswith('i')
    f = (INP if inplace else BIN)[opname]
    should_raise = bfolded is not None and bfolded != self_folded
    try:
        if inplace:
            res = f(a, b)
        elif refl:
            res = f(b, a)
        else:
            res = f(a, b)
    except ValueError as e:
        col.tick(transitions=1)
        if not should_raise:
            col.violation('C09:arith:raises', p, 'ValueError: %s' % e)
        else:
            col.tick(rejected=1)
        return
    except Exception as e:
        col.tick(transitions=1)
        col.violation('C09:arith:raises', p, '%s: %s' % (type(e).__name__, e))
        return
    col.tick(transitions=1)
    if should_raise:
        col.violation('C09:arith:mixed_folding_accepted', p, 'folded %s unfolded did not raise' % opname)
        return
    if refl and okind in ('unfolded', 'folded'):
        # b is a Spectrum on the left: same rules with roles exchanged
        pass
    if not isinstance(res, dadi.Spectrum):
        col.violation('C09:arith:type', p, str(type(res)))
        return
    if res.folded != self_folded:
        col.violation('C09:arith:folded_flag', p, {'got': res.folded, 'expected': self_folded})
    # binary operators adopt the other operand's labels when this one has none; in-place operators keep this spectrum's own (absent) labels
    exp_ids = ids if (self_labelled or (okind in ('unfolded', 'folded') and not inplace)) else None
    if res.pop_ids != exp_ids:
        col.violation('C09:arith:labels', p, {'got': res.pop_ids, 'expected': exp_ids})
    exm = a_mask0 | bmask if bmask is not None else a_mask0
    gm = np.ma.getmaskarray(res)
    if not np.array_equal(gm, exm):
        col.violation('C09:arith:mask', p, {'got': gm.astype(int), 'exp': exm.astype(int)})
    bf = BIN[opname[1:] if inplace else opname]
    with np.errstate(all='ignore'):
        exd = bf(bd, a_data0) if refl else bf(a_data0, bd)
    gd = np.asarray(res.data)
    sel = ~exm
    if not np.allclose(gd[sel], exd[sel], rtol=1e-15, atol=0, equal_nan=True):
        col.violation('C09:arith:data', p, {'got': gd, 'exp': exd})
    if not inplace and not (np.array_equal(np.asarray(a.data), a_data0) and np.array_equal(np.ma.getmaskarray(a), a_mask0)):
        col.violation('C09:arith:operand_modified', p, '')
    if not inplace:
        # the result is a spectrum of its own: masking one of its entries afterwards leaves the operand as it was
        free = [i for i in range(res.size) if not gm.flat[i]]
        if free:
            res.mask.flat[free[-1]] = True
            if not np.array_equal(np.ma.getmaskarray(a), a_mask0):
                col.violation('C09:arith:result_shares_mask_with_operand', p, {'entry_masked_in_result': free[-1]})
    col.distinct('nontrivial', ('arith', opname, okind, self_folded, refl, self_labelled))


def case_slice_ll(col, p):
    import dadi
    ns = tuple(p['ns'])
    shape = tuple(n + 1 for n in ns)
    base = (2.0 + (np.arange(int(np.prod(shape))) * 3 % 7).reshape(shape))
    ids = ['L%d' % i for i in range(len(ns))]
    for folded in (False, True):
        fs = dadi.Spectrum(base.copy(), pop_ids=ids)
        if folded:
            fs = fs.fold()
        slicers = [np.s_[:], np.s_[0], np.s_[1:], np.s_[::2], np.s_[..., 0], np.s_[..., 1:]]
        for s in slicers:
            sub = fs[s]
            col.tick(transitions=1)
            if not isinstance(sub, np.ndarray) or sub.ndim == 0:
                continue        # a scalar entry carries no attributes
            if getattr(sub, 'folded', None) != folded:
                col.violation('C09:slice:folded_flag', dict(p, slicer=repr(s), folded=folded), {'got': getattr(sub, 'folded', None)})
            if not np.array_equal(np.ma.getmaskarray(sub), np.ma.getmaskarray(fs)[s]):
                col.violation('C09:slice:mask', dict(p, slicer=repr(s), folded=folded), '')
        for fn in ('log', 'copy'):
            r = getattr(fs, fn)()
            if getattr(r, 'folded', None) != folded or getattr(r, 'pop_ids', None) != ids:
                col.violation('C09:%s:attributes' % fn, dict(p, folded=folded), {'folded': getattr(r, 'folded', None), 'pop_ids': getattr(r, 'pop_ids', None)})
            if not np.array_equal(np.ma.getmaskarray(r), np.ma.getmaskarray(fs)):
                col.violation('C09:%s:mask' % fn, dict(p, folded=folded), '')
        if not folded:
            # corners left unmasked on purpose (monomorphic classes kept): unary operations and the likelihood keep them
            fu = dadi.Spectrum(base.copy(), pop_ids=ids, mask_corners=False)
            for fn in ('log', 'copy'):
                r = getattr(fu, fn)()
                col.tick(transitions=1)
                if np.ma.getmaskarray(r).any():
                    col.violation('C09:%s:mask' % fn, dict(p, folded=folded, corners='unmasked'), {'masked': int(np.ma.getmaskarray(r).sum())})
            du = dadi.Spectrum((base * 2 % 5).copy(), pop_ids=ids, mask_corners=False)
            per = dadi.Inference.ll_per_bin(fu, du)
            col.tick(transitions=1)
            if np.ma.getmaskarray(per).any():
                col.violation('C09:ll_per_bin:mask', dict(p, corners='unmasked'), {'masked': int(np.ma.getmaskarray(per).sum())})
    # likelihood auto-folding
    model = dadi.Spectrum(base.copy() / 3.0, pop_ids=ids)
    data = dadi.Spectrum((base[tuple(slice(None, None, -1) for _ in shape)] * 2 % 5).copy(), pop_ids=ids).fold()
    snap = (np.asarray(model.data).copy(), np.ma.getmaskarray(model).copy(), np.asarray(data.data).copy(), np.ma.getmaskarray(data).copy())
    # the residual functions fold the model the same way, for every cutoff below which model and data are both ignored
    for fname in ('Anscombe_Poisson_residual', 'linear_Poisson_residual'):
        fn = getattr(dadi.Inference, fname)
        for cutoff in (None, 0.4, 1.0, 2.5):
            r1 = fn(model, data, mask=cutoff)
            r2 = fn(model.fold(), data, mask=cutoff)
            col.tick(transitions=2)
            if not (np.array_equal(np.ma.getmaskarray(r1), np.ma.getmaskarray(r2)) and
                    np.allclose(np.ma.filled(r1, 0.0), np.ma.filled(r2, 0.0), rtol=1e-12, atol=0, equal_nan=True)):
                col.violation('C09:%s:autofold' % fname, dict(p, cutoff=cutoff),
                              {'masked_auto': int(np.ma.getmaskarray(r1).sum()), 'masked_explicit': int(np.ma.getmaskarray(r2).sum())})
    for fname in ('ll', 'll_multinom'):
        fn = getattr(dadi.Inference, fname)
        v1 = fn(model, data)
        v2 = fn(model.fold(), data)
        col.tick(transitions=2)
        if not (v1 == v2 or abs(v1 - v2) <= 1e-12 * abs(v2)):
            col.violation('C09:%s:autofold' % fname, p, {'auto': float(v1), 'explicit': float(v2)})
        if model.folded or not data.folded or model.pop_ids != ids or data.pop_ids != ids:
            col.violation('C09:%s:flags_changed' % fname, p, {'model.folded': model.folded, 'data.folded': data.folded})
        now = (np.asarray(model.data), np.ma.getmaskarray(model), np.asarray(data.data), np.ma.getmaskarray(data))
        if not all(np.array_equal(x, y) for x, y in zip(snap, now)):
            col.violation('C09:%s:inputs_modified' % fname, p, '')
    # data with entries the user masked on top of the folding mask: the per-bin likelihood is masked on the union, and ll sums the rest
    from math import lgamma, log
    fm = model.fold()
    free = [idx for idx in np.ndindex(*shape) if not np.ma.getmaskarray(data)[idx]]
    total_n = sum(ns)
    ambiguous = [idx for idx in free if 2 * sum(idx) == total_n]       # entries whose mirror is also kept (shared half and half)
    for extra in (free[:3] + [idx for idx in ambiguous if idx not in free[:3]]):
        d2 = data.copy()
        d2.mask[extra] = True
        # automatic folding of the model == folding it by hand, for the scaling and the multinomial likelihood too
        for fname in ('optimal_sfs_scaling', 'll_multinom'):
            fn_ = getattr(dadi.Inference, fname)
            va, vb = float(fn_(model, d2)), float(fn_(fm, d2))
            col.tick(transitions=2)
            if not abs(va - vb) <= 1e-12 * max(1.0, abs(vb)):
                col.violation('C09:%s:autofold' % fname, dict(p, extra_masked=extra), {'auto': va, 'explicit': vb})
        per = dadi.Inference.ll_per_bin(model, d2)
        col.tick(transitions=2)
        exm = np.ma.getmaskarray(fm) | np.ma.getmaskarray(d2)
        if not np.array_equal(np.ma.getmaskarray(per), exm):
            col.violation('C09:ll_per_bin:autofold:mask', dict(p, extra_masked=extra), {'masked': int(np.ma.getmaskarray(per).sum()), 'expected': int(exm.sum())})
        tot = 0.0
        for idx in np.ndindex(*shape):
            if not exm[idx]:
                m_, d_ = float(fm.data[idx]), float(d2.data[idx])
                tot += -m_ + d_ * log(m_) - lgamma(d_ + 1.0)
        got = float(dadi.Inference.ll(model, d2))
        if not abs(got - tot) <= 1e-11 * max(1.0, abs(tot)):
            col.violation('C09:ll:autofold:value', dict(p, extra_masked=extra), {'got': got, 'exact': tot})
    col.tick(states=14)
    col.distinct('nontrivial', ('slice_ll', ns))


def case_fold_large(col, p):
    """sample sizes beyond 255 chromosomes in one population: folding, unfolding and their masks against the exact reference"""
    import dadi
    ns = tuple(p['ns'])
    shape = tuple(n + 1 for n in ns)
    dense = (3.0 + (np.arange(int(np.prod(shape))) * 5 % 13).reshape(shape)) / 8.0
    mask = np.zeros(shape, bool)
    mask.flat[0] = mask.flat[-1] = True
    mask.flat[int(np.prod(shape)) // 3] = True
    fs = dadi.Spectrum(dense.copy(), mask=mask.copy(), mask_corners=False)
    f = fs.fold()
    rd, rm = RS.fold(RS.fr_array(dense), mask)
    _cmp(col, 'C09:fold_masked', dict(p), f, rd, rm, True, data_everywhere=True)
    u = f.unfold()
    ud, um = RS.unfold(rd, rm)
    _cmp(col, 'C09:unfold_masked', dict(p), u, ud, um, False)
    ff = u.fold()
    col.tick(transitions=3, states=1, traces=1)
    if not (np.allclose(np.asarray(ff.data), np.asarray(f.data), rtol=0, atol=1e-13) and np.array_equal(np.ma.getmaskarray(ff), np.ma.getmaskarray(f))):
        col.violation('C09:fold_unfold_fold', dict(p), '')
    col.distinct('nontrivial', ('fold_large', ns))


CASES = {'fold_large': case_fold_large, 'fold_basis': case_fold_basis, 'bfs': case_bfs, 'misid': case_misid, 'arith': case_arith, 'slice_ll': case_slice_ll}


def _dispatch(col, case):
    CASES[case['kind']](col, case)


def replay(ctx, case):
    _dispatch(ctx, case)


def run(ctx):
    cases = []
    shapes = []
    for d in range(1, 6):
        for ns in itertools.product((1, 2, 3), repeat=d):
            if d >= 4 and ctx.quick and tuple(sorted(ns)) != ns:
                continue      # quick: sorted representatives in 4-D/5-D (thorough: all)
            shapes.append(ns)
    shapes += [(4, 5), (6,), (5,), (4,), (7,), (4, 4)]
    for ns in shapes:
        npts = int(np.prod([n + 1 for n in ns]))
        if npts > 150:
            for lo in range(0, npts, 96):
                cases.append({'kind': 'fold_basis', 'ns': ns, 'pairs': False, 'units': (lo, min(npts, lo + 96))})
        else:
            cases.append({'kind': 'fold_basis', 'ns': ns, 'pairs': npts <= (40 if ctx.quick else 130)})
    for ns_l in ((300,), (301,), (256, 3), (2, 260), (255, 255)):
        cases.append({'kind': 'fold_large', 'ns': ns_l})
    if ctx.quick:
        ctx.note('quick: 4-D/5-D shapes restricted to non-decreasing sample-size tuples; thorough: all of {1,2,3}^d')
    for ns, masked in [((3,), []), ((4,), [(1,)]), ((5,), [(2,)]), ((2, 3), [(1, 1)]), ((2, 2), [(0, 2)]), ((3, 3), [(1, 2), (3, 0)]),
                       ((1, 2, 3), [(0, 1, 1)]), ((2, 2, 2), [(1, 1, 1)]), ((1, 1, 1, 1), []), ((2, 1, 2, 1, 2), [(1, 0, 1, 0, 1)])]:
        cases.append({'kind': 'bfs', 'ns': ns, 'masked': masked, 'depth': 3 if ctx.quick else 4})
    for ns in [(1,), (2,), (3,), (4,), (2, 3), (3, 3), (1, 2, 3), (2, 2, 1, 1)] + ([(1, 2, 1, 2, 1)] if not ctx.quick else []):
        cases.append({'kind': 'misid', 'ns': ns})
    for ns in [(4,), (2, 3)] + ([(2, 2, 3)] if not ctx.quick else []):
        for op in list(BIN) + list(INP):
            for okind in ('scalar', 'ndarray', 'masked', 'unfolded', 'folded'):
                for self_folded in (False, True):
                    for refl in ((False, True) if not op.startswith('i') else (False,)):
                        if refl and okind == 'masked':
                            continue   # plain masked_array on the left: numpy decides, not dadi
                        cases.append({'kind': 'arith', 'ns': ns, 'op': op, 'operand': okind, 'self_folded': self_folded, 'reflected': refl})
                        if okind in ('unfolded', 'folded', 'scalar'):
                            # this spectrum without labels, the other operand (if a spectrum) with: the labels must survive either order
                            cases.append({'kind': 'arith', 'ns': ns, 'op': op, 'operand': okind, 'self_folded': self_folded, 'reflected': refl,
                                          'self_labelled': False})
        cases.append({'kind': 'slice_ll', 'ns': ns})
    for ns in [(2, 2), (2, 4), (3, 3)] + ([(2, 2, 2)] if not ctx.quick else []):
        cases.append({'kind': 'slice_ll', 'ns': ns})        # even pooled sample size: folding has ambiguous (self-paired) entries
    from mc.evidence import Collector
    a, b = Collector(), Collector()
    _dispatch(a, cases[5]); _dispatch(b, cases[5])
    assert a.viol_count == b.viol_count and a.counters == b.counters
    cases.sort(key=lambda c: -(min(96, int(np.prod([n + 1 for n in c['ns']]))) * int(np.prod([n + 1 for n in c['ns']])) * (3 if c.get('pairs') else 1)))
    explore.pmap(ctx, _dispatch, cases, chunk=1)
    ctx.tick(evaluations=len(cases))
    for c in (cases[0], cases[len(cases) // 2], cases[-1]):
        ctx.sample(c)
    ctx.rule = ('every unit data array, every singleton mask (pairs for small shapes) for every shape in {1,2,3}^d d<=5; BFS over '
                'fold/unfold/mirror; every operator x operand kind x folded state. distinct_nontrivial = distinct (part, shape/op) '
                'groups all of whose members were compared with the explicit re-indexing reference')
    ctx.assume('fold/unfold/misid are linear in data and OR-homomorphic in masks (pairs re-check this), so unit arrays and singleton masks are a basis')
    ctx.assume("dadi convention: both corners of a spectrum are masked; fold()/unfold() re-mask them unconditionally, the reference does the same")
