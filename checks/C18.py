"""C18 – the low-pass calling model redistributes probability and vanishes at deep coverage.

Enumerated: coverage distributions over depths 0..80 (point masses, uniform, two-point mixtures, geometric – 12 members) x n_sequenced in {2..12}
(thorough ..20) x every even n_subsampling <= n_sequenced x F lattice x 1-3 populations x sim_threshold in {0, 1e-2, 1}; all allele counts.
Oracle: partitions of each allele count == brute-force enumeration of ALL genotype vectors (3^(n/2)) up to order, each exactly once; their
probabilities == exact multinomial / conditional beta-binomial law in Fractions; matrices row-stochastic, non-negative; F->0 continuity;
no-call probabilities in [0,1]; corrected total <= model total for every unit model spectrum; deep coverage => plain projection.
"""
import itertools
import math
from fractions import Fraction
from math import comb, factorial

import numpy as np

from mc import explore

LEVEL = 'model_checking'
DMAX = 80
FS = [0.0, 1e-8, 1e-6, 1e-3, 0.1, 0.5, 0.9]       # 1e-8: (1-F)/F beyond 1e7, where a large-parameter branch of the beta-binomial would sit


def coverage_alphabet():
    d = np.arange(DMAX + 1, dtype=float)
    out = {}

    def norm(p):
        p = np.asarray(p, dtype=float)
        return p / p.sum()
    for k in (1, 2, 5, 80):
        p = np.zeros(DMAX + 1); p[k] = 1.0
        out['point%d' % k] = p
    for k in (3, 10, 80):
        p = np.zeros(DMAX + 1); p[:k + 1] = 1.0
        out['uniform0_%d' % k] = norm(p)
    p = np.zeros(DMAX + 1); p[0] = 0.3; p[4] = 0.7
    out['mix0_4'] = p
    p = np.zeros(DMAX + 1); p[1] = 0.5; p[30] = 0.5
    out['mix1_30'] = p
    p = np.zeros(DMAX + 1); p[0] = 0.9; p[1] = 0.1
    out['mostly_uncovered'] = p
    out['geom0.5'] = norm(0.5 ** d)
    out['geom0.9'] = norm(0.9 ** d)
    return {k: np.array([d, v]) for k, v in out.items()}


def bb2(k, a, b):
    """beta-binomial(2, a, b) pmf, exact for rational a, b"""
    den = (a + b) * (a + b + 1)
    return [b * (b + 1) / den, 2 * a * b / den, a * (a + 1) / den][k]


def case_partitions(col, p):
    from dadi.LowPass import LowPass as LP
    n = p['n']
    nind = n // 2
    allvecs = list(itertools.product((0, 1, 2), repeat=nind))
    cnt = 0
    from dadi import Numerics
    if p.get('prehistory') == 'polyploid':
        # the partition tables are shared (memoised) with the polyploid inbreeding code: use them first for the same totals and sizes
        for pl in (4, 6):
            for a in range(pl * nind + 1):
                got = sorted(tuple(sorted(x)) for x in Numerics.cached_part(a, nind, maxval=pl))
                ex = sorted(set(tuple(sorted(v)) for v in itertools.product(range(pl + 1), repeat=nind) if sum(v) == a)) if nind <= 4 else None
                if ex is not None and got != ex:
                    col.violation('C18:cached_part:polyploid_partitions', dict(p, ploidy=pl, total=a), {'got': got[:5]})
            Numerics.BetaBinomConvolution(pl, nind, 0.7, 1.3, ploidy=pl)
    for F in p['Fs']:
        parts_g, probs_g = LP.partitions_and_probabilities(n, 'genotype', F)
        col.tick(transitions=1)
        if len(parts_g) != n + 1:
            col.violation('C18:partitions:genotype_length', dict(p, F=F), len(parts_g))
            continue
        for a in range(n + 1):
            parts_a, probs_a = LP.partitions_and_probabilities(n, 'allele_frequency', F, a)
            col.tick(transitions=1)
            cnt += 1
            info = dict(kind='partitions', n=n, F=F, allele_count=a, Fs=[F])
            brute = sorted(set(tuple(sorted(v)) for v in allvecs if sum(v) == a))
            got = [tuple(sorted(x)) for x in parts_a]
            if sorted(got) != brute or len(set(got)) != len(got):
                col.violation('C18:partitions:not_all_and_only_genotype_configurations', info, {'got': sorted(got)[:10], 'expected': brute[:10]})
                continue
            if sorted(tuple(sorted(x)) for x in parts_g[a]) != brute:
                col.violation('C18:partitions:genotype_type_differs', info, '')
            pr = np.asarray(probs_a, dtype=float)
            if not (np.all(pr >= 0) and abs(pr.sum() - 1) <= 1e-12):
                col.violation('C18:partitions:probabilities_do_not_sum_to_one', info, {'sum': float(pr.sum())})
            if not np.allclose(np.asarray(probs_g[a], dtype=float), pr, rtol=1e-12, atol=1e-300):
                col.violation('C18:partitions:genotype_vs_allele_frequency_probabilities', info, '')
            # exact law
            ex = []
            for part in parts_a:
                n0, n1, n2 = part.count(0), part.count(1), part.count(2)
                ways = Fraction(factorial(nind), factorial(n0) * factorial(n1) * factorial(n2))
                if F == 0:
                    ex.append(ways * 2 ** n1)
                elif a == 0 or a == n:
                    ex.append(Fraction(1))
                else:
                    Ff = Fraction(float(F))
                    pp = Fraction(a, n)
                    al, be = pp * (1 - Ff) / Ff, (1 - pp) * (1 - Ff) / Ff
                    ex.append(ways * bb2(0, al, be) ** n0 * bb2(1, al, be) ** n1 * bb2(2, al, be) ** n2)
            tot = sum(ex)
            exf = np.array([float(v / tot) for v in ex])
            tol = 1e-10 + (3e-13 / F if F > 0 else 0.0)      # betaln cancellation for small F (conditioning-aware, cf. C05)
            if not np.allclose(pr, exf, rtol=tol, atol=tol * 1e-3):
                col.violation('C18:partitions:probabilities', info, {'got': pr, 'exact': exf})
            else:
                col.observe('partition_prob', float(np.abs(pr - exf).max()) / max(tol, 1e-300) if exf.size else 0.0)
    if p.get('prehistory') == 'polyploid' and nind <= 4:
        # and afterwards the polyploid tables must still be right (diploid use must not poison them either)
        for a in range(4 * nind + 1):
            got = sorted(tuple(sorted(x)) for x in Numerics.cached_part(a, nind, maxval=4))
            ex = sorted(set(tuple(sorted(v)) for v in itertools.product(range(5), repeat=nind) if sum(v) == a))
            if got != ex:
                col.violation('C18:cached_part:polyploid_partitions_after_diploid_use', dict(p, total=a), {'got': got[:5]})
    col.tick(states=cnt, traces=cnt)
    col.distinct('nontrivial', ('partitions', n, tuple(p['Fs']), p.get('prehistory')))


def case_matrices(col, p):
    from dadi.LowPass import LowPass as LP
    import dadi
    n = p['n']
    covs = coverage_alphabet()
    cnt = 0
    for nsub in range(2, n + 1, 2):
        base = None
        prev = None
        for F in FS:
            M = LP.projection_matrix(n, nsub, F)
            col.tick(transitions=1)
            cnt += 1
            info = dict(kind='matrices', n=n, nsub=nsub, F=F)
            if M.shape != (n + 1, nsub + 1) or not np.isfinite(M).all() or M.min() < -1e-15 or not np.allclose(M.sum(axis=1), 1.0, rtol=0, atol=1e-10):
                col.violation('C18:projection_matrix:not_row_stochastic', info, {'rowsums': M.sum(axis=1), 'min': float(np.nanmin(M))})
                continue
            if F == 0:
                base = M
                # equals hypergeometric projection
                ex = np.array([[comb(nsub, j) * comb(n - nsub, h - j) / comb(n, h) if 0 <= h - j <= n - nsub else 0.0 for j in range(nsub + 1)] for h in range(n + 1)])
                if not np.allclose(M, ex, rtol=1e-11, atol=1e-14):
                    col.violation('C18:projection_matrix:F0_not_hypergeometric', info, '')
            else:
                err = float(np.abs(M - base).max())
                if F <= 1e-6 and err > 1e-4:
                    col.violation('C18:projection_matrix:discontinuous_at_F0', info, {'maxdiff': err})
                if prev is not None and F <= 0.1 and prev[0] > 0 and err < prev[1] * 0.999 and prev[1] > 1e-9:
                    col.violation('C18:projection_matrix:not_contracting_as_F_to_0', info, {'F': F, 'err': err, 'smaller_F': prev[0], 'its_err': prev[1]})
                prev = (F, err)
        for cname, cov in covs.items():
            for F in FS:
                E = LP.calling_error_matrix(cov, nsub, F)
                col.tick(transitions=1)
                cnt += 1
                info = dict(kind='matrices', n=n, nsub=nsub, F=F, coverage=cname)
                if E.shape != (nsub + 1, nsub + 1) or not np.isfinite(E).all() or E.min() < -1e-15 or not np.allclose(E.sum(axis=1), 1.0, rtol=0, atol=1e-10):
                    col.violation('C18:calling_error_matrix:not_row_stochastic', info, {'rowsums': E.sum(axis=1) if np.isfinite(E).all() else 'nonfinite'})
    for cname, cov in covs.items():
        for F in FS:
            pn = LP.probability_of_no_call_1D_GATK_multisample(cov, n, F)
            col.tick(transitions=1)
            cnt += 1
            if pn.shape != (n + 1,) or not np.isfinite(pn).all() or pn.min() < -1e-15 or pn.max() > 1 + 1e-12:
                col.violation('C18:probability_of_no_call:outside_unit_interval', dict(kind='matrices', n=n, F=F, coverage=cname), {'values': pn})
        for nsub in range(2, n + 1, 2):
            pe = LP.probability_enough_individuals_covered(cov, n, nsub)
            col.tick(transitions=1)
            if not (-1e-15 <= pe <= 1 + 1e-12):
                col.violation('C18:probability_enough_individuals_covered:outside_unit_interval', dict(kind='matrices', n=n, nsub=nsub, coverage=cname), {'value': float(pe)})
    col.tick(states=cnt, traces=cnt)
    col.distinct('nontrivial', ('matrices', n))


def case_correction(col, p):
    """full wrapper on every unit model spectrum: totals never increase; deep coverage => plain projection"""
    import dadi
    from dadi.LowPass import LowPass as LP
    nseq, nsub, Fx, thr, cname = tuple(p['nseq']), tuple(p['nsub']), list(p['F']), p['sim_threshold'], p['coverage']
    covs = coverage_alphabet()
    npop = len(nseq)
    pops = ['pop%d' % k for k in range(npop)]
    cov = {q: covs[cname] for q in pops}
    shape = tuple(n + 1 for n in nseq)
    N = int(np.prod(shape))
    holder = {}

    def model(params, ns, pts):
        # the model hands out ONE persistent spectrum per model value (a memoising model does): the wrapper must leave it as it is
        if holder.get('fs_of') is not holder['data']:
            holder['fs'] = dadi.Spectrum(holder['data'].copy(), mask_corners=False)
            holder['fs_of'] = holder['data']
        return holder['fs']
    np.random.seed(p.get('seed', 0) + 7)
    LP.rng = np.random.default_rng(p.get('seed', 0) + 7)
    if p.get('prehistory'):
        # another wrapped model with the same sizes and settings but another coverage distribution was built and used earlier in this process
        cov0 = {q: covs[p['prehistory']] for q in pops}
        holder['data'] = np.full(shape, 1.0 / N)
        f0 = LP.make_low_pass_func_GATK_multisample(model, cov0, pops, list(nseq), list(nsub), sim_threshold=thr, Fx=Fx, nsim=200)
        f0(None, list(nsub), None)
        col.tick(transitions=1)
    f = LP.make_low_pass_func_GATK_multisample(model, cov, pops, list(nseq), list(nsub), sim_threshold=thr, Fx=Fx, nsim=200)
    cnt = 0
    deep = cname in ('point80',)
    for j in range(N):
        e = np.zeros(N); e[j] = 1.0
        holder['data'] = e.reshape(shape)
        try:
            out = f(None, list(nsub), None)
        except Exception as ex:
            col.violation('C18:make_low_pass_func:raises', dict(p, unit=j), '%s: %s' % (type(ex).__name__, str(ex)[:200]))
            break
        col.tick(transitions=1)
        cnt += 1
        od = np.asarray(getattr(out, 'data', out), dtype=float)
        info = dict(p, unit=np.unravel_index(j, shape))
        if not (np.array_equal(np.asarray(holder['fs'].data), holder['data']) and not np.ma.getmaskarray(holder['fs']).any()):
            col.violation('C18:make_low_pass_func:model_spectrum_modified', info, {'total_now': float(np.asarray(holder['fs'].data).sum())})
            holder['fs_of'] = None
        elif j % 3 == 0:
            # a second correction of the same model spectrum gives the same answer
            out2 = f(None, list(nsub), None)
            col.tick(transitions=1)
            if not np.array_equal(np.asarray(getattr(out2, 'data', out2), dtype=float), od, equal_nan=True):
                col.violation('C18:make_low_pass_func:second_correction_differs', info, '')
        if od.shape != tuple(n + 1 for n in nsub) or not np.isfinite(od).all():
            col.violation('C18:make_low_pass_func:bad_output', info, {'shape': od.shape, 'finite': bool(np.isfinite(od).all())})
            continue
        if od.min() < -1e-12:
            col.violation('C18:make_low_pass_func:negative_entries', info, {'min': float(od.min())})
        if od.sum() > 1.0 + 1e-10:
            col.violation('C18:make_low_pass_func:more_sites_than_model', info, {'total': float(od.sum())})
        if npop >= 2:
            # redistribution never invents an allele: a variant absent from a population's sample (no read can show it) is absent from its calls
            uidx = np.unravel_index(j, shape)
            for k in range(npop):
                if uidx[k] == 0 and sum(uidx) > 0:
                    sl = [slice(None)] * npop
                    sl[k] = slice(1, None)
                    leaked = float(np.abs(od[tuple(sl)]).sum())
                    if leaked > 1e-12:
                        col.violation('C18:make_low_pass_func:allele_appears_in_population_without_it', dict(info, pop=k), {'mass': leaked})
        if deep and thr < 1e-2 and all(F == 0 for F in Fx) and sum(np.unravel_index(j, shape)) > 0:
            # simulated regime, deep coverage: every genotype is called correctly (a miscall needs 0 of 80 reads of an allele), so whatever the
            # random subsets drawn, a site can only land on entries the plain projection reaches
            proj = np.asarray(dadi.Spectrum(holder['data'].copy(), mask_corners=False).project(list(nsub)).data)
            outside = (proj == 0) & (od > 1e-12)
            if outside.any():
                col.violation('C18:make_low_pass_func:simulated:sites_outside_projection_support', info,
                              {'entries': [tuple(int(x) for x in ix) for ix in np.argwhere(outside)[:5]], 'mass': float(od[outside].sum())})
            if abs(od.sum() - 1.0) > 1e-9:
                col.violation('C18:make_low_pass_func:simulated:deep_coverage_loses_sites', info, {'total': float(od.sum())})
        if deep and thr >= 1e-2:
            proj = np.asarray(dadi.Spectrum(holder['data'].copy(), mask_corners=False).project(list(nsub)).data)
            # sites absent from every sequenced chromosome are never called
            idx = np.unravel_index(j, shape)
            if sum(idx) > 0 and all(F == 0 for F in Fx):
                if not np.allclose(od, proj, rtol=0, atol=1e-9):
                    col.violation('C18:make_low_pass_func:deep_coverage_not_projection', info, {'maxdiff': float(np.abs(od - proj).max())})
    # a model spectrum with its corners masked (the usual case) and arbitrary numbers stored under the mask: what is masked is not a site
    junk = np.full(shape, 1.0 / N)
    junk.flat[0], junk.flat[-1] = 5.0, 7.0
    holder['data'] = junk
    holder['fs_of'] = junk
    holder['fs'] = dadi.Spectrum(junk.copy(), mask_corners=True)
    try:
        out = f(None, list(nsub), None)
        col.tick(transitions=1)
        cnt += 1
        tot_model = float(junk.sum() - 12.0)
        tot_out = float(np.ma.masked_invalid(out).sum()) if isinstance(out, np.ma.MaskedArray) else float(np.nansum(np.asarray(out)))
        if tot_out > tot_model * (1 + 1e-10):
            col.violation('C18:make_low_pass_func:more_sites_than_model', dict(p, model='dense with masked corners'), {'total': tot_out, 'model_total': tot_model})
    except Exception as ex:
        col.violation('C18:make_low_pass_func:raises', dict(p, model='dense with masked corners'), '%s: %s' % (type(ex).__name__, str(ex)[:200]))
    col.tick(states=cnt, traces=cnt)
    col.distinct('nontrivial', ('correction', nseq, nsub, tuple(Fx), thr, cname, p.get('prehistory')))


class _EnvRng(object):
    """stand-in for LowPass.rng that answers shuffling requests from an enumerated choice list (numpy Generator semantics:
    permuted(a, axis=1) shuffles every row independently, permutation(a, axis=1) applies ONE permutation of the columns to all rows)"""
    def __init__(self, answers):
        self.answers = list(answers)
        self.requests = []

    def _perm(self, k, which):
        perms = list(itertools.permutations(range(k)))
        return perms[which % len(perms)], len(perms)

    def permuted(self, a, axis=None, out=None):
        a = np.array(a)
        assert axis == 1 and a.ndim == 2
        outa = a.copy()
        for r in range(a.shape[0]):
            w = self.answers.pop(0) if self.answers else 0
            pm, nper = self._perm(a.shape[1], w)
            self.requests.append(nper)
            outa[r] = a[r, list(pm)]
        return outa

    def permutation(self, a, axis=0):
        a = np.array(a)
        w = self.answers.pop(0) if self.answers else 0
        pm, nper = self._perm(a.shape[axis], w)
        self.requests.append(nper)
        return np.take(a, list(pm), axis=axis)

    def __getattr__(self, name):
        raise AttributeError('environment stub: random primitive %r is not modelled' % name)


def case_subsample_env(col, p):
    """subsample_genotypes_1D under EVERY answer of its random source: each locus keeps n_sub/2 of its called genotypes, and every
    combination of per-locus subsets is reachable (loci are subsampled independently of each other)"""
    from dadi.LowPass import LowPass as LP
    calls, nsub = p['calls'], p['nsub']
    rows = p['rows']
    k = nsub // 2
    G = np.array([[(r + c) % 3 for c in range(calls)] + [99] * p['missing'] for r in range(rows)], dtype=int)
    # discover the request pattern with the default answers, then enumerate all answers
    old = LP.rng
    reach = set()
    n = 0
    try:
        env = _EnvRng([])
        LP.rng = env
        LP.subsample_genotypes_1D(G.copy(), nsub)
        sizes = list(env.requests)
        for ans in itertools.product(*[range(s) for s in sizes]):
            env = _EnvRng(ans)
            LP.rng = env
            out = LP.subsample_genotypes_1D(G.copy(), nsub)
            col.tick(transitions=1)
            n += 1
            if out.shape != (rows, k):
                col.violation('C18:subsample_genotypes_1D:shape', dict(p, answer=ans), str(out.shape))
                continue
            key = []
            for r in range(rows):
                have = sorted(G[r][G[r] != 99].tolist())
                got = sorted(out[r].tolist())
                tmp = list(have)
                ok = True
                for g in got:
                    if g in tmp:
                        tmp.remove(g)
                    else:
                        ok = False
                if not ok:
                    col.violation('C18:subsample_genotypes_1D:not_a_subset_of_the_called_genotypes', dict(p, answer=ans, row=r), {'got': got, 'called': have})
                key.append(tuple(got))
            reach.add(tuple(key))
    except AttributeError as e:
        col.violation('C18:subsample_genotypes_1D:random_source', dict(p), str(e))
    finally:
        LP.rng = old
    # expected reachable set: product over loci of all k-multisubsets of the called genotypes
    per = []
    for r in range(rows):
        have = G[r][G[r] != 99].tolist()
        per.append(sorted(set(tuple(sorted(c)) for c in itertools.combinations(have, k))))
    want = set(itertools.product(*per))
    if reach != want:
        col.violation('C18:subsample_genotypes_1D:loci_not_subsampled_independently', dict(p), {'reachable': len(reach), 'expected': len(want)})
    col.tick(states=n, traces=n)
    col.distinct('nontrivial', ('subsample_env', calls, nsub, rows, p['missing']))


class _SameShuffleRng(object):
    """random source that answers every shuffling request with one and the same column permutation (index `which` in lexicographic order)"""
    def __init__(self, which):
        self.which = which

    def permuted(self, a, axis=None, out=None):
        a = np.array(a)
        assert axis == 1 and a.ndim == 2
        perms = list(itertools.permutations(range(a.shape[1])))
        return a[:, list(perms[self.which % len(perms)])]

    def __getattr__(self, name):
        raise AttributeError('environment stub: random primitive %r is not modelled' % name)


def case_simulated_weights(col, p):
    """the simulated regime made deterministic: deep coverage (every genotype called correctly) and the subsampling shuffle answered by one fixed
    permutation, for EVERY permutation.  The simulated calling outcome for an allele count is then the partition law of that count (at the
    population's inbreeding coefficient - exact reference as in the partition case) pushed through 'keep these n_sub/2 individuals'."""
    from dadi.LowPass import LowPass as LP
    nseq, nsub, F = p['nseq'], p['nsub'], p['F']
    nind, k = nseq // 2, nsub // 2
    covs = coverage_alphabet()
    cov = {'pop0': covs['point80']}
    nsim = 200003
    old = LP.rng
    cnt = 0
    try:
        for a in range(1, nseq):
            parts = sorted(set(tuple(sorted(v)) for v in itertools.product((0, 1, 2), repeat=nind) if sum(v) == a))
            ex_w = []
            for part in parts:
                n0, n1, n2 = part.count(0), part.count(1), part.count(2)
                ways = Fraction(factorial(nind), factorial(n0) * factorial(n1) * factorial(n2))
                if F == 0:
                    ex_w.append(ways * 2 ** n1)
                else:
                    Ff = Fraction(float(F))
                    pp = Fraction(a, nseq)
                    al, be = pp * (1 - Ff) / Ff, (1 - pp) * (1 - Ff) / Ff
                    ex_w.append(ways * bb2(0, al, be) ** n0 * bb2(1, al, be) ** n1 * bb2(2, al, be) ** n2)
            tot = sum(ex_w)
            nperm = len(list(itertools.permutations(range(nind))))
            for which in range(nperm):
                LP.rng = _SameShuffleRng(which)
                np.random.seed(3)
                got = np.asarray(LP.simulate_GATK_multisample_calling(cov, [a], [nseq], [nsub], nsim, [F]), dtype=float)
                col.tick(transitions=1)
                cnt += 1
                perm = list(itertools.permutations(range(nind)))[which]
                ex = np.zeros(nsub + 1)
                for part, w in zip(parts, ex_w):
                    g = sorted(part)
                    j = sum(g[perm[i]] for i in range(k)) if nsub != nseq else sum(g)
                    ex[j] += float(w / tot)
                # every partition contributes int(nsim * probability) loci: rounding of at most one locus per partition
                tol = 2.0 * (len(parts) + 1) / nsim + 1e-6
                if got.shape != ex.shape or not float(np.abs(got - ex).max()) <= tol:
                    col.violation('C18:simulated_regime:outcome_weights', dict(p, allele_count=a, shuffle=which),
                                  {'got': got, 'exp': ex, 'tol': tol})
                else:
                    col.observe('simulated_weights', float(np.abs(got - ex).max()) / tol)
    finally:
        LP.rng = old
    col.tick(states=cnt, traces=cnt)
    col.distinct('nontrivial', ('simulated_weights', nseq, nsub, F))


def case_simulated_threshold(col, p):
    """the calling threshold of the simulated regime (a variant is called from two reads of the alternative allele on, like the analytic no-call
    probability assumes): with exactly two reads per individual, a locus whose carriers are all homozygous has a deterministic outcome - it is
    called, at its true count, as soon as one individual carries the variant.  So the simulated outcome puts at least the (exact) probability of
    the all-homozygous partition on the true count, whatever the random reads of heterozygotes do."""
    from dadi.LowPass import LowPass as LP
    nseq, F = p['nseq'], p['F']
    nind = nseq // 2
    cov = {'pop0': coverage_alphabet()['point2']}
    nsim = 100003
    cnt = 0
    for a in range(2, nseq + 1, 2):
        parts = sorted(set(tuple(sorted(v)) for v in itertools.product((0, 1, 2), repeat=nind) if sum(v) == a))
        ex_w = {}
        for part in parts:
            n0, n1, n2 = part.count(0), part.count(1), part.count(2)
            ways = Fraction(factorial(nind), factorial(n0) * factorial(n1) * factorial(n2))
            if a == nseq:
                ex_w[part] = Fraction(1)
            else:
                Ff = Fraction(float(F))
                pp = Fraction(a, nseq)
                al, be = pp * (1 - Ff) / Ff, (1 - pp) * (1 - Ff) / Ff
                ex_w[part] = ways * bb2(0, al, be) ** n0 * bb2(1, al, be) ** n1 * bb2(2, al, be) ** n2
        tot = sum(ex_w.values())
        hom = tuple(sorted([2] * (a // 2) + [0] * (nind - a // 2)))
        w_hom = float(ex_w[hom] / tot)
        np.random.seed(5)
        got = np.asarray(LP.simulate_GATK_multisample_calling(cov, [a], [nseq], [nseq], nsim, [F]), dtype=float)
        col.tick(transitions=1)
        cnt += 1
        slack = 2.0 * (len(parts) + 1) / nsim
        if not got[a] >= w_hom - slack:
            col.violation('C18:simulated_regime:two_alternative_reads_not_called', dict(p, allele_count=a),
                          {'mass_at_true_count': float(got[a]), 'all_homozygous_partition': w_hom})
    col.tick(states=cnt, traces=cnt)
    col.distinct('nontrivial', ('simulated_threshold', nseq, F))


CASES = {'simulated_threshold': case_simulated_threshold, 'simulated_weights': case_simulated_weights, 'subsample_env': case_subsample_env, 'partitions': case_partitions, 'matrices': case_matrices, 'correction': case_correction}


def _dispatch(col, case):
    CASES[case['kind']](col, case)


def replay(ctx, case):
    _dispatch(ctx, case)


def run(ctx):
    cases = []
    ns = (2, 4, 6, 8, 10, 12) if ctx.quick else (2, 4, 6, 8, 10, 12, 14, 16, 18, 20)
    for n in ns:
        for F in FS:
            if n >= 16 and F not in (0.0, 0.1):
                continue
            cases.append({'kind': 'partitions', 'n': n, 'Fs': [F]})
            if F in (0.0, 0.1) and n <= 12:
                cases.append({'kind': 'partitions', 'n': n, 'Fs': [F], 'prehistory': 'polyploid'})
    if not ctx.quick:
        ctx.note('partitions for n>=16 (3^8..3^10 genotype vectors) with F in {0, 0.1}')
    for n in ((2, 4, 6, 8) if ctx.quick else (2, 4, 6, 8, 10, 12)):
        cases.append({'kind': 'matrices', 'n': n})
    covnames = list(coverage_alphabet())
    for cname in covnames:
        for thr in (0, 1e-2, 1):
            cases.append({'kind': 'correction', 'nseq': (6,), 'nsub': (4,), 'F': [0], 'sim_threshold': thr, 'coverage': cname, 'seed': ctx.seed})
    for nseq, nsub in (((4,), (4,)), ((4,), (2,)), ((8,), (4,)), ((4, 4), (2, 4)), ((4, 2), (2, 2)), ((2, 2, 2), (2, 2, 2)), ((4, 2, 2), (2, 2, 2))):
        for cname in ('point80', 'uniform0_10', 'mix0_4'):
            for F in ([0] * len(nseq), [0.3] * len(nseq), ([0.5, 0, 0.2][:len(nseq)])):
                for thr in ((1e-2, 1) if cname != 'mix0_4' else (1,)):
                    cases.append({'kind': 'correction', 'nseq': nseq, 'nsub': nsub, 'F': list(F), 'sim_threshold': thr, 'coverage': cname, 'seed': ctx.seed})
    for calls, nsub, rows, missing in ((3, 2, 2, 1), (3, 4, 2, 0), (4, 4, 2, 2)) + (((3, 2, 3, 0), (4, 6, 2, 1)) if not ctx.quick else ()):
        cases.append({'kind': 'subsample_env', 'calls': calls, 'nsub': nsub, 'rows': rows, 'missing': missing})
    for nseq, nsub in (((6,), (4,)), ((4, 4), (2, 4)), ((8, 4), (4, 4)), ((4, 2), (2, 2)), ((4, 4, 2), (2, 2, 2))):
        cases.append({'kind': 'correction', 'nseq': nseq, 'nsub': nsub, 'F': [0] * len(nseq), 'sim_threshold': 0, 'coverage': 'point80', 'seed': ctx.seed})
    for nseq, nsub in (((4,), (2,)), ((6,), (4,)), ((4, 2), (2, 2))):
        for pre in ('mix0_4', 'uniform0_10'):
            cases.append({'kind': 'correction', 'nseq': nseq, 'nsub': nsub, 'F': [0] * len(nseq), 'sim_threshold': 1e-2, 'coverage': 'point80', 'seed': ctx.seed,
                          'prehistory': pre})
    for nseq_, nsub_ in ((4, 2), (6, 2), (6, 4), (6, 6), (8, 4)):
        for F in (0, 0.3, 0.9):
            cases.append({'kind': 'simulated_weights', 'nseq': nseq_, 'nsub': nsub_, 'F': F})
    for nseq_ in (4, 6):
        for F in (0.5, 0.9):
            cases.append({'kind': 'simulated_threshold', 'nseq': nseq_, 'F': F})
    # the simulated regime after another coverage distribution was simulated for the same population names in this process
    for nseq, nsub in (((4,), (2,)), ((6,), (4,)), ((4, 2), (2, 2))):
        for pre in ('point1', 'uniform0_3', 'mix0_4'):
            cases.append({'kind': 'correction', 'nseq': nseq, 'nsub': nsub, 'F': [0] * len(nseq), 'sim_threshold': 0, 'coverage': 'point80', 'seed': ctx.seed,
                          'prehistory': pre})
    if not ctx.quick:
        for nseq, nsub in (((6,), (2,)), ((6,), (6,)), ((10,), (6,)), ((12,), (4,)), ((6, 4), (4, 2)), ((2, 6), (2, 4)), ((2, 4, 2), (2, 2, 2))):
            for cname in covnames:
                for F in ([0] * len(nseq), [0.3] * len(nseq), ([0.5, 0, 0.2][:len(nseq)]), ([0, 0.9, 0.1][:len(nseq)])):
                    for thr in (1e-2, 1):
                        cases.append({'kind': 'correction', 'nseq': nseq, 'nsub': nsub, 'F': list(F), 'sim_threshold': thr, 'coverage': cname, 'seed': ctx.seed})
        ctx.note('thorough: wrapper lattice extended to 7 more (n_sequenced, n_subsampled) shapes x every coverage distribution x 4 inbreeding vectors x 2 thresholds')
    explore.pmap(ctx, _dispatch, cases, chunk=1)
    ctx.tick(evaluations=len(cases))
    for c in (cases[0], cases[len(cases) // 2], cases[-1]):
        ctx.sample(c)
    ctx.rule = ('n_sequenced x every allele count x F lattice (partitions vs brute-force genotype enumeration and the exact law); n x every even n_sub x F x 12 '
                'coverage distributions (matrices, no-call probabilities); wrapper on every unit model spectrum for 1-3 populations x coverage x F x sim_threshold. '
                'distinct_nontrivial = distinct (part, sizes, F, coverage, threshold) groups')
    ctx.assume('the Monte-Carlo read simulator is not enumerable: its seed is owned and only properties that hold for every draw are asserted (totals, non-negativity)')
    ctx.assume('coverage distributions give positive probability to some depth >= 1 (a population with no reads at all cannot be called)')
