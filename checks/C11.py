"""C11 – likelihoods are Poisson / multinomial over jointly unmasked entries, with the optimal theta.

Enumerated: (a) ALL pairs of mask patterns (model mask x data mask) on 5 (quick) / 7 (thorough) free entries of each shape, folded and
unfolded data; (b) ALL assignments of the value alphabets data {0,1/2,1,3.7,40} x model {0,1e-3,1,2.5} to 3 free entries, under 3
mask patterns; (c) scale factors, Gibbs optimality over the model alphabet, residual sign/mask rules.
Oracle: a direct loop with math.lgamma over explicitly selected entries.
"""
import itertools
import math

import numpy as np

from mc import explore
from mc.refs import spectrum as RS

LEVEL = 'model_checking'
SHAPES = [(5,), (3, 3), (2, 3, 2)]
DVALS = [0.0, 0.5, 1.0, 3.7, 40.0]
MVALS = [0.0, 1e-3, 1.0, 2.5]


def oracle_ll(m, d, mm, dm):
    """sum over entries masked in neither, model > 0"""
    tot = 0.0
    n = 0
    for idx in np.ndindex(*m.shape):
        if mm[idx] or dm[idx]:
            continue
        if not m[idx] > 0:
            continue
        tot += -m[idx] + d[idx] * math.log(m[idx]) - math.lgamma(d[idx] + 1.0)
        n += 1
    return tot, n


def oracle_scale(m, d, mm, dm):
    sd = sm = 0.0
    for idx in np.ndindex(*m.shape):
        if mm[idx] or dm[idx]:
            continue
        sd += d[idx]
        sm += m[idx]
    return sd, sm


def _corner(mask):
    m = mask.copy()
    m.flat[0] = m.flat[-1] = True
    return m


def _base(shape, seed):
    n = int(np.prod(shape))
    m = 0.5 + ((np.arange(n) * 7 + seed) % 11).reshape(shape) / 4.0
    d = 1.0 + ((np.arange(n) * 5 + 3 + seed) % 13).reshape(shape) / 2.0
    return m, d


def _free_entries(shape, k):
    idxs = list(np.ndindex(*shape))[1:-1]
    # spread over the array, deterministic
    step = max(1, len(idxs) // k)
    return [idxs[(i * step) % len(idxs)] for i in range(k)] if len(idxs) >= k else idxs


def _evaluate(col, p, shape, m, d, mm, dm, data_folded, tag):
    """run the implementation on (model m, mask mm) and (data d, mask dm) and compare everything with the oracle"""
    import dadi
    from dadi import Inference
    model = dadi.Spectrum(m.copy(), mask=mm.copy(), mask_corners=False)
    if data_folded:
        # build a consistent folded data spectrum by folding an unfolded one with mask dm
        data = dadi.Spectrum(d.copy(), mask=dm.copy(), mask_corners=False).fold()
        rd, rm = RS.fold(RS.fr_array(d), dm)
        d_eff, dm_eff = RS.to_float(rd), _corner(rm)
        fm, fmm = RS.fold(RS.fr_array(m), mm)
        m_eff, mm_eff = RS.to_float(fm), _corner(fmm)
    else:
        data = dadi.Spectrum(d.copy(), mask=dm.copy(), mask_corners=False)
        d_eff, dm_eff, m_eff, mm_eff = d, dm, m, mm
        # what sits underneath a mask is not data: put non-finite junk there (as spectra read from files or produced by 0/0 often carry)
        model.data[mm] = np.nan
        data.data[dm] = np.inf
    snap = [np.asarray(model.data).copy(), np.ma.getmaskarray(model).copy(), np.asarray(data.data).copy(), np.ma.getmaskarray(data).copy()]
    info = dict(p, tag=tag, model=m, model_mask=mm.astype(int), data=d, data_mask=dm.astype(int), data_folded=data_folded)
    # --- ll
    ex, n_used = oracle_ll(m_eff, d_eff, mm_eff, dm_eff)
    got = float(Inference.ll(model, data)) if n_used else Inference.ll(model, data)
    col.tick(transitions=1)
    if n_used == 0:
        gotf = 0.0 if np.ma.is_masked(got) else float(got)
        if gotf != 0.0:
            col.violation('C11:ll:empty_intersection', info, {'got': gotf})
    else:
        tol = 1e-11 * max(1.0, sum(abs(x) for x in (ex,)) + 50.0 * n_used)
        if not abs(got - ex) <= tol:
            col.violation('C11:ll:value', info, {'got': got, 'exact': ex, 'n_entries': n_used})
        col.observe('ll', abs(got - ex) / tol)
    # per-bin mask = union of masks (+ model<=0)
    pb = Inference.ll_per_bin(model, data)
    exmask = mm_eff | dm_eff | ~(m_eff > 0)
    if not np.array_equal(np.ma.getmaskarray(pb), exmask):
        col.violation('C11:ll_per_bin:mask', info, {'got': np.ma.getmaskarray(pb).astype(int), 'exp': exmask.astype(int)})
    # --- optimal scaling / multinomial
    sd, sm = oracle_scale(m_eff, d_eff, mm_eff, dm_eff)
    if sm > 0 and n_used:
        cstar = sd / sm
        got_c = float(Inference.optimal_sfs_scaling(model, data))
        col.tick(transitions=1)
        if not abs(got_c - cstar) <= 1e-12 * max(1.0, abs(cstar)):
            col.violation('C11:optimal_sfs_scaling:value', info, {'got': got_c, 'exact': cstar})
        if cstar > 0:
            exm, _ = oracle_ll(cstar * m_eff, d_eff, mm_eff, dm_eff)
            gotm = float(Inference.ll_multinom(model, data))
            col.tick(transitions=1)
            tol = 1e-11 * max(1.0, abs(exm) + 50.0 * n_used)
            if not abs(gotm - exm) <= tol:
                col.violation('C11:ll_multinom:value', info, {'got': gotm, 'exact': exm, 'cstar': cstar})
            col.observe('ll_multinom', abs(gotm - exm) / tol)
            # it is the maximum over positive rescalings (implementation's own ll on rescaled models)
            for fac in (0.9, 0.999, 1.001, 1.1):
                v = float(Inference.ll(model * (cstar * fac), data))
                col.tick(transitions=1)
                if v > gotm + 1e-9 * max(1.0, abs(gotm)):
                    col.violation('C11:ll_multinom:not_maximal', info, {'ll_multinom': gotm, 'll_at': v, 'factor': fac})
            # invariance under rescaling the model
            for k in (0.25, 10.0):
                v = float(Inference.ll_multinom(model * k, data))
                col.tick(transitions=1)
                if not abs(v - gotm) <= 1e-10 * max(1.0, abs(gotm) + 50.0 * n_used):
                    col.violation('C11:ll_multinom:scale_dependent', info, {'k': k, 'got': v, 'base': gotm})
            # a model that the caller already scaled to the data's total, each total taken over that spectrum's own mask (masks may differ)
            tm_own, td_own = float(model.sum()), float(data.sum())
            if tm_own > 0 and td_own > 0:
                v = float(Inference.ll_multinom(model * (td_own / tm_own), data))
                col.tick(transitions=1)
                if not abs(v - gotm) <= 1e-10 * max(1.0, abs(gotm) + 50.0 * n_used):
                    col.violation('C11:ll_multinom:scale_dependent', dict(info, prescaled_to_data_total=True), {'got': v, 'base': gotm})
            osf = Inference.optimally_scaled_sfs(model, data)
            if not np.allclose(np.asarray(osf.data)[~mm], (cstar * m)[~mm], rtol=1e-12, atol=0):
                col.violation('C11:optimally_scaled_sfs:value', info, '')
    if not data_folded:
        # --- a model cell that is exactly zero (or slightly negative: numerical noise) where neither spectrum is masked: it stays part of both
        # totals of the optimal scaling (only the Poisson terms skip it)
        joint = ~(mm | dm)
        cells = np.argwhere(joint)
        if len(cells) >= 2:
            for zval in (0.0, -1e-9):
                m0 = m.copy()
                m0[tuple(cells[len(cells) // 2])] = zval
                sm0, sd0 = float(m0[joint].sum()), float(d[joint].sum())
                if sm0 > 0:
                    got0 = float(Inference.optimal_sfs_scaling(dadi.Spectrum(m0.copy(), mask=mm.copy(), mask_corners=False), dadi.Spectrum(d.copy(), mask=dm.copy(), mask_corners=False)))
                    col.tick(transitions=1)
                    if not abs(got0 - sd0 / sm0) <= 1e-12 * max(1.0, abs(sd0 / sm0)):
                        col.violation('C11:optimal_sfs_scaling:nonpositive_model_cell', dict(info, cell_value=zval), {'got': got0, 'exact': sd0 / sm0})
        # --- corners left unmasked in both spectra (monomorphic classes kept): they are ordinary entries of the Poisson likelihood
        mm_u, dm_u = mm.copy(), dm.copy()
        mm_u.flat[0] = mm_u.flat[-1] = dm_u.flat[0] = dm_u.flat[-1] = False
        ex_u, n_u = oracle_ll(m, d, mm_u, dm_u)
        if n_u:
            got_u = float(Inference.ll(dadi.Spectrum(m.copy(), mask=mm_u.copy(), mask_corners=False), dadi.Spectrum(d.copy(), mask=dm_u.copy(), mask_corners=False)))
            col.tick(transitions=1)
            if not abs(got_u - ex_u) <= 1e-11 * max(1.0, abs(ex_u) + 50.0 * n_u):
                col.violation('C11:ll:corners_unmasked', info, {'got': got_u, 'exact': ex_u, 'n_entries': n_u})
    else:
        # --- the same model OBJECT changed in place between two evaluations against folded data (rescaled, then one more entry masked)
        model *= 2.0
        ex2, n2 = oracle_ll(2.0 * m_eff, d_eff, mm_eff, dm_eff)
        if n2:
            got2 = float(Inference.ll(model, data))
            col.tick(transitions=1)
            if not abs(got2 - ex2) <= 1e-11 * max(1.0, abs(ex2) + 50.0 * n2):
                col.violation('C11:ll:stale_after_inplace_change', dict(info, change='model *= 2'), {'got': got2, 'exact': ex2})
        model /= 2.0
    # --- the data (or the model) handed over as a plain array of counts, no mask of its own: the other one's mask applies to both
    if not data_folded:
        keep = ~mm
        if keep.any() and float(m[keep].sum()) > 0:
            ex_c = float(d[keep].sum()) / float(m[keep].sum())
            got_c = float(Inference.optimal_sfs_scaling(model, d.copy()))
            col.tick(transitions=1)
            if not abs(got_c - ex_c) <= 1e-12 * max(1.0, abs(ex_c)):
                col.violation('C11:optimal_sfs_scaling:plain_array_data', info, {'got': got_c, 'exact': ex_c})
        keep = ~dm
        if keep.any() and float(m[keep].sum()) > 0:
            ex_c = float(d[keep].sum()) / float(m[keep].sum())
            got_c = float(Inference.optimal_sfs_scaling(m.copy(), data))
            col.tick(transitions=1)
            if not abs(got_c - ex_c) <= 1e-12 * max(1.0, abs(ex_c)):
                col.violation('C11:optimal_sfs_scaling:plain_array_model', info, {'got': got_c, 'exact': ex_c})
    # --- inputs untouched
    now = [np.asarray(model.data), np.ma.getmaskarray(model), np.asarray(data.data), np.ma.getmaskarray(data)]
    if not all(np.array_equal(a, b, equal_nan=(a.dtype.kind == "f")) for a, b in zip(snap, now)) or model.folded or bool(data.folded) != data_folded:
        col.violation('C11:inputs_modified', info, '')


def case_maskpairs(col, p):
    shape = tuple(p['shape'])
    m, d = _base(shape, p['seed'])
    free = _free_entries(shape, p['k'])
    lo, hi = p['range']
    k = len(free)
    for code in range(lo, hi):
        a, b = code >> k, code & ((1 << k) - 1)
        mm = np.zeros(shape, bool); dm = np.zeros(shape, bool)
        for i, idx in enumerate(free):
            if a >> i & 1:
                mm[idx] = True
            if b >> i & 1:
                dm[idx] = True
        mm, dm = _corner(mm), _corner(dm)
        _evaluate(col, p, shape, m, d, mm, dm, p['folded'], 'maskpair')
    col.tick(states=hi - lo, traces=hi - lo)
    col.distinct('nontrivial', ('masks', shape, p['folded'], lo))


def case_values(col, p):
    shape = tuple(p['shape'])
    m0, d0 = _base(shape, p['seed'])
    free = _free_entries(shape, 3)
    masks = []
    z = np.zeros(shape, bool)
    masks.append((_corner(z), _corner(z)))
    a = z.copy(); a[free[0]] = True
    b = z.copy(); b[free[1]] = True
    masks.append((_corner(a), _corner(b)))
    masks.append((_corner(z), _corner(a | b)))
    dv = p['dvals']
    n = 0
    for dvals in itertools.product(DVALS, repeat=3):
        if dvals[0] != dv:
            continue
        for mvals in itertools.product(MVALS, repeat=3):
            # model == 0 with data > 0 has log-probability -inf; dadi documents that it ignores such entries with a warning.
            # The property's sum is only defined for model>0 or (model==0 and data==0): keep exactly those.
            if any(mv == 0.0 and x > 0 for mv, x in zip(mvals, dvals)):
                continue
            m, d = m0.copy(), d0.copy()
            for idx, mv, x in zip(free, mvals, dvals):
                m[idx] = mv
                d[idx] = x
            for mm, dm in masks:
                _evaluate(col, p, shape, m, d, mm, dm, False, 'values')
                n += 1
    col.tick(states=n, traces=n)
    col.distinct('nontrivial', ('values', shape, dv))


def case_gibbs(col, p):
    """model == c*data maximises the multinomial likelihood over all models of the alphabet"""
    import dadi
    from dadi import Inference
    shape = tuple(p['shape'])
    _, d = _base(shape, p['seed'])
    data = dadi.Spectrum(d.copy())
    best = float(Inference.ll_multinom(dadi.Spectrum(d.copy() * p['c']), data))
    free = _free_entries(shape, 4)
    n = 0
    for vals in itertools.product([0.2, 1.0, 2.5, 7.0], repeat=len(free)):
        m = d.copy()
        for idx, v in zip(free, vals):
            m[idx] = v
        v = float(Inference.ll_multinom(dadi.Spectrum(m), data))
        col.tick(transitions=1)
        n += 1
        if v > best + 1e-10 * abs(best):
            col.violation('C11:ll_multinom:data_not_optimal', dict(p, model_vals=vals), {'ll_data_model': best, 'll_other': v})
    col.tick(states=n, traces=n)
    col.distinct('nontrivial', ('gibbs', shape, p['c']))


def case_resid(col, p):
    import dadi
    from dadi import Inference
    shape = tuple(p['shape'])
    m, d = _base(shape, p['seed'])
    free = _free_entries(shape, 2)
    n = 0
    for mv, x in itertools.product([-0.5, 0.0, 1e-3, 0.5, 2.5, 40.0], DVALS):
        mm = np.zeros(shape, bool); dm = np.zeros(shape, bool)
        mm[free[1]] = True
        m2, d2 = m.copy(), d.copy()
        m2[free[0]] = mv
        d2[free[0]] = x
        model = dadi.Spectrum(m2, mask=_corner(mm), mask_corners=False)
        for folded in (False, True):
            data = dadi.Spectrum(d2, mask=_corner(dm), mask_corners=False)
            me, de = m2, d2
            exmask = _corner(mm) | _corner(dm)
            if folded:
                data = data.fold()
                fm, fmm = RS.fold(RS.fr_array(m2), _corner(mm))
                fd, fdm = RS.fold(RS.fr_array(d2), _corner(dm))
                me, de = RS.to_float(fm), RS.to_float(fd)
                exmask = _corner(fmm) | _corner(fdm)
            lin = Inference.linear_Poisson_residual(model, data)
            ans = Inference.Anscombe_Poisson_residual(model, data)
            col.tick(transitions=2)
            n += 1
            valid = me > 0           # where the model is 0 the residual is undefined; only the mask rule is checked there
            sel = ~exmask & valid
            with np.errstate(all='ignore'):
                exlin = (me - de) / np.sqrt(me)
            info = dict(p, mv=mv, x=x, folded=folded)
            if not np.array_equal(np.ma.getmaskarray(lin)[valid], exmask[valid]):
                col.violation('C11:linear_Poisson_residual:mask', info, {'got': np.ma.getmaskarray(lin).astype(int), 'exp': exmask.astype(int)})
            elif not np.allclose(np.asarray(lin.data)[sel], exlin[sel], rtol=1e-12, atol=1e-14):
                col.violation('C11:linear_Poisson_residual:value', info, '')
            # the variance-stabilised residual masks what it cannot evaluate (model <= 0): every unmasked entry is a finite number
            am = np.ma.getmaskarray(ans)
            if not np.isfinite(np.asarray(ans.data)[~am]).all():
                col.violation('C11:Anscombe_Poisson_residual:unmasked_non_finite', info, {'values': np.asarray(ans.data)[~am & ~np.isfinite(np.asarray(ans.data))][:4]})
            # documented sign: residual positive where the model is above the data (both kinds)
            ga = np.asarray(np.ma.filled(ans, np.nan))
            for idx in np.ndindex(*shape):
                if exmask[idx] or de[idx] == 0 or not valid[idx]:
                    continue
                s = np.sign(me[idx] - de[idx])
                if s != 0 and abs(me[idx] - de[idx]) > 0.2 * max(me[idx], de[idx]) and np.sign(ga[idx]) != s:
                    col.violation('C11:Anscombe_Poisson_residual:sign', dict(info, idx=idx), {'model': me[idx], 'data': de[idx], 'resid': float(ga[idx])})
            # mask argument: entries with model <= level and data <= level are masked (levels incl. exact model/data values and 0)
            for cut in sorted(set((0.6, 3.0, mv, max(x, 1e-3), 0.0))):
                linm = Inference.linear_Poisson_residual(model, data, mask=cut)
                rule = (me <= cut) & (de <= cut)
                exm2 = exmask | rule
                gm2 = np.ma.getmaskarray(linm)
                if not np.array_equal(gm2[valid], exm2[valid]) or not gm2[rule].all():
                    col.violation('C11:linear_Poisson_residual:mask_arg', dict(info, cut=cut), {'got': gm2.astype(int), 'exp': exm2.astype(int)})
                ansm = Inference.Anscombe_Poisson_residual(model, data, mask=cut)
                exm3 = exm2 | (de == 0)
                gm = np.ma.getmaskarray(ansm)
                if not np.array_equal((gm | exmask)[valid], exm3[valid]) or not gm[rule].all():
                    col.violation('C11:Anscombe_Poisson_residual:mask_arg', dict(info, cut=cut), {'got': gm.astype(int), 'exp': exm3.astype(int)})
    col.tick(states=n, traces=n)
    col.distinct('nontrivial', ('resid', shape))


CASES = {'maskpairs': case_maskpairs, 'values': case_values, 'gibbs': case_gibbs, 'resid': case_resid}


def _dispatch(col, case):
    CASES[case['kind']](col, case)


def replay(ctx, case):
    _dispatch(ctx, case)


def run(ctx):
    cases = []
    k = 5 if ctx.quick else 7
    for shape in SHAPES:
        for folded in (False, True):
            total = 1 << (2 * k)
            chunk = 128
            for lo in range(0, total, chunk):
                cases.append({'kind': 'maskpairs', 'shape': shape, 'k': k, 'range': (lo, min(total, lo + chunk)), 'folded': folded, 'seed': ctx.seed})
        for dv in DVALS:
            cases.append({'kind': 'values', 'shape': shape, 'dvals': dv, 'seed': ctx.seed})
        for c in (0.25, 1.0, 10.0):
            cases.append({'kind': 'gibbs', 'shape': shape, 'c': c, 'seed': ctx.seed})
        cases.append({'kind': 'resid', 'shape': shape, 'seed': ctx.seed})
    from mc.evidence import Collector
    a, b = Collector(), Collector()
    _dispatch(a, cases[0]); _dispatch(b, cases[0])
    assert a.viol_count == b.viol_count and a.maxima == b.maxima
    explore.pmap(ctx, _dispatch, cases, chunk=1)
    ctx.tick(evaluations=len(cases))
    for c in (cases[0], cases[len(cases) // 2], cases[-1]):
        ctx.sample(c)
    ctx.note('free mask entries per shape: %d -> %d mask pairs per (shape, folding)' % (k, 1 << (2 * k)))
    ctx.rule = ('all pairs of mask patterns on k free entries x shapes x folded/unfolded data; all value assignments from the alphabets on 3 '
                'free entries x 3 mask patterns; Gibbs optimality over 4^4 alternative models; residual rules. distinct_nontrivial = '
                'distinct (part, shape, chunk) groups whose every member was compared with the direct-loop oracle')
    ctx.assume('entries with model==0 and data>0 (log-probability -inf, which dadi documents as ignored with a warning) are outside the enumerated space')
    ctx.assume('spectra follow the corner-masked convention (intersect_masks re-masks corners)')
