"""C04 – mass leaves only via fixation/loss: frozen and isolated marginals are exact.

Enumerated: d = 2..5 x every frozen pattern (2^d) x nomut patterns (2-D) x grids x nu lattice x (gamma,h) x migration on/off (where
allowed) x T in {1 step, 7 steps} x constant / time-dependent driver x ALL unit densities (+ zero + dense), and every non-empty proper
subset S of populations for the isolated-marginal clause.
Oracles (exact identities up to round-off):
 (1) frozen population k: its marginal density is unchanged at every interior frequency;
 (2) m = 0, gamma = 0: the S-marginal of the joint result equals integrating the S-marginal alone (same steps), where all S frequencies are interior;
 (3) mass ledger: mass(out) - mass(in) = influx - outflow at the two corners, with the per-sweep corner values obtained by replaying the
     sweeps through the real kernels (this also ties the driver to the kernels): no other term;
 (4) frozen / nomut populations receive no new mutations (zero-density run);
 (5) every frozen + migration combination is rejected, every combination not touching a frozen population accepted.
"""
import itertools

import numpy as np

from mc import explore, space

LEVEL = 'model_checking'
AX = 'xyzab'


def driver(d):
    import dadi
    I = dadi.Integration
    return [None, I.one_pop, I.two_pops, I.three_pops, I.four_pops, I.five_pops][d]


def tw(xx):
    w = np.zeros(len(xx))
    w[1:] += np.diff(xx) / 2
    w[:-1] += np.diff(xx) / 2
    return w


def mass(phi, w):
    cur = phi
    for k in range(phi.ndim):
        cur = np.tensordot(w, cur, axes=([0], [0]))
    return float(cur)


def marginal(phi, w, keep):
    """trapezoid-integrate out every axis not in keep"""
    cur = phi
    for k in range(phi.ndim - 1, -1, -1):
        if k not in keep:
            cur = np.tensordot(cur, w, axes=([k], [0]))
    return cur


def dt_rule(tf, nu, ms, gamma, h):
    maxVM = max(0.25 / nu, sum(ms), abs(gamma) * 2 * max(abs(h + (1 - 2 * h) * 0.5) * 0.25, abs(h + (1 - 2 * h) * 0.25) * 0.1875))
    return tf / maxVM if maxVM > 0 else float('inf')


def kwargs_for(d, nus, gammas, hs, mig, theta0, frozen, nomut=None, funcs=False):
    kw = {}
    for k in range(d):
        kw['nu%d' % (k + 1)] = nus[k]
        kw['gamma%d' % (k + 1)] = gammas[k]
        kw['h%d' % (k + 1)] = hs[k]
        kw['frozen%d' % (k + 1)] = bool(frozen[k])
    for (i, j), v in mig.items():
        kw['m%d%d' % (i + 1, j + 1)] = v
    kw['theta0'] = theta0
    if nomut is not None and d == 2:
        kw['nomut1'], kw['nomut2'] = bool(nomut[0]), bool(nomut[1])
    if funcs == 'varying':
        for k in range(d):
            kw['nu%d' % (k + 1)] = nus[k]          # callables
        kw['theta0'] = theta0                      # callable as well
    elif funcs:
        kw['nu1'] = (lambda t, v=nus[0]: v)
        kw['theta0'] = (lambda t, v=theta0: v)
    return kw


def replay_steps(ic, phi, xx, d, T, tf, nus, gammas, hs, mig, theta0, frozen, nomut, delj=False):
    """independent re-implementation of the driver loop on top of the REAL kernels; returns (result, influx mass, outflow mass)"""
    phi = phi.copy()
    w = tw(xx)
    G = len(xx)
    nu_funcs = nus if callable(nus[0]) else None

    def step_size(sizes):
        dts = []
        for k in range(d):
            ms = [mig.get((k, j), 0.0) for j in range(d) if j != k]
            dts.append(dt_rule(tf, sizes[k], ms, gammas[k], hs[k]))
        return min(dts)
    if nu_funcs is None:
        dt = step_size(nus)
    t = 0.0
    influx = outflow = 0.0
    nsteps = 0
    while t < T:
        if nu_funcs is not None:
            # documented loop of the time-dependent drivers: the step is sized from the parameters at the start of the step,
            # the implicit sweep uses the parameters at its end
            dt = step_size([f(t) for f in nu_funcs])
            nus = [f(t + min(dt, T - t)) for f in nu_funcs]
        this_dt = min(dt, T - t)
        th_now = theta0(t + this_dt) if callable(theta0) else theta0      # like every other parameter: the value at the end of the step
        for k in range(d):
            if frozen[k] or (nomut is not None and nomut[k]):
                continue
            idx = [0] * d
            idx[k] = 1
            cellw = w[1] * (w[0] ** (d - 1))
            amount = this_dt * th_now / 2.0 / xx[1]
            phi[tuple(idx)] += amount / cellw
            influx += amount
        for k in range(d):
            if frozen[k]:
                continue
            ms = [mig.get((k, j), 0.0) for j in range(d) if j != k]
            fn = getattr(ic, 'implicit_%dD%s' % (d, AX[k]))
            phi = fn(phi, *([xx] * d), nus[k], *ms, gammas[k], hs[k], this_dt, int(bool(delj)))
            # absorbing outflow on the two corner lines of this sweep
            c0 = (0,) * d
            c1 = (G - 1,) * d
            M0 = 0.0            # all other frequencies 0 and x = 0: migration and selection terms vanish
            M1 = 0.0
            outflow += this_dt * (0.5 / nus[k] - M0) * phi[c0] * (w[0] ** (d - 1))
            outflow += this_dt * (0.5 / nus[k] + M1) * phi[c1] * (w[-1] ** (d - 1))
        t += this_dt
        nsteps += 1
    return phi, influx, outflow, nsteps


def case_ledger(col, p):
    """clauses (1), (3), (4) for one configuration, all unit densities of a chunk (+ zero, dense)"""
    import dadi
    import dadi.integration_c as ic
    from dadi import Integration
    d, G, gk = p['d'], p['G'], p['grid']
    xx = space.grid(gk, G, p['seed'])
    w = tw(xx)
    shape = (G,) * d
    N = G ** d
    nus, gammas, hs, theta0, tf, nsteps_target = p['nus'], p['gammas'], p['hs'], p['theta0'], p['tf'], p['steps']
    frozen = p['frozen']
    nomut = p.get('nomut')
    mig = {tuple(k): v for k, v in p['mig']}
    dts = [dt_rule(tf, nus[k], [mig.get((k, j), 0.0) for j in range(d) if j != k], gammas[k], hs[k]) for k in range(d)]
    T = min(dts) * (nsteps_target - 0.5)
    delj, layout = bool(p.get('delj', False)), p.get('layout', 'C')
    old = (Integration.timescale_factor, Integration.use_delj_trick)
    Integration.timescale_factor, Integration.use_delj_trick = tf, delj

    def as_layout(a):
        # same values, different memory layout (what PhiManip.reorder_pops or slicing hands to the integrators)
        if layout == 'F':
            return np.asfortranarray(a)
        if layout == 'S':
            buf = np.full(a.shape[:-1] + (2 * a.shape[-1],), 7.0)
            buf[..., ::2] = a
            return buf[..., ::2]
        return a.copy()
    try:
        if p.get('prehistory_grid'):
            # another grid with the same number of points was integrated on earlier in this process (constant parameters, all free)
            xx0 = space.grid(p['prehistory_grid'], G, p['seed'])
            kw0 = kwargs_for(d, nus, gammas, hs, mig, theta0, [False] * d, None, False)
            driver(d)(np.ones(shape), xx0, 2.5 * min(dts), **kw0)
            col.tick(transitions=1)
        inputs = [('zero', np.zeros(shape))]
        rng = np.random.RandomState(p['seed'] + 7)
        inputs.append(('dense', rng.uniform(0.1, 1.0, size=shape)))
        lo, hi = p['units']
        for j in range(lo, hi):
            e = np.zeros(N)
            e[j] = 1.0
            inputs.append(('unit%s' % (np.unravel_index(j, shape),), e.reshape(shape)))
        drv = driver(d)
        n = 0
        for name, phi0 in inputs:
            for funcs in ((False, True, 'varying') if p.get('varying') else (False, True)):
                nus_c, th_c = nus, theta0
                if funcs == 'varying':
                    # sizes that really change during the integration (each population shrinks to 1/3..1/6 of its size)
                    nus = [(lambda t, v=nus_c[k], q=k: v / (1.0 + (2.0 + q) * t / T)) for k in range(d)]
                    # ... and a mutation influx that really changes (grows four-fold)
                    theta0 = (lambda t, v=th_c: v * (1.0 + 3.0 * t / T))
                kw = kwargs_for(d, nus, gammas, hs, mig, theta0, frozen, nomut, funcs)
                info = dict(p, input=name, time_dependent=funcs)
                try:
                    xx_in = xx
                    if layout == 'S':
                        gbuf = np.full(2 * len(xx), 0.5)
                        gbuf[::2] = xx
                        xx_in = gbuf[::2]               # the grid as a strided view (a column of a table, every other point of a finer grid)
                    out = drv(as_layout(phi0), xx_in, T, **kw)
                except Exception as e:
                    col.violation('C04:driver%d:raises' % d, info, '%s: %s' % (type(e).__name__, e))
                    nus, theta0 = nus_c, th_c
                    continue
                col.tick(transitions=1)
                n += 1
                out = np.array(out)
                scale = max(1.0, float(np.abs(out).max()), float(np.abs(phi0).max()))
                if not np.isfinite(out).all():
                    col.violation('C04:driver%d:nonfinite' % d, info, '')
                    nus, theta0 = nus_c, th_c
                    continue
                # (1) frozen marginals at interior frequencies
                for k in range(d):
                    if not frozen[k]:
                        continue
                    a = marginal(out, w, [k])[1:-1]
                    b = marginal(phi0, w, [k])[1:-1]
                    err = float(np.abs(a - b).max()) if a.size else 0.0
                    msc = max(1e-300, float(np.abs(b).max()), 1e-3 * mass(np.abs(phi0), w))
                    if not err <= 1e-11 * max(msc, 1e-12):
                        col.violation('C04:driver%d:frozen_marginal_changed' % d, dict(info, pop=k + 1), {'maxerr': err, 'scale': msc})
                    else:
                        col.observe('frozen_marginal', err / (1e-11 * max(msc, 1e-12)))
                # the same epoch written in absolute time (initial_t = t0, T = t0 + length) is the same epoch
                if funcs is False and name in ('dense', 'zero'):
                    try:
                        out_t = np.array(drv(as_layout(phi0), xx_in, T + 0.37, initial_t=0.37, **kw))
                        col.tick(transitions=1)
                        e_t = float(np.abs(out_t - out).max())
                        # ((T + t0) - t0 differs from T by a rounding error of t0, which moves the length of the last step by as much)
                        if not e_t <= 1e-10 * scale:
                            col.violation('C04:driver%d:depends_on_initial_t' % d, info, {'maxdiff': e_t, 'scale': scale})
                    except Exception as e:
                        col.violation('C04:driver%d:initial_t:raises' % d, info, '%s: %s' % (type(e).__name__, e))
                # the library's own marginalisation (remove_pop / filter_pops, what a model uses to drop populations) is the trapezoid marginal,
                # with the remaining populations in their original order
                if d >= 2 and name == 'dense' and funcs is False:
                    from dadi import PhiManip as PM
                    for k in range(d):
                        lib = np.asarray(PM.remove_pop(out.copy(), xx, k + 1))
                        own = marginal(out, w, [q for q in range(d) if q != k])
                        col.tick(transitions=1)
                        if lib.shape != own.shape or not float(np.abs(lib - own).max()) <= 1e-12 * max(1.0, float(np.abs(own).max())):
                            col.violation('C04:remove_pop:not_the_marginal', dict(info, removed=k + 1),
                                          {'maxerr': float(np.abs(lib - own).max()) if lib.shape == own.shape else 'shape'})
                    if d >= 3:
                        for keep in [kp for size in range(1, d - 1) for kp in itertools.combinations(range(d), size)]:
                            lib = np.asarray(PM.filter_pops(out.copy(), xx, [q + 1 for q in keep]))
                            own = marginal(out, w, list(keep))
                            col.tick(transitions=1)
                            if lib.shape != own.shape or not float(np.abs(lib - own).max()) <= 1e-12 * max(1.0, float(np.abs(own).max())):
                                col.violation('C04:filter_pops:not_the_marginal', dict(info, kept=[q + 1 for q in keep]),
                                              {'maxerr': float(np.abs(lib - own).max()) if lib.shape == own.shape else 'shape'})
                # (3)+(4) replay through the real kernels and ledger
                rep, influx, outflow, ns_ = replay_steps(ic, phi0, xx, d, T, tf, nus, gammas, hs, mig, theta0, frozen, nomut, delj)
                nus, theta0 = nus_c, th_c
                if ns_ != nsteps_target and funcs != 'varying':
                    col.violation('harness:C04:step_count', info, {'got': ns_, 'want': nsteps_target})
                err = float(np.abs(out - rep).max())
                if not err <= 1e-11 * scale:
                    col.violation('C04:driver%d:differs_from_kernel_replay' % d, info, {'maxerr': err, 'scale': scale})
                else:
                    col.observe('driver_vs_replay', err / (1e-11 * scale))
                m_in, m_out = mass(phi0, w), mass(out, w)
                resid = (m_out - m_in) - (influx - outflow)
                msc = max(abs(m_in), abs(m_out), influx, 1e-300)
                if not abs(resid) <= 1e-11 * msc:
                    col.violation('C04:driver%d:mass_ledger' % d, info, {'residual': resid, 'mass_in': m_in, 'mass_out': m_out, 'influx': influx, 'outflow': outflow})
                else:
                    col.observe('mass_ledger', abs(resid) / (1e-11 * msc))
                # (4) zero density: all mass present is influx of unfrozen, non-nomut populations; none if there is no such population
                if name == 'zero':
                    nmut = sum(1 for k in range(d) if not frozen[k] and not (nomut is not None and nomut[k]))
                    if nmut == 0 and float(np.abs(out).max()) != 0.0:
                        col.violation('C04:driver%d:influx_into_frozen_or_nomut' % d, info, {'max': float(np.abs(out).max())})
                    for k in range(d):
                        if frozen[k]:
                            # a frozen population never carries derived alleles that arose after freezing: density must vanish off x_k = 0
                            sl = [slice(None)] * d
                            sl[k] = slice(1, None)
                            if float(np.abs(out[tuple(sl)]).max()) != 0.0:
                                col.violation('C04:driver%d:influx_into_frozen_or_nomut' % d, dict(info, pop=k + 1), {'max': float(np.abs(out[tuple(sl)]).max())})
        col.tick(states=n, traces=n)
    finally:
        Integration.timescale_factor, Integration.use_delj_trick = old
    col.distinct('nontrivial', ('ledger', d, G, gk, tuple(frozen), tuple(nomut or ()), tuple(nus), tuple(gammas), bool(mig), nsteps_target, tuple(p['units']), delj, layout))


def case_isolated(col, p):
    """clause (2): m = 0, gamma = 0; every non-empty proper subset S; all unit densities"""
    from dadi import Integration
    d, G, gk = p['d'], p['G'], p['grid']
    xx = space.grid(gk, G, p['seed'])
    w = tw(xx)
    shape = (G,) * d
    N = G ** d
    tf, steps, theta0 = p['tf'], p['steps'], p['theta0']
    old = (Integration.timescale_factor, Integration.use_delj_trick)
    Integration.timescale_factor, Integration.use_delj_trick = tf, False
    try:
        n = 0
        lo, hi = p['units']
        for S in space.subsets(range(d), 1, d - 1):
            # sizes: the smallest nu (hence the time step) lies inside S so that both runs take the same steps
            nus = [0.0] * d
            base = [0.3, 0.5, 0.9, 1.7, 2.9]
            for i, k in enumerate(S):
                nus[k] = base[i]
            for i, k in enumerate([k for k in range(d) if k not in S]):
                nus[k] = 3.1 + i
            T = tf * 4 * min(nus) * (steps - 0.5)
            kwj = kwargs_for(d, nus, [0.0] * d, [0.5] * d, {}, theta0, [False] * d, None, p['funcs'])
            dS = len(S)
            nusS = [nus[k] for k in S]
            for j in list(range(lo, hi)) + [-1]:
                if j >= 0:
                    e = np.zeros(N)
                    e[j] = 1.0
                    phi0 = e.reshape(shape)
                else:
                    phi0 = np.zeros(shape)
                outj = np.array(driver(d)(phi0.copy(), xx, T, **kwj))
                margin_in = marginal(phi0, w, list(S))
                if dS == 1:
                    kws = dict(nu=nusS[0], theta0=theta0)
                    if p['funcs']:
                        kws['nu'] = (lambda t, v=nusS[0]: v)
                else:
                    kws = kwargs_for(dS, nusS, [0.0] * dS, [0.5] * dS, {}, theta0, [False] * dS, None, p['funcs'])
                outs = np.array(driver(dS)(np.array(margin_in, dtype=float).copy(), xx, T, **kws))
                col.tick(transitions=2)
                n += 1
                a = marginal(outj, w, list(S))
                inner = tuple(slice(1, -1) for _ in range(dS))
                err = float(np.abs(a[inner] - outs[inner]).max()) if a[inner].size else 0.0
                sc = max(float(np.abs(outs[inner]).max()) if outs[inner].size else 0.0, 1e-3 * mass(np.abs(phi0), w), 1e-12)
                if not err <= 1e-11 * sc:
                    col.violation('C04:driver%d:isolated_marginal' % d, dict(p, S=S, unit=j, nus=nus), {'maxerr': err, 'scale': sc})
                else:
                    col.observe('isolated_marginal', err / (1e-11 * sc))
        col.tick(states=n, traces=n)
    finally:
        Integration.timescale_factor, Integration.use_delj_trick = old
    col.distinct('nontrivial', ('isolated', d, G, gk, steps, p['funcs'], tuple(p['units'])))


def case_reject(col, p):
    """clause (5): every frozen pattern x every placement of one non-zero migration rate"""
    d = p['d']
    xx = space.grid('U', 3, 0)
    phi0 = np.ones((3,) * d)
    n = 0
    for frozen in itertools.product((False, True), repeat=d):
        for (i, j) in [(a, b) for a in range(d) for b in range(d) if a != b]:
            for funcs in (False, True):
                kw = kwargs_for(d, [1.0] * d, [0.0] * d, [0.5] * d, {(i, j): 0.5}, 1.0, frozen, None, False)
                if funcs:
                    kw['nu1'] = lambda t: 1.0
                should = frozen[i] or frozen[j]
                try:
                    driver(d)(phi0.copy(), xx, 1e-4, **kw)
                    raised = False
                except ValueError:
                    raised = True
                except Exception as e:
                    col.violation('C04:driver%d:frozen_migration:wrong_exception' % d, dict(p, frozen=frozen, m=(i + 1, j + 1)), repr(e))
                    continue
                col.tick(transitions=1)
                n += 1
                if should and not raised:
                    col.violation('C04:driver%d:frozen_with_migration_accepted' % d, dict(p, frozen=frozen, m=(i + 1, j + 1), funcs=funcs), 'm%d%d != 0 with a frozen population was not rejected' % (i + 1, j + 1))
                if raised and not should:
                    col.violation('C04:driver%d:migration_between_unfrozen_rejected' % d, dict(p, frozen=frozen, m=(i + 1, j + 1), funcs=funcs), '')
    col.tick(states=n, traces=n)
    col.distinct('nontrivial', ('reject', d))


CASES = {'ledger': case_ledger, 'isolated': case_isolated, 'reject': case_reject}


def _dispatch(col, case):
    CASES[case['kind']](col, case)


def replay(ctx, case):
    _dispatch(ctx, case)


def run(ctx):
    cases = []
    seed = ctx.seed
    Gd = {2: 5, 3: 4, 4: 3, 5: 3}
    for d in (2, 3, 4, 5):
        G = Gd[d]
        N = G ** d
        nuA = [0.05, 1.0, 7.0, 0.6, 2.0][:d]
        nuB = [3.0, 0.4, 1.0, 1.0, 0.2][:d]
        sel = [([0.0] * d, [0.5] * d), ([-5.0, 5.0, 0.0, -2.0, 3.0][:d], [0.2, 1.0, 0.5, 0.0, 0.7][:d]), ([5.0] * d, [1.0] * d)]
        fpats = list(itertools.product((0, 1), repeat=d))
        nmpats = [None] if d != 2 else [None, (1, 0), (0, 1), (1, 1)]
        gks = ('E', 'D') if not ctx.quick else ('D',)     # the default grid is mirror-symmetric (dx[0]==dx[-1]); the dyadic one is not
        for frozen in fpats:
            for nomut in nmpats:
                for (gammas, hs) in sel:
                    for nus in (nuA, nuB):
                        for with_m in (False, True):
                            mig = []
                            if with_m:
                                unf = [k for k in range(d) if not frozen[k]]
                                if len(unf) < 2:
                                    continue
                                mig = [((a, b), 1.0 + 0.5 * a + 0.25 * b) for a in unf for b in unf if a != b]
                            for steps in (1, 7):
                                for gk in gks:
                                    if ctx.quick:
                                        # quick: rotate (nus, selection, steps) against the frozen pattern instead of the full product
                                        code = sum(f << i for i, f in enumerate(frozen))
                                        if (sel.index((gammas, hs)) + (nus is nuB) + (steps == 7) + with_m + code) % 3 != 0:
                                            continue
                                    chunk = N if d <= 3 else (27 if d == 4 else 81)
                                    for lo in range(0, N, chunk):
                                        cases.append({'kind': 'ledger', 'd': d, 'G': G, 'grid': gk, 'seed': seed, 'nus': nus, 'gammas': gammas, 'hs': hs,
                                                      'theta0': 1.5, 'tf': 1e-3, 'steps': steps, 'frozen': frozen, 'nomut': nomut, 'mig': mig,
                                                      'units': (lo, min(N, lo + chunk))})
        # the same identities with the delj switch on and for densities that are not C-contiguous in memory
        for frozen in fpats:
            unf = [k for k in range(d) if not frozen[k]]
            mig = [((a, b), 1.0 + 0.5 * a + 0.25 * b) for a in unf for b in unf if a != b] if len(unf) >= 2 else []
            for delj, layout in ((True, 'C'), (False, 'F'), (False, 'S'), (True, 'F')):
                if ctx.quick and d >= 4 and (sum(frozen) + delj + (layout == 'S')) % 2:
                    continue
                chunk = N if d <= 3 else 27
                cases.append({'kind': 'ledger', 'd': d, 'G': G, 'grid': 'D', 'seed': seed, 'nus': nuB, 'gammas': sel[1][0], 'hs': sel[1][1],
                              'theta0': 1.5, 'tf': 1e-3, 'steps': 3, 'frozen': frozen, 'nomut': None, 'mig': mig, 'units': (0, chunk),
                              'delj': delj, 'layout': layout})
            if d <= 3 and any(frozen):
                # interior grid points within 1e-6 of the end points (any default grid of 600+ points has them): they are interior
                cases.append({'kind': 'ledger', 'd': d, 'G': G, 'grid': 'N', 'seed': seed, 'nus': nuB, 'gammas': sel[1][0], 'hs': sel[1][1],
                              'theta0': 1.5, 'tf': 1e-3, 'steps': 3, 'frozen': frozen, 'nomut': None, 'mig': mig, 'units': (0, chunk)})
            if d <= 3 and any(frozen) and not all(frozen):
                cases.append({'kind': 'ledger', 'd': d, 'G': G, 'grid': 'D', 'seed': seed, 'nus': nuB, 'gammas': sel[1][0], 'hs': sel[1][1],
                              'theta0': 1.5, 'tf': 1e-3, 'steps': 3, 'frozen': frozen, 'nomut': None, 'mig': mig, 'units': (0, min(chunk, 9)),
                              'prehistory_grid': 'U'})
            if not all(frozen):
                # sizes that change in time: the drivers re-size the step from the current sizes at every step
                cases.append({'kind': 'ledger', 'd': d, 'G': G, 'grid': 'D', 'seed': seed, 'nus': nuA, 'gammas': sel[1][0], 'hs': sel[1][1],
                              'theta0': 1.5, 'tf': 1e-3, 'steps': 4, 'frozen': frozen, 'nomut': None, 'mig': mig, 'units': (0, min(chunk, 9)),
                              'varying': True})
        # migration-dominated step size with strongly asymmetric rates: every single rate in turn is the one that limits the step
        for (ii, jj) in [(a_, b_) for a_ in range(d) for b_ in range(d) if a_ != b_]:
            if ctx.quick and d >= 4 and (ii + 2 * jj) % 3:
                continue
            mig = [((a_, b_), 20.0 if (a_, b_) == (ii, jj) else 0.05) for a_ in range(d) for b_ in range(d) if a_ != b_]
            cases.append({'kind': 'ledger', 'd': d, 'G': G, 'grid': 'D', 'seed': seed, 'nus': [4.0, 5.0, 6.0, 4.5, 5.5][:d], 'gammas': [0.0] * d, 'hs': [0.5] * d,
                          'theta0': 1.5, 'tf': 1e-3, 'steps': 5, 'frozen': (0,) * d, 'nomut': None, 'mig': mig, 'units': (0, min(N, 9))})
        for steps in (1, 7):
            for funcs in (False, True):
                for gk in gks:
                    chunk = N if d <= 3 else 27
                    for lo in range(0, N, chunk):
                        cases.append({'kind': 'isolated', 'd': d, 'G': G, 'grid': gk, 'seed': seed, 'tf': 1e-3, 'steps': steps, 'theta0': 0.7,
                                      'funcs': funcs, 'units': (lo, min(N, lo + chunk))})
        cases.append({'kind': 'reject', 'd': d})
    if ctx.quick:
        ctx.cap_hit('quick: for each frozen/nomut pattern one third of the (sizes, selection, migration, steps) product (rotated with the pattern) on the '
                    'default grid; thorough: full product on two grids')
    from mc.evidence import Collector
    a, b = Collector(), Collector()
    _dispatch(a, cases[0]); _dispatch(b, cases[0])
    assert a.viol_count == b.viol_count and a.maxima == b.maxima
    cases.sort(key=lambda c: -(c['d'] * 100 + c.get('steps', 1)))
    explore.pmap(ctx, _dispatch, cases, chunk=1)
    ctx.tick(evaluations=len(cases))
    for c in (cases[0], cases[len(cases) // 2], cases[-1]):
        ctx.sample(c)
    ctx.rule = ('frozen pattern x nomut pattern x sizes x selection x migration x steps x driver kind, each on every unit density (+zero, dense); every '
                'subset S for the isolated-marginal clause; every (frozen pattern, migration placement) for rejection. distinct_nontrivial = distinct '
                'configurations whose every unit density passed all applicable identities')
    ctx.assume('one grid for all axes (driver API); the full lattice runs with the delj switch off, a reduced lattice (every frozen pattern) with it on and with Fortran-ordered / strided inputs')
    ctx.assume('isolated-marginal clause is asserted where all frequencies of S are interior (boundary values decouple because V vanishes there)')
