"""C01 – the one-population SFS matches exact coalescent and selection-equilibrium theory.

(a) ALL piecewise-constant histories of k epochs over the lattice nu in {0.05,1,20} x T in {0.005,0.3,3} (quick k<=2, thorough k<=3 + 4-epoch
    alternations), sample sizes {2,12,30}, constant / function-of-time parameter passing, linear / log extrapolation, ordered / unordered grid lists, on
    the refinement ladder (grid x r, time step x s), (r,s) in {(1,1),(1,0.1),(2,0.1)}.  Oracle: exact coalescent expectation (mc/refs/coalescent.py).
    Verdicts: every polymorphic entry within 1.5% at the top of the ladder; error proportional to the step (ratio 4..25 per tenfold refinement where the
    step error dominates); constant and function passing agree; library wrappers two_epoch / three_epoch agree with the raw integrator.
(b) Equilibrium density phi_1D on a (gamma, h, nu, beta, theta0) lattice straddling every regime switch: finite, non-negative; continuous across
    switches; SFS converges under grid doubling to the independently integrated closed form; left unchanged by further integration under the same nu,
    gamma, h up to a grid error that contracts under refinement.
"""
import itertools
import math

import numpy as np

from mc import explore
from mc.refs import coalescent as CO

LEVEL = 'model_checking'
NUS = [0.05, 1.0, 20.0]
TS = [0.005, 0.3, 3.0]
NSAMP = [2, 12, 30]


def integrate_history(xx, epochs, passing, phi0=None):
    import dadi
    phi = dadi.PhiManip.phi_1D(xx) if phi0 is None else phi0
    t0 = 0.0
    for nu, T in epochs:
        if passing == 'func':
            phi = dadi.Integration.one_pop(phi, xx, T, nu=(lambda t, v=nu: v))
        elif passing == 'const_abs':
            # the same epoch written in absolute time: from initial_t = t0 to T = t0 + duration
            phi = dadi.Integration.one_pop(phi, xx, t0 + T, nu=nu, initial_t=t0)
        elif passing == 'func_abs':
            phi = dadi.Integration.one_pop(phi, xx, t0 + T, nu=(lambda t, v=nu: v), initial_t=t0)
        else:
            phi = dadi.Integration.one_pop(phi, xx, T, nu=nu)
        t0 += T
    return phi


def history_class(epochs):
    """canonical name of the class of histories with (numerically) the same expected spectrum: adjacent epochs of equal size merged, epochs too short to
    matter (T/nu <= 0.005 coalescent units) dropped, everything before the last epoch long enough to erase the past (T/nu >= 6) forgotten"""
    def merge(ep):
        out = []
        for nu, T in ep:
            if out and out[-1][0] == nu:
                out[-1] = (nu, out[-1][1] + T)
            else:
                out.append((nu, T))
        return out
    ep = merge([(nu, T) for nu, T in epochs if T / nu > 0.005])
    start = 'equilibrium'
    for k in range(len(ep) - 1, -1, -1):
        if ep[k][1] / ep[k][0] >= 6 - 1e-9:
            start = 'equilibrium_at_nu%g' % ep[k][0]
            ep = ep[k + 1:]
            break
    return '_'.join([start] + ['nu%g-T%g' % (nu, round(T, 6)) for nu, T in ep])


def case_history(col, p):
    import dadi
    epochs = [tuple(e) for e in p['epochs']]
    exact = {n: np.array(CO.expected_sfs(n, epochs)) for n in NSAMP}
    results = {}
    cache = {}
    start = {}       # one equilibrium density per grid, shared by every rung of the ladder and both passing modes (as a user script would)

    def model_factory(passing):
        def model(params, ns, pts):
            key = (passing, pts, dadi.Integration.timescale_factor)
            if key not in cache:
                xx = dadi.Numerics.default_grid(pts)
                if pts not in start:
                    start[pts] = dadi.PhiManip.phi_1D(xx)
                cache[key] = (xx, integrate_history(xx, epochs, passing, start[pts]))
            xx, phi = cache[key]
            return dadi.Spectrum.from_phi(phi, ns, (xx,))
        return model
    old = dadi.Integration.timescale_factor
    try:
        errs = {}
        for (r, s) in ((1, 1.0), (1, 0.1), (2, 0.1)):
            dadi.Integration.timescale_factor = 1e-3 * s
            for passing in ('const', 'func'):
                m = model_factory(passing)
                for n in NSAMP:
                    g = max(n, 40)
                    pts_l = [g * r, (g + 10) * r, (g + 20) * r]
                    for mode, fx in (('lin', dadi.Numerics.make_extrap_func(m)), ('log', dadi.Numerics.make_extrap_log_func(m))):
                        fs = fx(None, (n,), pts_l)
                        col.tick(transitions=1)
                        rel = np.abs(np.asarray(fs.data)[1:n] / exact[n] - 1.0)
                        errs[(r, s, passing, n, mode)] = float(rel.max())
                        results[(r, s, passing, n, mode)] = np.asarray(fs.data)[1:n].copy()
                    if (r, s) == (1, 1.0) and passing == 'const':
                        # order of the grid list must not matter
                        fx = dadi.Numerics.make_extrap_func(m)
                        a = fx(None, (n,), pts_l)
                        b = fx(None, (n,), [pts_l[2], pts_l[0], pts_l[1]])
                        col.tick(transitions=2)
                        if not np.allclose(np.asarray(a.data)[1:n], np.asarray(b.data)[1:n], rtol=1e-9):
                            col.violation('C01:extrapolation:grid_order', dict(p, n=n), '')
        info = dict(p)
        # grid lists of other lengths (1..6 grid sizes are documented) at the top of the ladder
        dadi.Integration.timescale_factor = 1e-4
        m = model_factory('const')
        three = errs[(2, 0.1, 'const', 12, 'lin')]
        for k in (1, 2, 4, 5, 6):
            pts_l = [80 + 20 * q for q in range(k)] if k > 1 else [160]        # one grid size: no extrapolation, the plain result
            for mode, fx in (('lin', dadi.Numerics.make_extrap_func(m)), ('log', dadi.Numerics.make_extrap_log_func(m))):
                try:
                    fs = fx(None, (12,), pts_l)
                except Exception as e:
                    col.violation('C01:extrapolation:%d_grids:raises' % k, dict(info, mode=mode), '%s: %s' % (type(e).__name__, e))
                    continue
                col.tick(transitions=1)
                ek = float(np.abs(np.asarray(fs.data)[1:12] / exact[12] - 1.0).max())
                # two grid sizes give only first-order extrapolation: sanity bound there, the 1.5% bound for 4-6 grid sizes
                if not ek <= (max(0.05, 10 * three) if k <= 2 else max(0.015, 3 * three)):
                    col.violation('C01:extrapolation:%d_grids:error' % k, dict(info, mode=mode), {'relerr': ek, 'relerr_three_grids': three})
        for passing in ('const', 'func'):
            for n in NSAMP:
                for mode in ('lin', 'log'):
                    top = errs[(2, 0.1, passing, n, mode)]
                    e1, e01 = errs[(1, 1.0, passing, n, mode)], errs[(1, 0.1, passing, n, mode)]
                    if not top <= 0.015:
                        hist = history_class(epochs)
                        col.violation('C01:history:error_above_1.5pct_at_ladder_top:%s' % hist, dict(info, n=n, passing=passing, mode=mode), {'relerr_ladder': [e1, e01, top]})
                    else:
                        col.observe('history_top_error', top / 0.015)
                    # proportional to the time step where the step error dominates the grid floor
                    floor = top
                    if e1 >= 20 * max(floor, 1e-6) and e1 > 2e-3:
                        ratio = e1 / max(e01, 1e-300)
                        if not 3.0 <= ratio <= 40.0:
                            col.violation('C01:history:error_not_proportional_to_step', dict(info, n=n, passing=passing, mode=mode), {'relerr_ladder': [e1, e01, top], 'ratio': ratio})
                        col.tick(order_checks=1)
        for n in NSAMP:
            for mode in ('lin', 'log'):
                for rs in ((1, 1.0), (2, 0.1)):
                    a, b = results[rs + ('const', n, mode)], results[rs + ('func', n, mode)]
                    d = float(np.abs(a / b - 1).max())
                    if not d <= 1e-9:
                        col.violation('C01:history:constant_vs_function_passing', dict(info, n=n, mode=mode, ladder=rs), {'maxrel': d})
        # epochs written in absolute time (initial_t .. T) are the same epochs
        dadi.Integration.timescale_factor = 1e-3
        if epochs:
            xx_a = dadi.Numerics.default_grid(40)
            ref_a = integrate_history(xx_a, epochs, 'const')
            for mode_a in ('const_abs', 'func_abs'):
                got_a = integrate_history(xx_a, epochs, mode_a)
                col.tick(transitions=len(epochs))
                e_a = float(np.abs(got_a / ref_a - 1)[1:-1].max())
                if not e_a <= 1e-7:
                    col.violation('C01:one_pop:initial_t:%s' % mode_a, info, {'maxrel': e_a})
        # library wrappers
        dadi.Integration.timescale_factor = 1e-4
        n = 12
        pts_l = [80, 100, 120]
        if len(epochs) == 1:
            fs = dadi.Numerics.make_extrap_func(dadi.Demographics1D.two_epoch)([epochs[0][0], epochs[0][1]], (n,), pts_l)
            raw = results[(2, 0.1, 'const', n, 'lin')]
            col.tick(transitions=1)
            if not np.allclose(np.asarray(fs.data)[1:n], raw, rtol=1e-9):
                col.violation('C01:two_epoch:differs_from_integrator', info, '')
        if len(epochs) == 2:
            fs = dadi.Numerics.make_extrap_func(dadi.Demographics1D.three_epoch)([epochs[0][0], epochs[1][0], epochs[0][1], epochs[1][1]], (n,), pts_l)
            raw = results[(2, 0.1, 'const', n, 'lin')]
            col.tick(transitions=1)
            if not np.allclose(np.asarray(fs.data)[1:n], raw, rtol=1e-9):
                col.violation('C01:three_epoch:differs_from_integrator', info, '')
        for pts, ph in start.items():
            if not np.array_equal(ph, dadi.PhiManip.phi_1D(dadi.Numerics.default_grid(pts))):
                col.violation('C01:one_pop:input_modified', dict(info, pts=pts), 'the shared equilibrium density was changed by integrating it')
    finally:
        dadi.Integration.timescale_factor = old
    col.tick(states=1, traces=1)
    col.distinct('nontrivial', ('history', tuple(epochs)))


def case_growth(col, p):
    """exponential growth wrappers vs a fine piecewise-constant coalescent approximation"""
    import dadi
    nuB, nuF, T = p['nuB'], p['nuF'], p['T']
    pieces = 400
    ep = [(nuB * (nuF / nuB) ** ((k + 0.5) / pieces), T / pieces) for k in range(pieces)]
    ep2 = [(nuB * (nuF / nuB) ** ((k + 0.5) / (pieces // 2)), T / (pieces // 2)) for k in range(pieces // 2)]
    n = 12
    ex, ex2 = np.array(CO.expected_sfs(n, ep)), np.array(CO.expected_sfs(n, ep2))
    approx_err = float(np.abs(ex / ex2 - 1).max())
    old = dadi.Integration.timescale_factor
    dadi.Integration.timescale_factor = 1e-4
    try:
        if nuB == 1.0:
            fs = dadi.Numerics.make_extrap_func(dadi.Demographics1D.growth)([nuF, T], (n,), [80, 100, 120])
            name = 'growth'
        else:
            fs = dadi.Numerics.make_extrap_func(dadi.Demographics1D.bottlegrowth_1d)([nuB, nuF, T], (n,), [80, 100, 120])
            name = 'bottlegrowth_1d'
        col.tick(transitions=1)
        err = float(np.abs(np.asarray(fs.data)[1:n] / ex - 1).max())
        if not err <= 0.015 + 2 * approx_err:
            col.violation('C01:%s:vs_coalescent' % name, dict(p), {'relerr': err, 'oracle_discretisation': approx_err})
        else:
            col.observe('growth_error', err / 0.015)
    finally:
        dadi.Integration.timescale_factor = old
    col.tick(states=1, traces=1)
    col.distinct('nontrivial', ('growth', nuB, nuF, T))


# ------------------------------------------------------------------------------------------------ (b) equilibrium
def Qfun(x, G, h):
    return 4 * G * h * x + 2 * G * (1 - 2 * h) * x * x


def closed_form_phi(x, nu, theta0, gamma, h, beta):
    """theta0*nu/bf * int_x^1 exp(-(Q(xi)-Q(x))) dxi / int_0^1 exp(-Q(xi)) dxi / (x(1-x)),  G = gamma*nu*4beta/(beta+1)^2  (coded independently, log-space)"""
    import scipy.integrate
    bf = (beta + 1.0) ** 2 / (4.0 * beta)
    G = gamma * nu / bf
    if G == 0:
        return theta0 * nu / bf / x

    def logint(f, a, b):
        grid = np.linspace(a, b, 201)
        fmax = max(f(t) for t in grid)
        val = scipy.integrate.quad(lambda t: math.exp(f(t) - fmax), a, b, limit=400, points=[a + (b - a) * q for q in (0.001, 0.01, 0.1, 0.5, 0.9, 0.99, 0.999)])[0]
        return fmax + math.log(max(val, 1e-300))
    ln_num = logint(lambda t: -(Qfun(t, G, h) - Qfun(x, G, h)), x, 1.0)
    ln_den = logint(lambda t: -Qfun(t, G, h), 0.0, 1.0)
    return theta0 * nu / bf * math.exp(ln_num - ln_den) / (x * (1 - x))


def closed_form_sfs(n, nu, theta0, gamma, h, beta):
    import scipy.integrate
    out = []
    for i in range(1, n):
        f = lambda x: math.comb(n, i) * x ** i * (1 - x) ** (n - i) * closed_form_phi(x, nu, theta0, gamma, h, beta)
        val = scipy.integrate.quad(f, 0.0, 1.0, limit=400, points=[1e-6, 1e-4, 1e-2, 0.1, 0.5, 0.9, 0.99])[0]
        out.append(val)
    return np.array(out)


GAMMAS = [-1e6, -1e3, -356.0, -354.0, -301.0, -300.0, -299.0, -40.0, -1.0, -1e-3, -1e-8, 0.0, 1e-8, 1e-3, 1.0, 40.0, 299.0, 300.0, 301.0, 1e3]
HS = [0.0, 0.25, 0.5 - 1e-9, 0.5, 0.5 + 1e-9, 0.75, 1.0]


def case_density(col, p):
    """finite, non-negative on the whole lattice; continuity across regime switches"""
    import dadi
    nu, beta, theta0 = p['nu'], p['beta'], p['theta0']
    n = 0
    for gk, G in (('E', 20), ('E', 40), ('U', 20), ('Q', 40)):
        xx = {'E': dadi.Numerics.default_grid(G), 'U': np.linspace(0, 1, G), 'Q': dadi.Numerics.quadratic_grid(G)}[gk]
        vals = {}
        for gamma in GAMMAS:
            for h in HS:
                try:
                    phi = dadi.PhiManip.phi_1D(xx, nu=nu, theta0=theta0, gamma=gamma, h=h, beta=beta)
                except Exception as e:
                    col.violation('C01:phi_1D:raises', dict(p, grid=gk, G=G, gamma=gamma, h=h), '%s: %s' % (type(e).__name__, str(e)[:150]))
                    continue
                col.tick(transitions=1)
                n += 1
                vals[(gamma, h)] = phi
                if not np.isfinite(phi).all():
                    geff = gamma * nu * 4 * beta / (beta + 1) ** 2
                    regime = ':effective_selection_below_-2e6' if geff < -2e6 else ''
                    col.violation('C01:phi_1D:not_finite%s' % regime, dict(p, grid=gk, G=G, gamma=gamma, h=h), {'where': np.where(~np.isfinite(phi))[0][:5], 'effective_gamma': geff})
                elif phi.min() < 0:
                    col.violation('C01:phi_1D:negative', dict(p, grid=gk, G=G, gamma=gamma, h=h), {'min': float(phi.min()), 'at': int(phi.argmin())})
        # continuity in gamma across (0, +-300, -354.9 overflow) and in h across 0.5: compare straddling pairs with the next-nearest pair (Lipschitz estimate)
        def dist(a, b):
            return float(np.abs(a - b)[1:-1].max() / max(np.abs(b)[1:-1].max(), 1e-300))
        for h in HS:
            for g_lo, g_hi in ((-301.0, -300.0), (-300.0, -299.0), (-356.0, -354.0), (-1e-8, 0.0), (0.0, 1e-8), (299.0, 300.0), (300.0, 301.0)):
                if (g_lo, h) in vals and (g_hi, h) in vals and np.isfinite(vals[(g_lo, h)]).all() and np.isfinite(vals[(g_hi, h)]).all():
                    d = dist(vals[(g_lo, h)], vals[(g_hi, h)])
                    # a change of gamma by dg changes the density by at most ~ 2*nu*dg relative (exponent 2*gamma*nu*x), generously x5
                    bound = 5 * 2 * nu * abs(g_hi - g_lo) + 1e-6
                    if not d <= bound:
                        col.violation('C01:phi_1D:discontinuous_in_gamma', dict(p, grid=gk, G=G, h=h, gammas=(g_lo, g_hi)), {'reldiff': d, 'bound': bound})
        for gamma in GAMMAS:
            for h_lo, h_hi in ((0.5 - 1e-9, 0.5), (0.5, 0.5 + 1e-9)):
                if (gamma, h_lo) in vals and (gamma, h_hi) in vals and np.isfinite(vals[(gamma, h_lo)]).all() and np.isfinite(vals[(gamma, h_hi)]).all():
                    d = dist(vals[(gamma, h_lo)], vals[(gamma, h_hi)])
                    bound = 1e-5 + 5 * 4 * abs(gamma) * nu * 1e-9
                    if not d <= bound:
                        col.violation('C01:phi_1D:discontinuous_in_h', dict(p, grid=gk, G=G, gamma=gamma, hs=(h_lo, h_hi)), {'reldiff': d, 'bound': bound})
    col.tick(states=n, traces=n)
    col.distinct('nontrivial', ('density', nu, beta, theta0))


def case_closed_form(col, p):
    """SFS sampled from phi_1D converges under grid doubling to the closed-form stationary SFS (selection enters as gamma*nu*4beta/(beta+1)^2)"""
    import dadi
    nu, gamma, h, beta, theta0 = p['nu'], p['gamma'], p['h'], p['beta'], p['theta0']
    n = 8
    ex = closed_form_sfs(n, nu, theta0, gamma, h, beta)
    errs = []
    for G in (40, 80, 160):
        xx = dadi.Numerics.default_grid(G)
        phi = dadi.PhiManip.phi_1D(xx, nu=nu, theta0=theta0, gamma=gamma, h=h, beta=beta)
        fs = dadi.Spectrum.from_phi(phi, (n,), (xx,))
        col.tick(transitions=1)
        errs.append(float(np.abs(np.asarray(fs.data)[1:n] / ex - 1).max()))
    if not ((errs[2] <= 0.4 * errs[0] and errs[2] <= 0.1) or errs[2] < 2e-3):      # convergence under refinement (two doublings: at least 2.5x)
        col.violation('C01:phi_1D:vs_closed_form', dict(p), {'relerr_by_grid': errs})
    else:
        col.observe('closed_form', errs[2] / max(0.4 * errs[0], 2e-3))
    col.tick(states=1, traces=1)
    col.distinct('nontrivial', ('closed_form', nu, gamma, h, beta, theta0))


def case_stationary(col, p):
    """the equilibrium is left unchanged by further integration under the same size and selection, up to a grid error that contracts"""
    import dadi
    nu, gamma, h, beta = p['nu'], p['gamma'], p['h'], p['beta']
    n = 8
    errs = []
    old = dadi.Integration.timescale_factor
    dadi.Integration.timescale_factor = 1e-4
    try:
        for G in (30, 60, 120):
            xx = dadi.Numerics.default_grid(G)
            phi = dadi.PhiManip.phi_1D(xx, nu=nu, gamma=gamma, h=h, beta=beta)
            a = np.asarray(dadi.Spectrum.from_phi(phi, (n,), (xx,)).data)[1:n]
            worst = 0.0
            for T in p['Ts']:
                for passing in ('const', 'func'):
                    kw = dict(nu=nu, gamma=gamma, h=h, beta=beta)
                    if passing == 'func':
                        kw['nu'] = (lambda t, v=nu: v)
                    snap = phi.copy()
                    phi2 = dadi.Integration.one_pop(phi, xx, T, **kw)
                    if not np.array_equal(phi, snap):
                        # the equilibrium density handed to the integrator is used again below (and by any caller): it must come back unchanged
                        col.violation('C01:one_pop:input_modified', dict(p, T=T, passing=passing, G=G), {'maxrelchange': float(np.abs(phi / snap - 1).max())})
                        phi = snap
                    b = np.asarray(dadi.Spectrum.from_phi(phi2, (n,), (xx,)).data)[1:n]
                    col.tick(transitions=1)
                    worst = max(worst, float(np.abs(b / a - 1).max()))
            errs.append(worst)
    finally:
        dadi.Integration.timescale_factor = old
    if not ((errs[2] <= 0.45 * errs[0] and errs[2] <= 0.5) or errs[2] < 1e-3):      # a grid error that vanishes under refinement
        col.violation('C01:phi_1D:not_stationary', dict(p), {'relchange_by_grid': errs})
    else:
        col.observe('stationarity', errs[2] / max(0.45 * errs[0], 1e-3))
    col.tick(states=1, traces=1)
    col.distinct('nontrivial', ('stationary', nu, gamma, h, beta))


def case_sel_wrappers(col, p):
    """library models with selection, run at constant size 1 through all their epochs, must stay at the drift-selection equilibrium
    (DemogSelModels.equil, itself compared with the closed form in case_closed_form) up to a grid error that contracts under refinement"""
    import dadi
    from dadi.DFE import DemogSelModels as M
    gamma = p['gamma']
    n = 8
    Ta, Tb = p['Ts']
    models = {
        'two_epoch_sel': (M.two_epoch_sel, [1.0, Ta + Tb, gamma]),
        'three_epoch_sel': (M.three_epoch_sel, [1.0, 1.0, Ta, Tb, gamma]),
        'three_epoch_sel_TB0': (M.three_epoch_sel, [1.0, 1.0, 0.0, Tb, gamma]),
        'three_epoch_sel_TF0': (M.three_epoch_sel, [1.0, 1.0, Ta, 0.0, gamma]),
        'growth_sel': (M.growth_sel, [1.0, Ta, gamma]),
        'bottlegrowth_1d_sel': (M.bottlegrowth_1d_sel, [1.0, 1.0, Tb, gamma]),
    }
    old = dadi.Integration.timescale_factor
    dadi.Integration.timescale_factor = 1e-3
    try:
        for name, (f, params) in models.items():
            errs = []
            for G in (30, 60, 120):
                a = np.asarray(M.equil([gamma], (n,), G).data)[1:n]
                b = np.asarray(f(params, (n,), G).data)[1:n]
                col.tick(transitions=2)
                errs.append(float(np.abs(b / a - 1).max()))
            if not ((errs[2] <= 0.45 * errs[0] and errs[2] <= 0.5) or errs[2] < 1e-3):
                col.violation('C01:%s:leaves_selection_equilibrium' % name.split('_T')[0], dict(p, model=name, params=params), {'relchange_by_grid': errs})
            else:
                col.observe('sel_wrappers', errs[2] / max(0.45 * errs[0], 1e-3))
    finally:
        dadi.Integration.timescale_factor = old
    col.tick(states=1, traces=1)
    col.distinct('nontrivial', ('sel_wrappers', gamma))


def case_density_history(col, p):
    """phi_1D called for a SEQUENCE of (nu, beta) at the same gamma, h and grid in one process: each result must equal the density of the
    equivalent reference-size problem, phi_1D(nu=1, beta=1, theta0*nu*bf, gamma*nu*bf) with bf = 4 beta/(beta+1)^2, whatever was computed before"""
    import dadi
    xx = dadi.Numerics.default_grid(16)
    gamma, h = p['gamma'], p['h']
    n = 0
    for order in itertools.permutations(p['nubetas']):
        for k, (nu, beta) in enumerate(order):
            bf = 4.0 * beta / (beta + 1.0) ** 2
            a = dadi.PhiManip.phi_1D(xx, nu=nu, theta0=1.3, gamma=gamma, h=h, beta=beta)
            b = dadi.PhiManip.phi_1D(xx, nu=1.0, theta0=1.3 * nu * bf, gamma=gamma * nu * bf, h=h, beta=1)
            col.tick(transitions=2)
            n += 1
            err = float(np.abs(a - b).max() / np.abs(b).max())
            if not err <= 1e-9:
                col.violation('C01:phi_1D:result_depends_on_history', dict(p, order=[list(x) for x in order], position=k), {'relerr': err})
                break
    col.tick(states=n, traces=n)
    col.distinct('nontrivial', ('density_history', gamma, h))


CASES = {'density_history': case_density_history, 'sel_wrappers': case_sel_wrappers, 'history': case_history, 'growth': case_growth, 'density': case_density, 'closed_form': case_closed_form, 'stationary': case_stationary}


def _dispatch(col, case):
    CASES[case['kind']](col, case)


def replay(ctx, case):
    _dispatch(ctx, case)


def run(ctx):
    cases = []
    lattice = list(itertools.product(NUS, TS))
    kmax = 2 if ctx.quick else 3
    for k in range(0, kmax + 1):
        for combo in itertools.product(lattice, repeat=k):
            cases.append({'kind': 'history', 'epochs': [list(e) for e in combo]})
    if not ctx.quick:
        for combo in itertools.product(list(itertools.product((0.05, 20.0), (0.005, 3.0))), repeat=4):
            if all(combo[i][0] != combo[i + 1][0] for i in range(3)):
                cases.append({'kind': 'history', 'epochs': [list(e) for e in combo]})
    else:
        ctx.cap_hit('quick: histories with <= 2 epochs (91 of the lattice); thorough: <= 3 epochs (820) plus 4-epoch alternations')
    for nuB, nuF, T in itertools.product((1.0, 0.1), (0.1, 10.0), (0.05, 1.0)):
        if nuB != nuF:
            cases.append({'kind': 'growth', 'nuB': nuB, 'nuF': nuF, 'T': T})
    # strong exponential declines inside ONE call of the time-dependent driver (the step must follow the shrinking population)
    for nuB, nuF, T in ((10.0, 0.1, 0.3), (20.0, 0.05, 0.3), (10.0, 0.1, 1.0)):
        cases.append({'kind': 'growth', 'nuB': nuB, 'nuF': nuF, 'T': T})
    for nu, beta, theta0 in itertools.product((0.1, 1.0, 10.0), (0.2, 1.0, 5.0), (0.5, 1.0, 3.0)):
        if ctx.quick and (theta0 != 1.0 and (nu != 1.0 or beta != 1.0)):
            continue
        cases.append({'kind': 'density', 'nu': nu, 'beta': beta, 'theta0': theta0})
    sel = [(-40.0, 0.5), (-5.0, 0.0), (-5.0, 0.25), (-1.0, 1.0), (0.0, 0.5), (1.0, 0.5), (5.0, 0.75), (5.0, 0.2), (40.0, 0.5)]
    for nu, (gamma, h), beta in itertools.product((0.1, 1.0, 10.0), sel, (0.2, 1.0, 5.0)):
        if abs(gamma * nu) > 400:
            continue
        if ctx.quick and beta != 1.0 and not (nu == 1.0 and abs(gamma) <= 5):
            continue
        cases.append({'kind': 'closed_form', 'nu': nu, 'gamma': gamma, 'h': h, 'beta': beta, 'theta0': 1.7})
        if abs(gamma * nu) <= 60:
            cases.append({'kind': 'stationary', 'nu': nu, 'gamma': gamma, 'h': h, 'beta': beta, 'Ts': [0.5 * nu, 4.0 * min(nu, 1.0)]})
    for gamma in (-40.0, -6.0, -1.0, 0.0, 1.0, 5.0, 40.0):
        cases.append({'kind': 'sel_wrappers', 'gamma': gamma, 'Ts': [0.3, 0.7]})
    for gamma, h in ((-5.0, 0.2), (3.0, 0.8), (-400.0, 0.0), (2.0, 0.5)):
        cases.append({'kind': 'density_history', 'gamma': gamma, 'h': h, 'nubetas': [[0.1, 1.0], [1.0, 5.0], [10.0, 0.2]]})
    cases.sort(key=lambda c: -(sum(e[1] / e[0] for e in c.get('epochs', [])) + (50 if c['kind'] in ('closed_form', 'stationary') else 0)))
    explore.pmap(ctx, _dispatch, cases, chunk=1)
    ctx.tick(evaluations=len(cases))
    for c in (cases[0], cases[len(cases) // 2], cases[-1]):
        ctx.sample(c)
    ctx.rule = ('every history of the epoch lattice up to the length bound x sample sizes x passing x extrapolation mode on the (grid, step) ladder; the '
                '(gamma, h, nu, beta, theta0) lattice for the equilibrium density with every regime switch straddled. distinct_nontrivial = distinct histories / lattice points')
    ctx.assume('"within 1.5% at a tenth of the default step" is read at the top of the ladder: time step x0.1 on the doubled grid list [2g,2g+20,2g+40], g=max(n,40) '
               '(at the coarse list the grid error, not the step error, dominates the rarest entries)')
    ctx.assume('scipy.integrate.quad is trusted for the two transcendental oracles (closed-form equilibrium SFS); the coalescent oracle is exact rational + 80-digit decimal arithmetic')
