"""C20 – results are independent of call history; inputs are never modified in place.

Explicit-state search over dadi's MODULE STATE (all memoisation tables, global switches, numpy error state – mc/state.py):
  * alphabet: ~30 public calls with fixed small arguments, chosen so that every cache is hit by at least two symbols with overlapping keys;
  * BFS over ALL call sequences, merging states by canonical hash of the module state, until no new state appears (caches are monotone finite
    maps, so the reachable graph is finite: this covers histories of any length) or a reported state cap is hit;
  * on every transition: the result equals the value of the same call in a fresh (cleared) state – itself validated once against a fresh
    interpreter process; every array / list / dict argument is bitwise unchanged; results of functions not documented as in-place share no
    memory with their inputs.
Layouts: every array argument of every symbol x {C, Fortran, transposed, strided slice, reversed, read-only}.
Hash seeds: the fresh table and all length-2 sequences are recomputed under PYTHONHASHSEED in {0,1,2,3,seed} in subprocesses and compared.
"""
import copy
import hashlib
import itertools
import json
import os
import subprocess
import sys

import numpy as np

from mc import explore

LEVEL = 'model_checking'
VERIF = os.path.dirname(os.path.dirname(os.path.abspath(__file__)))


# ------------------------------------------------------------------------------------------------ alphabet
def _grid(n=6, variant=0):
    g = np.array([0.0, 0.125, 0.25, 0.5, 0.75, 1.0])
    if variant == 1:
        g = np.array([0.0, 0.125, 0.375, 0.625, 0.875, 1.0])
    if variant == 2:
        g = np.array([0.0, 0.125, 0.25, 0.5, 0.75 + 2 ** -40, 1.0])
    return g


def _phi(d, n=6, seed=0):
    rng = np.random.RandomState(100 + d + seed)
    return rng.uniform(0.2, 1.0, size=(n,) * d)


def _fs(shape, seed=0):
    import dadi
    rng = np.random.RandomState(7 + seed)
    return dadi.Spectrum(rng.uniform(0.5, 3.0, size=shape), pop_ids=['p%d' % i for i in range(len(shape))])


def _dd(npop):
    d = {}
    for i in range(6):
        calls = {'A': (3 + i % 2, 3 - i % 2)} if npop == 1 else {'A': (3, 3), 'B': (4 - i % 2, 2 + i % 2)}
        d['chr1_%d' % i] = {'segregating': ['A', 'T'], 'calls': calls, 'outgroup_allele': 'A', 'context': '-A-', 'outgroup_context': '-A-'}
    return d


def _lin_model(scale=1.0):
    import dadi
    i = np.arange(9.0)
    B = [1.0 / np.maximum(i, 1), np.exp(-i / 3.0), (i / 8) ** 2 + 0.1]

    def f(p, ns, pts):
        # mildly grid-dependent, as real models are (so that a cache ignoring the grid is visible)
        gfac = 1.0 + 0.5 / float(np.atleast_1d(pts)[0])
        return dadi.Spectrum(scale * gfac * sum(float(pk) * b for pk, b in zip(p, B)))
    return f


_MODEL_A = None
_MODEL_B = None


def _models():
    global _MODEL_A, _MODEL_B
    if _MODEL_A is None:
        _MODEL_A = _lin_model(1.0)
        _MODEL_B = _lin_model(1.7)
    return _MODEL_A, _MODEL_B


def _demes_graph():
    import demes
    b = demes.Builder(time_units='generations')
    b.add_deme('anc', epochs=[dict(start_size=1000, end_time=200)])
    b.add_deme('A', ancestors=['anc'], epochs=[dict(start_size=500, end_size=2000, end_time=0)])
    b.add_deme('B', ancestors=['anc'], epochs=[dict(start_size=1500, end_time=0)])
    b.add_migration(demes=['A', 'B'], rate=1e-3)
    b.add_pulse(sources=['A'], dest='B', proportions=[0.1], time=50)
    return b.resolve()


def symbols():
    """name -> (factory of argument dict, function(args) -> result, set of arg names documented as modified in place)"""
    import dadi
    from dadi import Numerics, Inference, Godambe, Misc, PhiManip as PM, Integration as I
    import dadi.LowPass.LowPass as LP
    fA, fB = _models()
    S = {}

    def add(name, factory, call, inplace=()):
        S[name] = (factory, call, set(inplace))

    add('project_1d', lambda: {'fs': _fs((7,))}, lambda a: a['fs'].project([4]))
    add('project_2d', lambda: {'fs': _fs((7, 5))}, lambda a: a['fs'].project([4, 3]))
    add('fold', lambda: {'fs': _fs((5, 4))}, lambda a: a['fs'].fold())
    add('S_pi', lambda: {'fs': _fs((7,))}, lambda a: np.array([a['fs'].S(), a['fs'].pi(), a['fs'].Watterson_theta(), a['fs'].Tajima_D()]))
    def _one_corner():
        fs = dadi.Spectrum(np.arange(1.0, 9.0), mask_corners=False)     # e.g. divergence data: fixed sites kept, absent class masked
        fs.mask[0] = True
        return fs
    add('S_pi_one_corner_masked', lambda: {'fs': _one_corner()}, lambda a: np.array([a['fs'].S(), a['fs'].Watterson_theta(), a['fs'].Tajima_D(), a['fs'].pi()]))
    # corners left unmasked (monomorphic classes kept): S() masks them for the count whatever the memory layout of the spectrum
    def _unmasked(shape):
        return dadi.Spectrum(np.asarray(_fs(shape).data).copy() + 1.0, mask_corners=False)
    add('S_unmasked_corners_2d', lambda: {'fs': _unmasked((4, 5))}, lambda a: np.array([a['fs'].S()]))
    add('mask_corners_2d', lambda: {'fs': _unmasked((3, 4))}, lambda a: (a['fs'].mask_corners(), np.ma.getmaskarray(a['fs']).astype(float))[1], inplace=('fs',))
    add('Fst', lambda: {'fs': _fs((4, 6))}, lambda a: np.array([a['fs'].Fst()]))
    add('marginalize', lambda: {'fs': _fs((4, 3, 5))}, lambda a: a['fs'].marginalize([1]))
    add('from_phi_1d', lambda: {'phi': _phi(1), 'xx': _grid()}, lambda a: dadi.Spectrum.from_phi(a['phi'], [5], [a['xx']]))
    add('from_phi_2d', lambda: {'phi': _phi(2), 'xx': _grid()}, lambda a: dadi.Spectrum.from_phi(a['phi'], [5, 3], [a['xx'], a['xx']]))
    add('from_phi_2d_gridB', lambda: {'phi': _phi(2), 'xx': _grid(variant=1)}, lambda a: dadi.Spectrum.from_phi(a['phi'], [5, 3], [a['xx'], a['xx']]))
    add('from_phi_2d_gridC', lambda: {'phi': _phi(2), 'xx': _grid(variant=2)}, lambda a: dadi.Spectrum.from_phi(a['phi'], [5, 3], [a['xx'], a['xx']]))
    add('from_phi_3d', lambda: {'phi': _phi(3), 'xx': _grid()}, lambda a: dadi.Spectrum.from_phi(a['phi'], [3, 5, 2], [a['xx']] * 3))
    add('from_phi_4d', lambda: {'phi': _phi(4, 4), 'xx': np.array([0.0, 0.25, 0.5, 1.0])}, lambda a: dadi.Spectrum.from_phi(a['phi'], [2, 3, 2, 1], [a['xx']] * 4))
    add('from_phi_inbreeding', lambda: {'phi': _phi(1), 'xx': _grid()}, lambda a: dadi.Spectrum.from_phi_inbreeding(a['phi'], [4], [a['xx']], [0.3], [2]))
    # same number of individuals as the two symbols around them, other ploidy (the partition tables behind the convolution are memoised)
    add('from_phi_inbreeding_ploidy4_2ind', lambda: {'phi': _phi(1), 'xx': _grid()}, lambda a: dadi.Spectrum.from_phi_inbreeding(a['phi'], [8], [a['xx']], [0.3], [4]))
    add('from_phi_inbreeding_3ind', lambda: {'phi': _phi(1), 'xx': _grid()}, lambda a: dadi.Spectrum.from_phi_inbreeding(a['phi'], [6], [a['xx']], [0.3], [2]))
    add('from_phi_inbreeding_ploidy4', lambda: {'phi': _phi(1), 'xx': _grid()}, lambda a: dadi.Spectrum.from_phi_inbreeding(a['phi'], [12], [a['xx']], [0.3], [4]))
    add('lowpass_nocall', lambda: {'cov': np.array([np.arange(6.0), [0.1, 0.2, 0.3, 0.2, 0.1, 0.1]])},
        lambda a: LP.probability_of_no_call_1D_GATK_multisample(a['cov'], 6, 0.2))
    add('from_phi_inbreeding_F2', lambda: {'phi': _phi(1), 'xx': _grid()}, lambda a: dadi.Spectrum.from_phi_inbreeding(a['phi'], [4], [a['xx']], [0.6], [2]))
    add('from_data_dict_1', lambda: {'dd': _dd(1)}, lambda a: dadi.Spectrum.from_data_dict(a['dd'], ['A'], [4]))
    add('from_data_dict_2', lambda: {'dd': _dd(2)}, lambda a: dadi.Spectrum.from_data_dict(a['dd'], ['A', 'B'], [4, 3], polarized=False))
    add('lowpass_partitions', lambda: {}, lambda a: np.array(LP.partitions_and_probabilities(6, 'allele_frequency', 0.2, 3)[1], dtype=float))
    add('lowpass_projmat_F0', lambda: {}, lambda a: LP.projection_matrix(6, 4, 0))
    add('lowpass_projmat_F', lambda: {}, lambda a: LP.projection_matrix(6, 4, 0.5))
    add('ll', lambda: {'m': _fs((9,), 1), 'd': _fs((9,), 2)}, lambda a: np.array([Inference.ll(a['m'], a['d']), Inference.ll_multinom(a['m'], a['d'])]))
    add('ll_folded', lambda: {'m': _fs((5, 4), 1), 'd': _fs((5, 4), 2).fold()}, lambda a: np.array([Inference.ll_multinom(a['m'], a['d'])]))
    add('object_func', lambda: {'p': np.array([3.0, 2.0, 1.0]), 'd': fA([3.3, 1.9, 1.2], (8,), [20])},
        lambda a: np.array([Inference._object_func(a['p'], a['d'], fA, [20], store_thetas=True, multinom=True)]))
    add('optimize_grid', lambda: {'d': fA([3.3, 1.9, 1.2], (8,), [20]), 'fixed': [None, 2.0, 1.0]},
        lambda a: np.array(Inference.optimize_grid(a['d'], fA, [20], (slice(2.0, 4.1, 1.0),), fixed_params=a['fixed'], full_output=True)[0]))
    import nlopt
    add('opt_none_bounds', lambda: {'p': [3.0, 2.0, 1.0], 'd': fA([3.3, 1.9, 1.2], (8,), [20]), 'lo': [None, 0.5, 0.1], 'up': [10.0, None, 5.0], 'fixed': [None, None, 1.0]},
        lambda a: np.array(Inference.opt(a['p'], a['d'], fA, [20], lower_bound=a['lo'], upper_bound=a['up'], fixed_params=a['fixed'], multinom=False,
                                         algorithm=nlopt.LN_BOBYQA, maxeval=8)[0]))
    add('FIM_A', lambda: {'p': [3.0, 2.0, 1.0], 'd': fA([3.3, 1.9, 1.2], (8,), [20])}, lambda a: Godambe.FIM_uncert(fA, [20], a['p'], a['d'], multinom=False))
    add('FIM_A_pts40', lambda: {'p': [3.0, 2.0, 1.0], 'd': fA([3.3, 1.9, 1.2], (8,), [20])}, lambda a: Godambe.FIM_uncert(fA, [40], a['p'], a['d'], multinom=False))
    add('FIM_A_intp0', lambda: {'p': [3, 2, 1], 'd': fA([3.3, 1.9, 1.2], (8,), [20])}, lambda a: Godambe.FIM_uncert(fA, [20], a['p'], a['d'], multinom=False))

    def _dd_chroms():
        d = {}
        for c, chrom in enumerate(['chr1', 'chr_2', 'sc.3_x', 'chr10', 'X']):
            for i in range(4):
                d['%s_%d' % (chrom, 100 * (i + 1) + c)] = {'segregating': ['A', 'T'], 'calls': {'A': (3 + (i + c) % 2, 3 - (i + c) % 2)}, 'outgroup_allele': 'A',
                                                         'context': '-A-', 'outgroup_context': '-A-'}
        return d

    def _frag(a):
        import random
        frags = Misc.fragment_data_dict(a['dd'], 250)
        order = np.array([float(sum(ord(ch) for ch in sorted(fr)[0]) if fr else -1.0) + len(fr) for fr in frags])
        random.seed(11)
        boots = Misc.bootstraps_from_dd_chunks(frags, 3, ['A'], [4])
        return np.concatenate([order] + [np.asarray(b.data) for b in boots])
    add('fragment_bootstrap', lambda: {'dd': _dd_chroms()}, _frag)
    add('FIM_B', lambda: {'p': [3.0, 2.0, 1.0], 'd': fA([3.3, 1.9, 1.2], (8,), [20])}, lambda a: Godambe.FIM_uncert(fB, [20], a['p'], a['d'], multinom=False))

    def boots():
        base = np.asarray(fA([3.3, 1.9, 1.2], (8,), [20]).data)
        return [dadi.Spectrum(base * (1 + 0.1 * np.sin(np.arange(9) * (0.7 + 0.3 * b) + b))) for b in range(3)]
    add('LRT_A1', lambda: {'p': [3.0, 2.0, 1.0], 'd': fA([3.3, 1.9, 1.2], (8,), [20]), 'b': boots()},
        lambda a: np.array([Godambe.LRT_adjust(fA, [20], a['b'], a['p'], a['d'], [2], multinom=False)]))
    add('LRT_A2', lambda: {'p': [2.5, 2.6, 1.0], 'd': fA([3.3, 1.9, 1.2], (8,), [20]), 'b': boots()},
        lambda a: np.array([Godambe.LRT_adjust(fA, [20], a['b'], a['p'], a['d'], [2], multinom=False)]))
    add('perturb', lambda: {'p': np.array([1.0, 2.0, 3.0]), 'lo': [0.1, None, 0.5], 'up': [None, 10.0, 4.0]},
        lambda a: (np.random.seed(5), Misc.perturb_params(a['p'], fold=1, lower_bound=a['lo'], upper_bound=a['up']))[1])
    add('phi_1D', lambda: {'xx': _grid()}, lambda a: PM.phi_1D(a['xx'], nu=2.0, gamma=-1.0, h=0.3))
    add('one_pop', lambda: {'phi': _phi(1), 'xx': _grid()}, lambda a: I.one_pop(a['phi'], a['xx'], 0.01, nu=2.0, gamma=1.0))
    add('one_pop_T0', lambda: {'phi': _phi(1), 'xx': _grid()}, lambda a: I.one_pop(a['phi'], a['xx'], 0.0, nu=2.0))
    add('two_pops', lambda: {'phi': _phi(2), 'xx': _grid()}, lambda a: I.two_pops(a['phi'], a['xx'], 0.01, nu1=2.0, nu2=0.5, m12=1.0, m21=0.3))
    add('two_pops_t', lambda: {'phi': _phi(2), 'xx': _grid()}, lambda a: I.two_pops(a['phi'], a['xx'], 0.01, nu1=lambda t: 2.0 + t, nu2=0.5, m12=1.0))
    add('three_pops', lambda: {'phi': _phi(3), 'xx': _grid()}, lambda a: I.three_pops(a['phi'], a['xx'], 0.005, nu1=2.0, nu2=0.5, nu3=1.5, m13=1.0, m21=0.3))
    add('four_pops', lambda: {'phi': _phi(4, 4), 'xx': np.array([0.0, 0.25, 0.5, 1.0])},
        lambda a: I.four_pops(a['phi'], a['xx'], 0.005, nu1=2.0, nu2=0.5, nu3=1.5, nu4=0.8, m14=1.0, m21=0.3))
    add('two_pops_T0', lambda: {'phi': _phi(2), 'xx': _grid()}, lambda a: I.two_pops(a['phi'], a['xx'], 0.0, nu1=2.0))
    add('three_pops_T0', lambda: {'phi': _phi(3), 'xx': _grid()}, lambda a: I.three_pops(a['phi'], a['xx'], 0.0, nu1=2.0))
    add('five_pops_T0', lambda: {'phi': _phi(5, 3), 'xx': np.array([0.0, 0.5, 1.0])}, lambda a: I.five_pops(a['phi'], a['xx'], 0.0))
    add('four_pops_T0', lambda: {'phi': _phi(4, 4), 'xx': np.array([0.0, 0.25, 0.5, 1.0])}, lambda a: I.four_pops(a['phi'], a['xx'], 0.0))
    add('five_pops', lambda: {'phi': _phi(5, 3), 'xx': np.array([0.0, 0.5, 1.0])},
        lambda a: I.five_pops(a['phi'], a['xx'], 0.004, nu1=2.0, nu2=0.5, nu3=1.5, nu4=0.8, nu5=1.2, m15=1.0, m21=0.3))
    add('split_1to2', lambda: {'phi': _phi(1), 'xx': _grid()}, lambda a: PM.phi_1D_to_2D(a['xx'], a['phi']))
    add('admix_new_3d', lambda: {'phi': _phi(2), 'xx': _grid()}, lambda a: PM.phi_2D_to_3D_admix(a['phi'], 0.25, a['xx'], a['xx'], a['xx']))
    add('pulse_2d', lambda: {'phi': _phi(2), 'xx': _grid()}, lambda a: PM.phi_2D_admix_1_into_2(a['phi'], 0.25, a['xx'], a['xx']), inplace=('phi',))
    add('pulse_3d', lambda: {'phi': _phi(3), 'xx': _grid()}, lambda a: PM.phi_3D_admix_1_and_3_into_2(a['phi'], 0.25, 0.125, a['xx'], a['xx'], a['xx']), inplace=('phi',))
    # every in-place pulse function (the layout variants hand them transposed / strided densities, as reorder_pops does)
    add('pulse_2d_2into1', lambda: {'phi': _phi(2), 'xx': _grid()}, lambda a: PM.phi_2D_admix_2_into_1(a['phi'], 0.25, a['xx'], a['xx']), inplace=('phi',))
    add('pulse_3d_into1', lambda: {'phi': _phi(3), 'xx': _grid()}, lambda a: PM.phi_3D_admix_2_and_3_into_1(a['phi'], 0.25, 0.125, a['xx'], a['xx'], a['xx']), inplace=('phi',))
    add('pulse_3d_into3', lambda: {'phi': _phi(3), 'xx': _grid()}, lambda a: PM.phi_3D_admix_1_and_2_into_3(a['phi'], 0.25, 0.125, a['xx'], a['xx'], a['xx']), inplace=('phi',))
    x4 = np.array([0.0, 0.25, 0.5, 1.0])
    for dest in (1, 2, 3, 4):
        add('pulse_4d_into%d' % dest, lambda: {'phi': _phi(4, 4), 'xx': x4.copy()},
            lambda a, dest=dest: getattr(PM, 'phi_4D_admix_into_%d' % dest)(a['phi'], 0.25, 0.125, 0.0625, *([a['xx']] * 4)), inplace=('phi',))
    x5 = np.array([0.0, 0.5, 1.0])
    for dest in (1, 3, 5):
        add('pulse_5d_into%d' % dest, lambda: {'phi': _phi(5, 3), 'xx': x5.copy()},
            lambda a, dest=dest: getattr(PM, 'phi_5D_admix_into_%d' % dest)(a['phi'], 0.25, 0.125, 0.0625, 0.03125, *([a['xx']] * 5)), inplace=('phi',))
    # spectrum arithmetic with a scalar and with a plain array: a new object that shares nothing with the operand
    add('fs_times_scalar', lambda: {'fs': _fs((5, 4))}, lambda a: a['fs'] * 2.0)
    add('fs_plus_array', lambda: {'fs': _fs((5, 4)), 'arr': np.ones((5, 4))}, lambda a: a['fs'] + a['arr'])
    add('scalar_minus_fs', lambda: {'fs': _fs((5, 4))}, lambda a: 3.0 - a['fs'])
    add('remove_pop', lambda: {'phi': _phi(3), 'xx': _grid()}, lambda a: PM.remove_pop(a['phi'], a['xx'], 2))
    add('reorder_then_sample', lambda: {'phi': _phi(3), 'xx': _grid()},
        lambda a: dadi.Spectrum.from_phi(PM.reorder_pops(a['phi'], [3, 1, 2]), [2, 3, 2], [a['xx']] * 3))
    # the event record behind dadi.Demes.output(): a model starts a new record, whatever ran before it and whatever its dominance coefficient
    def _export(h):
        def call(a):
            phi = PM.phi_1D(a['xx'], nu=2.0, gamma=-1.0, h=h)
            phi = I.one_pop(phi, a['xx'], 0.05, nu=0.5, gamma=-1.0, h=h)
            g = dadi.Demes.output(Nref=100.0)
            return np.frombuffer(json.dumps(g.asdict(), sort_keys=True, default=str).encode(), dtype=np.uint8).astype(float)
        return call
    def _export_pulse(times):
        def call(a):
            phi = PM.phi_1D(a['xx'])
            phi = PM.phi_1D_to_2D(a['xx'], phi)
            phi = I.two_pops(phi, a['xx'], 0.05, nu1=0.5, nu2=2.0)
            phi = PM.phi_2D_admix_1_into_2(phi, 0.25, a['xx'], a['xx'])
            phi = I.two_pops(phi, a['xx'], 0.03, nu1=0.5, nu2=2.0)
            g = None
            for _ in range(times):
                g = dadi.Demes.output(Nref=100.0)      # asking for the graph again must not change it
            return np.frombuffer(json.dumps(g.asdict(), sort_keys=True, default=str).encode(), dtype=np.uint8).astype(float)
        return call
    add('demes_output_pulse_once', lambda: {'xx': _grid()}, _export_pulse(1))
    add('demes_output_pulse_twice', lambda: {'xx': _grid()}, _export_pulse(2))
    add('demes_output_h0.3', lambda: {'xx': _grid()}, _export(0.3))
    add('demes_output_h0.5', lambda: {'xx': _grid()}, _export(0.5))

    # depth-of-coverage distributions come back in the order the populations were asked for (they are consumed by position)
    def _cov_dd():
        d = {}
        for i in range(12):
            d['c_%d' % i] = {'coverage': {'YRI': np.array([3 + i % 3, 5, 4 + i % 2]), 'CEU': np.array([10 + i % 4, 12]), 'CHB': np.array([1 + i % 2, 2, 2])}}
        return d

    def _cov(a):
        cd = LP.compute_cov_dist(a['dd'], a['pops'])
        order = [float(a['pops'].index(k)) for k in cd]
        return np.concatenate([np.array(order)] + [np.asarray(v, dtype=float).ravel() for v in cd.values()])
    add('lowpass_cov_dist', lambda: {'dd': _cov_dd(), 'pops': ['YRI', 'CEU', 'CHB']}, _cov)
    add('lowpass_cov_dist_2', lambda: {'dd': _cov_dd(), 'pops': ['CHB', 'YRI']}, _cov)
    try:
        g = _demes_graph()
        add('demes_sfs', lambda: {'g': g}, lambda a: dadi.Spectrum.from_demes(a['g'], sampled_demes=['A', 'B'], sample_sizes=[4, 3], pts=[8]))
        add('demes_sfs_ancient', lambda: {'g': g, 'demes': ['A', 'B'], 'ns': [3, 2], 'times': [60.0, 0]},
            lambda a: dadi.Spectrum.from_demes(a['g'], sampled_demes=a['demes'], sample_sizes=a['ns'], sample_times=a['times'], pts=[8, 10]))
        add('demes_sfs_BA', lambda: {'g': g}, lambda a: dadi.Spectrum.from_demes(a['g'], sampled_demes=['B', 'A'], sample_sizes=[3, 4], pts=[8]))
    except Exception:
        pass
    return S


QUICK_SYMS = ['lowpass_cov_dist', 'lowpass_cov_dist_2', 'demes_output_h0.3', 'from_phi_inbreeding_ploidy4', 'from_phi_inbreeding_ploidy4_2ind', 'from_phi_inbreeding_3ind', 'lowpass_nocall', 'fragment_bootstrap', 'FIM_A_pts40', 'project_1d', 'project_2d', 'from_phi_1d', 'from_phi_2d', 'from_phi_2d_gridB', 'from_phi_inbreeding', 'from_data_dict_1', 'lowpass_projmat_F0',
              'lowpass_projmat_F', 'LRT_A1', 'LRT_A2', 'FIM_A', 'object_func', 'optimize_grid', 'two_pops']
BLAS = {'demes_sfs_ancient', 'from_phi_2d', 'from_phi_2d_gridB', 'from_phi_2d_gridC', 'from_phi_3d', 'from_phi_4d', 'reorder_then_sample', 'demes_sfs', 'demes_sfs_BA'}


def canon_result(r):
    """result -> (data array, mask array or None, attrs)"""
    import dadi
    if isinstance(r, np.ma.MaskedArray):
        attrs = (bool(getattr(r, 'folded', False)), tuple(getattr(r, 'pop_ids', None) or ()))
        return np.array(r.data, dtype=float, copy=True), np.ma.getmaskarray(r).copy(), attrs
    return np.array(r, dtype=float, copy=True), None, None


def same_result(name, a, b):
    da, ma, aa = a
    db, mb, ab = b
    if da.shape != db.shape or aa != ab:
        return False
    if (ma is None) != (mb is None) or (ma is not None and not np.array_equal(ma, mb)):
        return False
    if name in BLAS:
        return bool(np.allclose(da, db, rtol=1e-15 * 8, atol=1e-300, equal_nan=True))
    return bool(np.array_equal(da, db, equal_nan=True))


def deep_snapshot(args):
    snap = {}
    for k, v in args.items():
        if isinstance(v, np.ma.MaskedArray):
            snap[k] = ('ma', np.array(v.data, copy=True), np.ma.getmaskarray(v).copy(), getattr(v, 'folded', None), copy.copy(getattr(v, 'pop_ids', None)))
        elif isinstance(v, np.ndarray):
            snap[k] = ('nd', v.copy())
        else:
            try:
                snap[k] = ('py', copy.deepcopy(v))
            except Exception:
                snap[k] = ('skip', None)
    return snap


def unchanged(snap, args):
    bad = []
    for k, s in snap.items():
        v = args[k]
        if s[0] == 'ma':
            if not (np.array_equal(s[1], np.asarray(v.data), equal_nan=True) and np.array_equal(s[2], np.ma.getmaskarray(v)) and s[3] == getattr(v, 'folded', None)
                    and s[4] == getattr(v, 'pop_ids', None)):
                bad.append(k)
        elif s[0] == 'nd':
            if not np.array_equal(s[1], v, equal_nan=True):
                bad.append(k)
        elif s[0] == 'py':
            try:
                same = _py_equal(s[1], v)
            except Exception:
                same = True
            if not same:
                bad.append(k)
    return bad


def _py_equal(a, b):
    if isinstance(a, np.ma.MaskedArray):
        return np.array_equal(np.asarray(a.data), np.asarray(b.data), equal_nan=True) and np.array_equal(np.ma.getmaskarray(a), np.ma.getmaskarray(b))
    if isinstance(a, np.ndarray):
        return np.array_equal(a, b, equal_nan=True)
    if isinstance(a, (list, tuple)):
        return len(a) == len(b) and all(_py_equal(x, y) for x, y in zip(a, b))
    if isinstance(a, dict):
        return a.keys() == b.keys() and all(_py_equal(a[k], b[k]) for k in a)
    if hasattr(a, '__dict__') and not callable(a):
        return True
    return a == b or (a != a and b != b)


def aliases(result, args, inplace):
    r = result.data if isinstance(result, np.ma.MaskedArray) else result
    if not isinstance(r, np.ndarray):
        return []
    out = []
    for k, v in args.items():
        if k in inplace:
            continue
        base = v.data if isinstance(v, np.ma.MaskedArray) else v
        if isinstance(base, np.ndarray) and base.size and np.shares_memory(r, base):
            out.append(k)
        elif isinstance(result, np.ma.MaskedArray) and isinstance(v, np.ma.MaskedArray):
            # the mask buffers too: a later in-place mask change on the result must not reach the argument
            mr, mv = np.ma.getmask(result), np.ma.getmask(v)
            if mr is not np.ma.nomask and mv is not np.ma.nomask and np.shares_memory(mr, mv):
                out.append(k + '.mask')
    return out


def run_symbol(name, S):
    factory, call, inplace = S[name]
    args = factory()
    snap = deep_snapshot(args)
    res = call(args)
    return res, args, snap, inplace


# ------------------------------------------------------------------------------------------------ exploration
def fresh_table(S, names, MS, col=None, p=None):
    table = {}
    for nm in list(names):
        MS.clear()
        try:
            res, args, snap, inplace = run_symbol(nm, S)
        except Exception as e:
            if col is None:
                raise
            # a symbol that fails with no history at all: reported as such, and left out of the exploration
            col.violation('C20:%s:raises' % nm, dict(p or {}, symbol=nm), '%s: %s' % (type(e).__name__, str(e)[:300]))
            names.remove(nm)
            continue
        table[nm] = canon_result(res)
    MS.clear()
    return table


def case_bfs(col, p):
    """BFS over call sequences starting with symbol p['first'], merging by module-state hash, to closure or cap"""
    from mc.state import ModuleState
    import collections
    S = symbols()
    names = [n for n in p['alphabet'] if n in S]
    MS = ModuleState()
    fresh = fresh_table(S, names, MS, col, p)
    if any(nm not in fresh for nm in p['first']):
        return
    cap = p['cap']
    MS.clear()
    seen = {}
    frontier = collections.deque()
    # initial transition
    start_seq = tuple(p['first'])
    ok = True
    for nm in start_seq:
        ok = do_transition(col, p, S, nm, fresh, (), MS) and ok
    k0 = MS.key()
    seen[k0] = start_seq
    frontier.append((MS.snapshot(), start_seq))
    ntrans = len(start_seq)
    capped = False
    maxdepth = len(start_seq)
    while frontier:
        snap, seq = frontier.popleft()
        maxdepth = max(maxdepth, len(seq))
        if p.get('max_depth') and len(seq) >= p['max_depth']:
            continue
        for nm in names:
            MS.restore(snap)
            do_transition(col, p, S, nm, fresh, seq, MS)
            ntrans += 1
            k = MS.key()
            if k not in seen:
                if len(seen) >= cap:
                    capped = True
                    continue
                seen[k] = seq + (nm,)
                frontier.append((MS.snapshot(), seq + (nm,)))
    MS.clear()
    col.tick(states=len(seen), transitions=ntrans, traces=len(seen))
    if capped:
        col.tick(state_cap_hits=1)
    col.observe('bfs_max_depth', maxdepth)
    col.distinct('nontrivial', ('bfs', tuple(p['first']), len(names), cap))


def do_transition(col, p, S, nm, fresh, seq, MS):
    try:
        res, args, snap, inplace = run_symbol(nm, S)
    except Exception as e:
        col.violation('C20:%s:raises_after_history' % nm, dict(p, seq=list(seq) + [nm]), '%s: %s' % (type(e).__name__, str(e)[:200]))
        return False
    ok = True
    if not same_result(nm, canon_result(res), fresh[nm]):
        a, b = canon_result(res)[0], fresh[nm][0]
        diff = float(np.nanmax(np.abs(a - b))) if a.shape == b.shape and a.size else 'shape'
        col.violation('C20:%s:result_depends_on_history' % nm, dict(p, seq=list(seq) + [nm]), {'maxdiff': diff})
        ok = False
    bad = [k for k in unchanged(snap, args) if k not in inplace]
    if bad:
        col.violation('C20:%s:argument_modified' % nm, dict(p, seq=list(seq) + [nm]), {'arguments': bad})
        ok = False
    al = aliases(res, args, inplace)
    if al:
        col.violation('C20:%s:result_aliases_argument' % nm, dict(p, seq=list(seq) + [nm]), {'arguments': al})
        ok = False
    return ok


def layout_variants(v):
    """name -> array with the same values in another memory layout"""
    out = {}
    base = np.array(v.data if isinstance(v, np.ma.MaskedArray) else v, dtype=float, copy=True)
    out['C'] = np.ascontiguousarray(base)
    if base.ndim >= 2:
        out['F'] = np.asfortranarray(base)
        out['T'] = np.ascontiguousarray(base.T).T
    big = np.zeros(tuple(2 * s for s in base.shape))
    sl = tuple(slice(None, None, 2) for _ in base.shape)
    big[sl] = base
    out['strided'] = big[sl]
    rev = np.ascontiguousarray(base[tuple(slice(None, None, -1) for _ in base.shape)])
    out['reversed'] = rev[tuple(slice(None, None, -1) for _ in base.shape)]
    ro = np.ascontiguousarray(base).copy()
    ro.flags.writeable = False
    out['readonly'] = ro
    return out


def case_layout(col, p):
    import dadi
    from mc.state import ModuleState
    S = symbols()
    MS = ModuleState()
    nm = p['symbol']
    factory, call, inplace = S[nm]
    MS.clear()
    ref = canon_result(call(factory()))
    n = 0
    args0 = factory()
    for k, v in args0.items():
        if not isinstance(v, np.ndarray):
            continue
        for lname, arr in layout_variants(v).items():
            if lname == 'readonly' and k in inplace:
                continue
            args = factory()
            if isinstance(v, np.ma.MaskedArray):
                mvars = layout_variants(np.ma.getmaskarray(v).astype(float))
                newv = dadi.Spectrum(arr, mask=mvars[lname].astype(bool), mask_corners=False, data_folded=bool(v.folded), check_folding=False,
                                     pop_ids=v.pop_ids, copy=False)
                if lname == 'readonly':
                    continue       # a read-only Spectrum cannot even be constructed consistently; skip
            else:
                newv = arr
            args[k] = newv
            before = np.array(newv.data if isinstance(newv, np.ma.MaskedArray) else newv, copy=True)
            MS.clear()
            info = dict(p, argument=k, layout=lname)
            try:
                res = call(args)
            except Exception as e:
                col.violation('C20:%s:layout:%s:raises' % (nm, lname), info, '%s: %s' % (type(e).__name__, str(e)[:200]))
                continue
            col.tick(transitions=1)
            n += 1
            got = canon_result(res)
            if got[0].shape != ref[0].shape or not np.allclose(got[0], ref[0], rtol=1e-12, atol=1e-300, equal_nan=True) or \
                    ((got[1] is None) != (ref[1] is None)) or (got[1] is not None and not np.array_equal(got[1], ref[1])):
                md = float(np.nanmax(np.abs(got[0] - ref[0]))) if got[0].shape == ref[0].shape else 'shape'
                col.violation('C20:%s:layout:%s:different_result' % (nm, 'noncontiguous' if lname != 'readonly' else 'readonly'), info, {'maxdiff': md})
            after = np.array(newv.data if isinstance(newv, np.ma.MaskedArray) else newv)
            if k not in inplace and not np.array_equal(before, after, equal_nan=True):
                col.violation('C20:%s:layout:argument_modified' % nm, info, '')
    # parameter vectors given as a list may just as well be given as a float array (what the optimisers return): same value, array untouched
    for k, v in args0.items():
        if not (isinstance(v, (list, tuple)) and v and all(isinstance(x, (int, float)) and not isinstance(x, bool) for x in v)) or k in ('ns', 'times'):
            continue          # (sample sizes and sample times are documented as lists)
        args = factory()
        newv = np.array(v, dtype=float)
        args[k] = newv
        before = newv.copy()
        MS.clear()
        info = dict(p, argument=k, layout='float_array_instead_of_list')
        try:
            res = call(args)
        except Exception as e:
            col.violation('C20:%s:layout:float_array:raises' % nm, info, '%s: %s' % (type(e).__name__, str(e)[:200]))
            continue
        col.tick(transitions=1)
        n += 1
        got = canon_result(res)
        if got[0].shape != ref[0].shape or not np.allclose(got[0], ref[0], rtol=1e-12, atol=1e-300, equal_nan=True):
            col.violation('C20:%s:layout:float_array:different_result' % nm, info, '')
        if k not in inplace and not np.array_equal(before, newv, equal_nan=True):
            col.violation('C20:%s:layout:argument_modified' % nm, info, {'before': before, 'after': np.array(newv)})
    MS.clear()
    col.tick(states=n, traces=n)
    col.distinct('nontrivial', ('layout', nm))


def probe_digest(names):
    """(run in a subprocess under a given PYTHONHASHSEED) digests of every fresh value and every length-2 sequence's second value"""
    from mc.state import ModuleState
    S = symbols()
    MS = ModuleState()
    names = [n for n in names if n in S]
    out = {}

    def dig(r):
        d, m, a = canon_result(r)
        # 10 significant digits for BLAS-backed symbols, exact bytes otherwise
        return hashlib.sha1(np.ascontiguousarray(d).tobytes() + (m.tobytes() if m is not None else b'') + repr(a).encode()).hexdigest()[:16]
    for nm in names:
        MS.clear()
        out[nm] = dig(run_symbol(nm, S)[0]) if nm not in BLAS else 'blas'
    for a, b in itertools.product(names, repeat=2):
        MS.clear()
        run_symbol(a, S)
        r = run_symbol(b, S)[0]
        out[a + '>' + b] = dig(r) if b not in BLAS else 'blas'
    MS.clear()
    return out


def case_hashseed(col, p):
    names = p['alphabet']
    env = dict(os.environ)
    results = {}
    for hs in p['seeds']:
        env['PYTHONHASHSEED'] = str(hs)
        env['DADI_REPO'] = os.environ.get('DADI_REPO', '/repo')
        code = ("import sys, json, warnings; warnings.simplefilter('ignore'); sys.path.insert(0, %r); from mc import build; build.import_dadi(); "
                "import logging; logging.disable(logging.CRITICAL); import numpy; numpy.seterr(all='ignore'); import checks.C20 as C; "
                "print('DIGEST' + json.dumps(C.probe_digest(%r)))" % (VERIF, names))
        pr = subprocess.run([sys.executable, '-W', 'ignore', '-c', code], env=env, cwd=VERIF, stdout=subprocess.PIPE, stderr=subprocess.PIPE, timeout=3000)
        line = [l for l in pr.stdout.decode().splitlines() if l.startswith('DIGEST')]
        if not line:
            col.violation('harness:C20:hashseed_subprocess', dict(p, seed=hs), pr.stderr.decode()[-500:])
            continue
        results[hs] = json.loads(line[0][6:])
        col.tick(transitions=len(results[hs]))
    seeds = sorted(results)
    if seeds:
        base = results[seeds[0]]
        for hs in seeds[1:]:
            for k in base:
                if results[hs].get(k) != base[k]:
                    sym = k.split('>')[-1]
                    col.violation('C20:%s:depends_on_hash_seed' % sym, dict(p, key=k, seed_a=seeds[0], seed_b=hs), '')
        # fresh-interpreter validation: in-subprocess fresh values vs values after any one other call (already in the digests): a>b == b
        for k, v in base.items():
            if '>' in k:
                b = k.split('>')[1]
                if base.get(b) != v:
                    col.violation('C20:%s:result_depends_on_history' % b, dict(p, seq=k.split('>'), where='fresh interpreter, PYTHONHASHSEED=%s' % seeds[0]), '')
    col.tick(states=len(seeds), traces=len(seeds))
    col.distinct('nontrivial', ('hashseed', tuple(p['seeds'])))


EQUAL_SYMS = [('demes_output_pulse_once', 'demes_output_pulse_twice'), ('demes_sfs', 'demes_sfs')]


def case_equalities(col, p):
    """pairs of symbols that differ only in repeating a read-only call: their history-free values coincide"""
    from mc.state import ModuleState
    S = symbols()
    MS = ModuleState()
    n = 0
    for a, b in EQUAL_SYMS:
        if a not in S or b not in S:
            continue
        try:
            MS.clear()
            ra = canon_result(run_symbol(a, S)[0])
            MS.clear()
            rb = canon_result(run_symbol(b, S)[0])
        except Exception as e:
            col.violation('C20:%s:repeating_a_read_only_call_changes_the_result' % b, dict(p, pair=[a, b]), '%s: %s' % (type(e).__name__, str(e)[:300]))
            continue
        col.tick(transitions=2)
        n += 1
        if not same_result(b, ra, rb):
            col.violation('C20:%s:repeating_a_read_only_call_changes_the_result' % b, dict(p, pair=[a, b]), '')
    MS.clear()
    col.tick(states=n, traces=n)
    col.distinct('nontrivial', ('equalities',))


CASES = {'bfs': case_bfs, 'layout': case_layout, 'hashseed': case_hashseed, 'equalities': case_equalities}


def _dispatch(col, case):
    CASES[case['kind']](col, case)


def replay(ctx, case):
    if case.get('kind') == 'bfs' and 'seq' in case:
        # replay exactly the failing sequence
        case = dict(case, first=case['seq'][:-1] if len(case['seq']) > 1 else case['seq'], max_depth=len(case['seq']), cap=10 ** 6)
    _dispatch(ctx, case)


def run(ctx):
    S = symbols()
    allnames = list(S)
    cases = []
    # closure BFS over the symbols that own a memo table or a module-level record (the others leave the module state as it is, so they add
    # no states); the thorough tier raises the state cap and adds depth 3 over the FULL alphabet from those symbols (below)
    alpha = [n for n in QUICK_SYMS if n in S]
    cap = 600 if ctx.quick else 1500
    # one BFS per first symbol (workers explore the sub-graphs reachable after that first call; states are merged within a worker)
    for nm in alpha:
        cases.append({'kind': 'bfs', 'first': [nm], 'alphabet': alpha, 'cap': cap})
    # every pair over the FULL alphabet as a depth-2 exploration (quick) / depth 3 from a rotating start (thorough)
    # (thorough: depth 3 over the full alphabet from the symbols that own a memo table or module-level record, depth 2 from the others)
    stateful = set(QUICK_SYMS)
    for nm in allnames:
        cases.append({'kind': 'bfs', 'first': [nm], 'alphabet': allnames, 'cap': 10 ** 6, 'max_depth': 2 if (ctx.quick or nm not in stateful) else 3})
    for nm in allnames:
        cases.append({'kind': 'layout', 'symbol': nm})
    cases.append({'kind': 'equalities'})
    seeds = sorted(set([0, 1, 2, 3, ctx.seed])) if ctx.quick else sorted(set(list(range(8)) + [ctx.seed]))
    cases.append({'kind': 'hashseed', 'alphabet': alpha, 'seeds': seeds})
    ctx.note('alphabet: %d symbols (closure BFS over %d of them with state cap %d per first symbol; depth-2 exploration over all%s)' %
             (len(allnames), len(alpha), cap, '' if ctx.quick else ', depth 3 from the %d stateful ones' % len(stateful)))
    explore.pmap(ctx, _dispatch, cases, chunk=1)
    if ctx.counters.get('state_cap_hits'):
        ctx.cap_hit('state cap %d reached in %d of the per-first-symbol closures; all call sequences of length <= 2 over the full alphabet were '
                    'explored completely%s' % (cap, ctx.counters['state_cap_hits'], '' if ctx.quick else ' (length 3 when the first call is a stateful symbol)'))
    ctx.tick(evaluations=len(cases))
    for c in (cases[0], cases[len(alpha) + 3], cases[-2]):
        cc = dict(c)
        cc['alphabet'] = cc.get('alphabet', [])[:6]
        ctx.sample(cc)
    ctx.sample({'example_sequence': ['from_data_dict_1', 'project_1d', 'lowpass_projmat_F0']})
    ctx.rule = ('explicit-state BFS over module state (memo tables hashed by key and value) with one transition per (state, symbol); every transition '
                'compared with the fresh-state value, argument snapshots and aliasing; layouts per array argument; hash seeds in subprocesses. '
                'distinct_nontrivial = distinct explorations (first symbol / layout symbol / seed set)')
    ctx.assume('BLAS-backed results (multi-D from_phi) are compared at 8 ulp, all others bitwise')
    ctx.assume('"all PYTHONHASHSEED values" is not enumerable: %d seeds are compared' % len(seeds))
