"""Finite alphabets shared by the checks: grids, simplex lattices, subsets."""
import itertools
from fractions import Fraction

import numpy as np


def grid(kind, G, seed=0):
    """U uniform; E dadi default (exponential); D dyadic irregular (k/64, seed-rotated); Q quadratic; all with exact end points 0 and 1"""
    import dadi
    if kind == 'U':
        return np.linspace(0.0, 1.0, G)
    if kind == 'E':
        return np.asarray(dadi.Numerics.default_grid(G), dtype=float)
    if kind == 'Q':
        g = np.asarray(dadi.Numerics.quadratic_grid(G), dtype=float)
        return g
    if kind == 'D':
        rng = np.random.RandomState(1234 + 17 * seed + G)
        while True:
            inner = sorted(set(int(v) for v in rng.randint(1, 64, size=G - 2)))
            if len(inner) == G - 2:
                break
        return np.array([0.0] + [k / 64.0 for k in inner] + [1.0])
    if kind == 'N':
        # what every fine default grid looks like at its ends: first / last interior point within 1e-6 of the end point
        g = grid('D', G, seed)
        g[1], g[-2] = 2.0 ** -20, 1.0 - 2.0 ** -20
        return g
    if kind == 'D2':
        rng = np.random.RandomState(4321 + 31 * seed + G)
        while True:
            inner = sorted(set(int(v) for v in rng.randint(1, 128, size=G - 2)))
            if len(inner) == G - 2:
                break
        return np.array([0.0] + [k / 128.0 for k in inner] + [1.0])
    raise KeyError(kind)


def grids_for_axes(d, G, seed=0, rot=0):
    """a different grid (same length) on every axis, so that an xx/yy mix-up is visible"""
    kinds = ['D', 'E', 'U', 'D2', 'E2']
    out = []
    for k in range(d):
        kind = kinds[(k + rot) % len(kinds)]
        if kind == 'E2':
            import dadi
            out.append(np.asarray(dadi.Numerics.exponential_grid(G, crwd=3.0), dtype=float))
        else:
            out.append(grid(kind, G, seed + k))
    return out


def simplex(k, step):
    """all vectors of k non-negative multiples of 1/step summing to <= 1 (as Fractions)"""
    out = []
    for combo in itertools.product(range(step + 1), repeat=k):
        if sum(combo) <= step:
            out.append(tuple(Fraction(c, step) for c in combo))
    return out


def subsets(items, min_size=0, max_size=None):
    items = list(items)
    max_size = len(items) if max_size is None else max_size
    for k in range(min_size, max_size + 1):
        for c in itertools.combinations(items, k):
            yield c
