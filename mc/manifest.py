"""Generate /verif/MANIFEST.json from the table below (python3 -m mc.manifest) and validate it."""
import json
import os
import subprocess
import sys

VERIF = os.path.dirname(os.path.dirname(os.path.abspath(__file__)))

ALL = ['C%02d' % i for i in range(1, 21)]

# id -> (category, technique, text, level_note, design_ref)
CHECKS = {
    'C01': ('model_checking',
            'exhaustive enumeration of all piecewise-constant size histories over a (nu,T) lattice up to an epoch bound x sample sizes x passing modes x extrapolation modes x grid-list lengths on a refinement ladder, against an exact-arithmetic coalescent reference; exhaustive (gamma,h,nu,beta,theta0) lattice straddling every regime switch for the equilibrium density',
            'Every history of k epochs over nu in {0.05,1,20} x T in {0.005,0.3,3} (quick k<=2, thorough k<=3 plus 4-epoch alternations) is '
            'integrated by the real one-population integrator at three rungs of a (grid, time-step) ladder, n in {2,12,30}, parameters as constants '
            'and as functions of time, linear and log extrapolation, grid lists of 2-6 sizes in any order, and compared entry by entry with the '
            'exact coalescent expectation (Tavare lineage-count distribution in Fractions / 80-digit Decimals). Verdicts: within 1.5% at a tenth of '
            'the default step on the finer grid; error ratio 3..40 per tenfold step refinement where the step error dominates; constant and '
            'function passing agree to 1e-9; two_epoch / three_epoch / growth / bottlegrowth_1d wrappers agree with the raw integrator or a '
            '400-piece exact approximation. phi_1D on the full lattice: finite, non-negative, continuous across gamma=0, |gamma|=300, the Qadjust '
            'guard and h=0.5; its spectrum converges under grid doubling to an independently integrated closed form (DemogSelModels.equil too); '
            'further integration under the same nu, gamma, h leaves it unchanged up to an error that contracts under refinement.',
            'The 1.5% clause is read at the top of the ladder (a tenth of the default step, grids 2x the coarse ones). Two classes of histories '
            '(400-fold expansion 0.3-0.6 time units before sampling) exceed 1.5% and are recorded known findings. Added after the seeded waves: every history also in absolute time (initial_t..T); strong exponential declines inside one call; 1-D selection wrappers at constant size; call histories of phi_1D over (nu, beta); the shared equilibrium density must come back unchanged.',
            'DESIGN.md §3 C01'),
    'C02': ('model_checking',
            'operator extraction by basis exhaustion (all unit densities) for every kernel x grid tuple x parameter lattice, against the documented scheme coded twice in exact Fractions (assembly form and flux form)',
            'For each of the 15 per-axis kernels, the 5 precomputed-coefficient kernels and the tridiagonal solver the complete N x N one-sweep '
            'operator is extracted from the compiled code by applying it to every unit density, and compared entry by entry (1e-10 of the largest '
            'entry) with the exact rational solution of the documented scheme; the two reference codings must agree exactly first. Drivers '
            'one_pop..five_pops are run for T <= one time step with parameters passed as constants and as functions of time (all, one size, theta0 '
            'only) and compared with each other (1e-12) and with inject -> sweep -> ... of the reference, for the zero density and every unit density.',
            'Added after the seeded waves: every kernel and precalc kernel also on densities with a different number of grid points per axis (the '
            'wrapper loop ranges were wrong for those and were repaired, a6b8f25; the generated wrapper C follows the .pyx extents through '
            'mc/pyxsync.py because Cython is not available); drivers over several steps with every parameter family changing in time against the '
            'exact one-step operator applied step by step. Lines on which elimination without pivoting has a (near-)zero pivot get a proportionally wider tolerance '
            'and are counted in evidence. delj-on references are float (exp); quick tier thins the parameter lattice (cap reported). Waves 10-12: drivers on transposed views, frozen patterns through both drivers, epochs in absolute time, a breeding ratio changing in time.',
            'DESIGN.md §3 C02'),
    'C03': ('model_checking',
            'exhaustive enumeration of all programs of a dadi-program grammar up to a length bound, each executed at 7 reference-size factors with every intermediate density compared; superposition on every integration op x unit density',
            'Every well-formed sequence of public density-level calls (equilibrium with and without selection, constant / exponential / linear '
            'size integration with migration, selection, frozen populations, splits, admixture, pulses, removal, reordering, sampling) up to the '
            'length bound is run on the real library at c in {1/16,1/2,2,16} (tolerance 1e-12: same floating-point operations up to exact scaling) '
            'and {0.05,3,20} (1e-9) with sizes and times multiplied and rates, selection and theta0 divided by c; every intermediate density and '
            'the spectrum must be unchanged. Superposition in (phi, theta0) is checked on every integration op of the alphabet, every frozen and '
            'nomut pattern, for every unit density against a dense one, 4 coefficient pairs x 9 theta pairs.',
            'Program alphabet is finite (mc/programs.py): 4 equilibria, 4-5 integration ops per dimension, one proportion vector per admixture op; '
            'quick tier bounds program length at 3 (1-3 populations) / 2 (4-5 populations), thorough 4 / 3. Added after the seeded waves: the equilibrium density over the whole stated (gamma, h, nu) domain and on interior grids at every factor, proportional to theta0 entry by entry; the caller\'s density is passed as it is and compared afterwards; Fortran-ordered densities; long epochs at magnitudes 1e-8. Waves 7-12: density manipulations are linear maps (signed and tiny coefficients); the X-chromosome integrator and equilibrium; the enumeration repeated with use_delj_trick on (binary factors only); zero-length and 8e-9 epochs.',
            'DESIGN.md §3 C03'),
    'C04': ('model_checking',
            'exhaustive enumeration of frozen/nomut patterns x subsets of populations x parameter lattice x driver kind, each on every unit density, with a kernel-level replay of the driver loop and exact conservation identities as oracle',
            'For 2-5 populations every frozen pattern (2^d), nomut pattern (2-D), size/selection/migration/step-count combination and both driver '
            'kinds is run on every unit density (plus zero and a dense density). On each run: the marginal of every frozen population is unchanged at '
            'interior frequencies; the result equals an independent replay of the documented loop through the real kernels; total mass changes by '
            'exactly influx minus the two corner outflows (no other term); frozen/nomut populations get no influx. For every non-empty proper subset '
            'S the S-marginal of the joint run equals integrating the S-marginal alone (m=0, gamma=0). Every frozen-with-migration placement is '
            'rejected and every other accepted.',
            'One grid for all axes (driver API); the full lattice runs with the delj switch off (a reduced lattice with it on, see below); isolated-marginal clause asserted where all S '
            'frequencies are interior; quick tier covers a third of the parameter product per frozen pattern on an asymmetric grid (cap reported). Added after the seeded waves: every frozen pattern again with the delj switch on, with Fortran-ordered / strided densities and a strided grid, with sizes that change during the integration (replayed with the per-step rule), and with each migration rate in turn limiting the step. Seventh/eighth wave: influx changing in time, grids with interior points within 1e-6 of the ends, remove_pop/filter_pops equal the trapezoid marginal.',
            'DESIGN.md §3 C04'),
    'C05': ('model_checking',
            'operator extraction on every unit density for each sampling path x sample sizes x grids, against exact Fraction integrals of binomial probabilities times piecewise-linear basis functions and exact trapezoid sums',
            'For the semi-analytic path (1-5 D, n=1..40 in 1-D, {1,2,5,40}^2, {1,2,5}^3, {1,2,3}^4,5), the direct path with and without '
            'heterozygote ascertainment (1-4 D, different grids per axis), admix_props (identity and every row-stochastic matrix on the '
            'step-1/4 lattice) and the inbreeding path (F x ploidy lattice, 1-3 D) the sampling operator is extracted from the real from_phi '
            'by applying it to every unit density and compared with the exact rational operator; totals equal the trapezoid mass, '
            'sample-then-project equals sample, marginalise-before equals marginalise-after, and sampling probabilities sum to one, on every unit '
            'density; grids overshooting [0,1] by 1e-16 included.',
            'Sum-to-one tolerance for inbreeding is conditioning-aware (betaln cancellation grows like eps/F, measured); multi-D semi-analytic '
            'paths require one grid for all axes; 5-D has only the semi-analytic path and inbreeding only 1-3 D in the implementation. Waves 9-11: ascertainment under inbreeding against the weighted density; negative densities through the direct paths.',
            'DESIGN.md §3 C05'),
    'C06': ('model_checking',
            'explicit-state BFS from every unit density over split/admix/pulse/remove/filter/reorder with proportions on simplex lattices, stepping an exact Fraction density alongside the real PhiManip call',
            'From every unit density of 1-5 dimensional arrays a breadth-first search applies every constructor, each of the 17 in-place pulse '
            'functions, removal, filtering and reordering with all proportion vectors of the step-1/4 (dyadic, frequencies land on grid points) '
            'and step-1/10 lattices; every transition calls the real function and is compared with the exact rational density, and the '
            'conservation invariants (new population integrates out to the previous density, pulse leaves the others unchanged, identity at 0, '
            'pure split is a diagonal copy, input untouched) are evaluated on each. Acceptance of every simplex vector and rejection of every '
            'vector summing to 1+delta is enumerated for every function; memory layouts for remove/reorder.',
            'Same grid on every axis (the API takes one xx); phi_1D_to_2D conserves interior points only, as documented; quick tier bounds depth '
            '(2 from 1-D/2-D, 1 from 3-D..5-D) and uses the step-1/2 lattice for 3-4 source pulses in 4-D/5-D (cap reported). Added after the seeded waves: a different grid, and a different number of grid points, on every axis for every pulse / constructor / removal; all of them on non-contiguous densities. Wave 12: every accepted proportion vector gives a finite density.',
            'DESIGN.md §3 C06'),
    'C07': ('model_checking',
            'exhaustive enumeration of (k, all k! grid orderings, degree basis, mode, result type, call style) against an exact Fraction Lagrange oracle',
            'Every configuration of the bounded space (k=1..7 grid sizes, every ordering, every monomial degree <k plus a full-degree '
            'polynomial, linear/log, ndarray/Spectrum, positional/keyword, explicit/attribute x lists, both sides of both fallback thresholds) '
            'is executed on the real make_extrap_func and compared with the exact rational Lagrange value; linearity in y makes the monomial '
            'basis decide all polynomial dependences of that shape.',
            'Trusts CPython Fractions and the reading of "exact for polynomial dependence" as Lagrange extrapolation to x=0; grid sizes are '
            'taken from {40..100}; quick tier thins k=6 orderings to 122/720 (reported as a cap), thorough enumerates all. Seventh/eighth wave: sign changes and the wrapper threshold in the fallback lattice; x values of order 1e-9; memoising models over call sequences.',
            'DESIGN.md §3 C07'),
    'C08': ('model_checking',
            'exhaustive enumeration of all (n,m,h,j) weights and operator extraction on unit spectra / singleton masks + explicit-state BFS over project/fold/unfold, against integer-binomial reference',
            'All hypergeometric weights for n<=40 (and an m lattice up to n=200) are compared with exact integer binomials, in two query '
            'orders and after cache clears; Spectrum.project is extracted as a linear operator on every unit spectrum and every singleton '
            'mask for shapes up to 4-D and every target vector; a BFS over project/fold/unfold merges states by exact reference value and '
            'compares the implementation along every path into a merged state (two-stage = one-stage, axis order, folded projection).',
            'Linearity / OR-homomorphy are re-checked on pairs; 41<=n<=200 only on the m lattice {1,2,n/2,n-1,n}; 4-D shapes limited to '
            '(2,3,2,3),(3,2,5,2); relative tolerance 1e-12 (n<=40) / 1e-10 per weight. Waves 9-11: signed spectra; in-place changes between two projections; data dictionaries with corners kept; upward projection has no weight; low-pass subsampling under every answer, mirror symmetry of its matrix.',
            'DESIGN.md §3 C08'),
    'C09': ('model_checking',
            'operator extraction on every unit array / singleton and pair mask for all shapes {1,2,3}^d (d<=5) + BFS over fold/unfold/mirror + full operator x operand x folding product, against an explicit re-indexing reference',
            'fold, unfold and misidentification are decided on a complete basis (unit data, singleton masks, mask pairs) for every shape of '
            'the bounded family, including odd/even totals; every arithmetic operator (binary, reflected, in-place) is run against every '
            'operand kind and folding combination; fold.unfold.fold, mirror invariance and likelihood auto-folding are checked on every member.',
            "Follows dadi's convention that corners are always masked (fold/unfold re-mask them); quick tier restricts 4-D/5-D shapes to "
            'non-decreasing size tuples; mirrored folded spectra are followed for data only. Seventh/eighth wave: spectra with unmasked corners through log/copy/ll/fold; unfolding folded spectra not produced by fold() (asymmetric ambiguous pairs, each entry masked in turn).',
            'DESIGN.md §3 C09'),
    'C10': ('model_checking',
            'operator extraction on unit spectra x every subset / permutation / merge set (+orderings) of populations + BFS with project/fold for commutation, against explicit Fraction re-indexing',
            'marginalize, filter_pops, reorder_pops, combine_pops (every ordering of the merge set), combine_two_pops, Misc.combine_pops and '
            'scramble_pop_ids are run on a complete basis of unit spectra for shapes of 2-6 populations with unequal sample sizes, labelled and '
            'unlabelled, folded and unfolded, and compared entry by entry (data, mask, labels, folded flag, totals, input untouched) with a '
            'reference that re-indexes every entry; a BFS of depth 2-3 adds project and fold and compares the implementation along commuting paths.',
            'Only corner masks (interior masks are documented as ill-defined for marginalisation); quick tier thins the unit basis in 5-D/6-D '
            '(reported as a cap; thorough is complete); 6-D permutations thinned to 31 of 720. Waves 7-12: folded scrambling against unfold-scramble-fold; more than 1000 pooled chromosomes; labels out of alphabetical order; axes counted from the end.',
            'DESIGN.md §3 C10'),
    'C11': ('model_checking',
            'exhaustive enumeration of all mask-pattern pairs and value-alphabet assignments against a direct lgamma loop',
            'Every pair of (model mask, data mask) patterns on 5-6 free entries of three shapes (1-3 D), folded and unfolded data, and every '
            'assignment of the data/model value alphabets to three entries are evaluated with ll, ll_per_bin, ll_multinom, optimal_sfs_scaling, '
            'optimally_scaled_sfs and both residuals, and compared with a direct loop; maximality over rescaling, scale invariance and Gibbs '
            'optimality of model=c*data are checked on every member.',
            'model==0 with data>0 (documented as ignored with a warning) is outside the space; spectra follow the corner-masked convention; '
            'tolerance 1e-11 relative to the magnitude of the terms. Waves 7-11: one argument a plain array; unmasked corners; in-place changes of the model between evaluations; pre-scaled models; non-positive model cells in the scaling.',
            'DESIGN.md §3 C11'),
    'C12': ('model_checking',
            'monitored exhaustive product optimiser x model x every proper fixed-parameter subset x starting-point lattice x bound box x multinom, with every model evaluation recorded as a transition; exhaustive subsets for parameter projection; enumerated environment answers for perturb_params',
            'Each of the 11 optimiser entry points is run on closed-form models for every proper subset of fixed parameters, starting points on '
            '{near-lower, middle, near-upper}^k, three bound boxes (optimum inside, beyond the upper bounds, beyond an upper bound of exactly 0) and '
            'multinom on/off, through a wrapper that records every model evaluation: the first evaluation is the start, every evaluation lies in the '
            'box with fixed entries bit-identical, the returned vector lies in the box with fixed entries unchanged, its independently recomputed '
            'likelihood equals the reported optimum and (for opt) is not below the start or the best evaluated point. _project_params_up/_down are '
            'checked on all fixed-subsets for k<=5, perturb_params on a bounds lattice (negative, zero, None) with the uniform draw replaced by '
            'every extreme answer.',
            '1e-12 relative slack on bounds for log-space and NLopt optimisers (1-ulp excursions from exp(log(b)) / internal rescaling); NLopt '
            'RoundoffLimited is reported as documented (-inf, nan) and counted; small iteration budgets; quick tier k<=3. Added after the seeded waves: fixed values that change between runs of one process; start vectors as arrays and lists (untouched afterwards); parameters exactly on a bound. Seventh/eighth wave: parameters fixed at exactly 0; bound lists on one side only for every optimiser family.',
            'DESIGN.md §3 C12'),
    'C13': ('model_checking',
            'exhaustive enumeration of every single-SNP configuration (genotype vectors x ancestral-allele / FILTER / allele forms) through the real VCF and SNP-table parsers, of every answer of the subsampling and bootstrap random draws (environment enumeration), of every chunk size, and of every spectrum with <=3 SNPs, against an independent counter over the genotype matrix',
            'Synthetic VCFs containing every genotype vector over {0/0,0/1,1/1,./.,0|1,1|0} for layouts of 1-3 populations are parsed by the real '
            'code; each SNP entry (calls, alleles, outgroup) and the spectra for all projection vectors, polarised and folded, are compared with '
            'an exact rational oracle, and totals with the number of usable SNPs. numpy.random.choice / random.choices are replaced by stubs that '
            'return every possible answer in turn, so subsampling and bootstraps are decided for every draw. Chunking is checked for every chunk '
            'size (partition, one window per chunk, chunk spectra sum to the whole). S, pi, theta_W, Tajima D, theta_L are compared with brute '
            'force on haplotype matrices and Fst with Weir-Cockerham from allele counts, for every spectrum with <=3 (Fst: 2) SNPs.',
            'DP/AD-based call exclusion is outside the enumerated space (not defined by the property); the format lattice is crossed with a '
            'covering subset of genotype vectors, the plain format with all of them. Seventh/eighth wave: unlisted VCF samples in any column; depth formats (GT:DP, GT:AD, both orders) with zero-depth genotypes; half calls.',
            'DESIGN.md §3 C13'),
    'C14': ('model_checking',
            'exhaustive enumeration of a format lattice (shape x position x value alphabet x precision x gz; masks x labels x comments x format flags x folding; memory layouts; pickle protocols) with real write+read round trips',
            'Every member of the lattice is written with the real writer and read back with the real reader (and the cross pairs: generic array '
            'writer <-> Spectrum reader, pre-1.3 format), then compared field by field: shape, values bitwise after formatting at the written '
            'precision (incl. -0.0, denormals, nan, +-inf), mask, folded flag, labels, comments; pickle protocols 2-5, copy and deepcopy likewise; '
            'non-contiguous views (reorder_pops transposes, Fortran order, strided and reversed slices) are included.',
            'Labels without double quotes/newlines, comments without newlines (not representable in the format); scratch files under /verif/.scratch. Waves 7-11: masks assigned after folding; labels with blanks and tabs; the tofile alias; integer-valued data with huge entries; unmasked spectra through the generic writer.',
            'DESIGN.md §3 C14'),
    'C15': ('model_checking',
            'exhaustive enumeration of the model catalogue (discovered by introspection) x per-model checks (arity, parameter lattice with per-parameter corners, zero-length epochs, name-derived nesting rules, label-swap on a time-step ladder) and of an explicit 83-edge nesting graph x lattice points',
            'Every function exposing __param_names__ (106 models: 13 one-, 59 two-, 34 three-population) is evaluated for arity n-1/n/n+1, '
            'on two interior parameter points and every per-parameter corner (T in {0,1e-3,1}, m in {0,5}, nu in {0.1,10}, s,f in {0.2,0.8}, gamma in {0,+-5}) '
            'for finiteness, non-negativity, shape and extrapolation tag; continuity at every zero-length epoch; X_sel(0)==X, '
            'X_sel_single_gamma(g)==X_sel(g,g), X_asym(m,m)==X_sym(m) wherever the names exist; label-swap equivariance for every model whose '
            'parameter names are closed under the swap, with the error required to vanish with the time step. The explicit nesting graph '
            '(zero migration, zero-length epochs, equal rates, merged epochs, constant-vs-function drivers) is evaluated edge by edge, and so are 337 further '
            'edges derived from the models\' call programs (checks/C15_auto_edges.json, produced by tools/discover_c15_edges.py: recording stubs, symbolic '
            'parameters, program unification at every zero-length epoch / zero migration point) on 2 (quick) / 6 (thorough) lattice points.',
            'Identities are checked on coarse grids (they hold at any grid); "~" edges are decided on a two-level time-step ladder; small negative '
            'entries (>-2e-3 of the maximum at a single grid) are treated as discretisation error; models with directional admixture or two '
            'selection coefficients are swap-tested only in their symmetric sub-family.',
            'DESIGN.md §3 C15'),
    'C16': ('model_checking',
            'exhaustive enumeration of programs of the dadi-program grammar (all up to a length bound for 1-3 populations; a curated exhaustive 4-5 population family), each evaluated natively, through an independently written program->demes translator (two graph styles) under every unit / reference-size / deme-order variation, and through export + re-import',
            'Every program is run natively and compared with dadi.Demes.SFS of the graph produced by our own translator (branch and split style), '
            'then re-expressed in years, relative to 7x and 0.5x the reference size, with explicit Ne (incl. Ne x7 with theta x7), and for every '
            'permutation of the sampled demes; frozen populations are translated into ancient samples. The event log of the native run is exported '
            'with dadi.Demes.output for two (Nref, generation_time) pairs and re-imported. The 4-5 population family covers every split parent, '
            'every pulse destination in 4-D and 5-D and every frozen pattern incl. the fifth deme. Ancient samples in the middle of constant / '
            'exponential / linear epochs (first and later epochs, with and without other samples and migration) exercise graph slicing. The YAML '
            'graphs of the suite are checked under unit conversion and deme order.',
            'Agreement is required to 1e-8; where two computations legitimately differ by operator splitting or time-step choice (front end '
            'holding demes in another internal order; frozen branches of nominal size 1/Ne) the error must be below 2e-3 and shrink with the '
            'time step (counted in evidence). Export with Nref=None normalises rates by design and is not compared. One known finding '
            '(export of zero-length demes). Added after the seeded waves: one size-function epoch cut into 3-4 pieces by other demes\' events; migration windows; repeatable export. Coincident events on one deme are excluded (not orderable by a graph); programs with frozen populations may agree only on a grid ladder. Seventh/eighth wave: non-commuting pulses at one instant; 4->5 admixture with every fraction pattern; all samples ancient at two times; caller lists compared after every front-end call.',
            'DESIGN.md §3 C16'),
    'C17': ('model_checking',
            'stateless exploration of all thread interleavings of the real cache builder under a controlled scheduler (fake multiprocessing; stateful symmetry-reduced DFS cross-checked by preemption-bounded unpruned DFS), exhaustive fault subsets and merge multisets, plus a quadrature lattice against an independently coded reference',
            'Cache1D/Cache2D._multiple_processes and _worker_sfs run unchanged as baton-passed threads behind a fake multiprocessing module '
            'whose Queue.put/get, list.append/iteration, Process.start/join are scheduling points with enabledness (bounded queue full/empty, '
            'join target finished). Every interleaving for W workers x J jobs (W<=3-4, J<=4-5) is enumerated with pruning on the abstract state '
            '(queue, result multiset, per-thread pending operation and item in hand; symmetric workers sorted), and re-enumerated without pruning '
            'under preemption bounds 0,1,2; W in {8,16} preemption-bounded only. In every terminal state the cache must be bitwise the '
            'single-process cache, every job computed exactly once, no deadlock or livelock. Every non-empty subset of failing jobs is injected '
            'under every schedule (the constructor must raise), and so is the hard death of the worker that dequeues job k (for every k; the worker '
            'disappears holding the job, without raising: the constructor must not return a cache). Every sequence of split-job caches up to length split+1 is merged (complete '
            'sets equal the single-job cache, incomplete ones raise naming the first hole, altered copies raise). integrate / '
            'integrate_point_pos / mixtures (incl. the six-component Vourlaki mixture) are compared with an independent quadrature on closed-form caches over pdf x parameter x theta x '
            'exterior lattices, and compiled pdfs with reference formulas.',
            'Scheduling points only at Manager-proxy operations (the workers share nothing else; a free-running pass with real processes is '
            'included); 2-D tail masses use adaptive quadrature at epsrel 1e-3 in the implementation and are compared at 2e-3; total weight ~ 1 '
            'asserted only on fine gamma grids. Added after the seeded waves: split-job parts built by a worker pool under every schedule; duplicates differing by 1e-7; 2-3 point masses; near-neutral bivariate DFEs; exterior_int off in mixtures. Waves 7-9: compiled bivariate densities on every rectangular pair of lengths; broad exchangeable DFEs with corner mass.',
            'DESIGN.md §3 C17'),
    'C18': ('model_checking',
            'exhaustive enumeration of genotype partitions against brute-force enumeration of all genotype vectors and the exact (Fraction) sampling law; lattice enumeration of matrices and of the full correction on every unit model spectrum',
            'For every sequenced size (2..12, thorough ..20), allele count and F of the lattice the partitions returned by the library are compared '
            'with the set of ALL 3^(n/2) genotype vectors up to order (all and only, each once), and their probabilities with the exact multinomial '
            '/ conditional beta-binomial law in rational arithmetic, also after polyploid use of the shared partition tables. Projection and '
            'miscalling matrices are checked row-stochastic and non-negative for every (n, even n_sub, F, coverage distribution) with F->0 '
            'continuity and contraction; no-call and enough-coverage probabilities lie in [0,1]. The complete wrapper is applied to every unit '
            'model spectrum for 1-3 populations x coverage x F x sim_threshold: totals never exceed the model, entries are non-negative, and at '
            'depth 80 the result equals the plain projection.',
            'The Monte-Carlo branch is run with owned seeds and only draw-independent properties are asserted; coverage distributions with no '
            'reads at all are excluded (nothing can be called). Added after the seeded waves: the random source of the subsampling step replaced by an enumerated answer list (every joint outcome reachable); simulated regime with deep coverage (support containment, 1-3 populations); wrapper histories across coverage distributions. Seventh/eighth wave: F=1e-8; simulated regime after another coverage distribution; persistent model spectra; the simulated regime made deterministic (deep coverage, every fixed shuffle) and compared with the exact partition law.',
            'DESIGN.md §3 C18'),
    'C19': ('model_checking',
            'exhaustive monomial basis x parameter-regime lattice x step sizes against exact derivatives; closed-form information matrices on an eps ladder; all bootstrap permutations; explicit-state enumeration of all call sequences over the shared cache up to a depth bound',
            'get_hess and get_grad (linear in the function) are applied to every monomial of degree <=2 in 1-5 variables at every point of the '
            'p0 lattice {-2,0,1e-9,3e-5,0.7,40}^k (complete for k<=3, covering set for k=4,5) and three step sizes, so every combination of '
            'central / one-sided / zero-parameter stencils is exercised and compared with the exact derivative. FIM and GIM matrices, LRT '
            'adjustment, Wald and score statistics are compared with closed forms from analytic model derivatives (linear, curved and '
            'scale-free Poisson models, multinom and log variants) with the error required to contract at second order in eps; all 24 orderings '
            'of 4 bootstraps; sum_chi2_ppf on 8 input forms x 5 weight vectors; every sequence of <=2 (thorough 3) calls from a 10-symbol '
            'alphabet sharing Godambe.cache must reproduce the fresh-state value of each call.',
            'Models with an overall scale parameter are degenerate under multinom and excluded there; permutation tolerance scales with cond(J). Added after the seeded waves: every nested-parameter set for LRT_adjust; per-bootstrap theta (plain and log parameters, LRT); user-masked data entries; array-valued p0 untouched. Waves 7-10: bootstrap sets of different sizes in one history (history-free values from a forked child); two-value forms of the Wald and score statistics; folded and unfolded data in one history.',
            'DESIGN.md §3 C19'),
    'C20': ('model_checking',
            'explicit-state breadth-first search over the module state of the library (all memoisation tables hashed by key and value, global switches, numpy error state) with one real API call per transition, to closure or a reported state cap; layout enumeration per array argument; hash-seed sweep in subprocesses',
            'States are snapshots of every module-level cache and switch; from each state every symbol of a ~90-call alphabet (spectrum methods, '
            'sampling 1-4 D on colliding grids, inbreeding, data dictionaries, low-pass helpers, likelihoods, objective function, grid '
            'optimiser, Fisher/LRT calls with two models, integrators 1-5 populations incl. T=0, density operations, demes import) is executed '
            'on freshly built arguments; states are merged by canonical hash so the search closes over histories of any length (quick: closure '
            'over the 24 symbols that own a memo table or module-level record with a state cap of 600, and all length-2 sequences over the full '
            'alphabet; thorough: cap 1500, length-3 sequences over the full alphabet starting from those 24 symbols, 9 hash seeds). On every transition the result must '
            'equal the fresh-state value (bitwise; 8 ulp for BLAS-backed sampling), every argument must be bitwise unchanged (arrays, masks, '
            'lists, dicts) and results must not alias inputs. Every array argument is also passed as Fortran, transposed, strided, reversed and '
            'read-only memory. Fresh values and all length-2 sequences are recomputed under 4-5 PYTHONHASHSEED values in new interpreters.',
            'A finite set of hash seeds stands for "all seeds"; a crash of the evaluating process (e.g. heap corruption) is reported as a violation; '
            'the state cap, when hit, is reported in evidence with what was fully covered. Added after the seeded waves: zero-length epochs for every integrator, equal-individuals/different-ploidy pairs, one-corner-masked spectra, ancient samples with caller-owned lists, None bounds, list-or-array parameter vectors. Seventh/eighth wave: 20 more symbols (pulse functions of every dimension, corner masking on views, export record, coverage order, scalar arithmetic); mask buffers in the aliasing test; repeated read-only calls.',
            'DESIGN.md §3 C20'),
}

NOT_YET = {}


def build():
    checks = []
    for pid in ALL:
        if pid not in CHECKS:
            continue
        cat, tech, text, note, ref = CHECKS[pid]
        checks.append({
            'property_id': pid,
            'quick_cmd': './check %s --tier quick' % pid,
            'thorough_cmd': './check %s --tier thorough' % pid,
            'evidence_file': 'evidence/%s.json' % pid,
            'replay_cmd_template': './check %s --replay {path}' % pid,
            'engine': 'mc',
            'level_claimed': {'category': cat, 'text': text, 'design_ref': ref},
            'level_note': note,
            'technique': tech,
        })
    na = [{'property_id': pid, 'reason': NOT_YET.get(pid, 'check not built yet in this session (planned, see DESIGN.md §3); not claimed until it runs')}
          for pid in ALL if pid not in CHECKS]
    man = {
        'version': 1,
        'setup_cmd': './setup.sh',
        'hooks': {
            'guard': 'DADI_VERIF',
            'enable': 'no source hooks: all interception is done from outside (wrappers, fake multiprocessing module, stubbed RNG); '
                      './check exports DADI_VERIF=1 for uniformity and rebuilds the C extensions from the working tree into /verif/.build',
            'baseline_off_cmd': 'cd /repo && /venv/bin/python -m pytest -ra -q -p no:cacheprovider --timeout=900 --continue-on-collection-errors',
            'source_commits': [],
            'add_only': True,
        },
        'engines': [
            {'name': 'mc', 'path': 'mc/', 'serves_properties': [c['property_id'] for c in checks],
             'kind_free_text': 'hand-written bounded-exhaustive explorer for Python: sharded product enumeration, explicit-state BFS over real '
                               'dadi calls with canonical state hashing, controlled thread scheduler behind a fake multiprocessing module, '
                               'environment-answer enumeration; exact Fraction/Decimal reference models'},
        ],
        'checks': checks,
        'not_applicable': na,
        'notes': 'All checks explore the real implementation (rebuilt from /repo working tree); see DESIGN.md.',
    }
    return man


def main():
    man = build()
    fn = os.path.join(VERIF, 'MANIFEST.json')
    with open(fn, 'w') as f:
        json.dump(man, f, indent=1)
        f.write('\n')
    # validate with the tooling venv (jsonschema lives there)
    code = ("import json,jsonschema,sys;"
            "jsonschema.validate(json.load(open('%s')), json.load(open('/root/.vp/MANIFEST.schema.json')));print('MANIFEST valid')" % fn)
    subprocess.call(['python3-vt', '-c', code])


if __name__ == '__main__':
    main()
