"""Rebuild dadi's compiled extensions from /repo's *current working tree* and put them in front
of /repo's stale .so files.

  dadi.integration_c      <- integration_c.c (cython-generated, on disk) + integration{1..5}D.c
                             + integration_shared.c + tridiag.c
  dadi.tridiag_cython     <- tridiag_cython.c + tridiag.c
  dadi.DFE.PDFs_cython    <- DFE/PDFs_cython.c  (which #includes PDFs.c)

Build output lives in /verif/.build/<sha256 of all inputs>/ (cached by content).  /repo is never written.
Cython is not installed, so .pyx edits cannot be regenerated in general; the .pyx hashes are recorded so that a
.pyx/.c divergence is visible in the evidence.  The one thing the wrappers decide themselves - which extents of the
density they pass to the kernels - is carried over from the .pyx to a copy of the generated C (mc/pyxsync.py).
"""
import hashlib
import importlib.abc
import importlib.machinery
import importlib.util
import os
import subprocess
import sys
import sysconfig

REPO = os.environ.get('DADI_REPO', '/repo')
VERIF = os.path.dirname(os.path.dirname(os.path.abspath(__file__)))
BUILD_ROOT = os.path.join(VERIF, '.build')

_EXT = {
    'dadi.integration_c': ['dadi/integration_c.c', 'dadi/integration1D.c', 'dadi/integration2D.c',
                           'dadi/integration3D.c', 'dadi/integration4D.c', 'dadi/integration5D.c',
                           'dadi/integration_shared.c', 'dadi/tridiag.c'],
    'dadi.tridiag_cython': ['dadi/tridiag_cython.c', 'dadi/tridiag.c'],
    'dadi.DFE.PDFs_cython': ['dadi/DFE/PDFs_cython.c'],
}
_EXTRA_DEPS = ['dadi/integration_shared.h', 'dadi/tridiag.h', 'dadi/integration_cython.h', 'dadi/DFE/PDFs.c']
_PYX = ['dadi/integration_c.pyx', 'dadi/tridiag_cython.pyx', 'dadi/DFE/PDFs_cython.pyx']

_info = {}


def _sha(paths):
    h = hashlib.sha256()
    for p in paths:
        fp = os.path.join(REPO, p)
        h.update(p.encode())
        if os.path.exists(fp):
            with open(fp, 'rb') as f:
                h.update(f.read())
        else:
            h.update(b'<missing>')
    return h.hexdigest()


def build(verbose=False):
    """Compile (if not cached) and return {modname: path_to_so}."""
    import numpy
    allsrc = sorted(set(sum(_EXT.values(), [])) | set(_EXTRA_DEPS))
    key = _sha(allsrc + ['dadi/integration_c.pyx'])[:20]
    out = os.path.join(BUILD_ROOT, key)
    os.makedirs(out, exist_ok=True)
    # the generated wrapper file follows the .pyx in the extents it passes to the kernels (see mc/pyxsync.py)
    override = {}
    try:
        from mc import pyxsync
        with open(os.path.join(REPO, 'dadi/integration_c.pyx')) as f:
            pyx = f.read()
        with open(os.path.join(REPO, 'dadi/integration_c.c')) as f:
            ctext = f.read()
        synced, changed = pyxsync.sync(pyx, ctext)
        if changed:
            dst = os.path.join(out, 'integration_c.synced.c')
            if not os.path.exists(dst):
                tmpc = dst + '.tmp%d' % os.getpid()
                with open(tmpc, 'w') as f:
                    f.write(synced)
                os.replace(tmpc, dst)
            override['dadi/integration_c.c'] = dst
        _info['wrapper_extents_synced_from_pyx'] = sorted(changed)
    except FileNotFoundError:
        pass
    suffix = sysconfig.get_config_var('EXT_SUFFIX')
    inc = ['-I' + sysconfig.get_paths()['include'], '-I' + numpy.get_include(),
           '-I' + os.path.join(REPO, 'dadi'), '-I' + os.path.join(REPO, 'dadi', 'DFE')]
    res = {}
    procs = []
    for mod, srcs in _EXT.items():
        so = os.path.join(out, mod.replace('.', '_') + suffix)
        res[mod] = so
        if os.path.exists(so):
            continue
        missing = [s for s in srcs if not os.path.exists(os.path.join(REPO, s))]
        if missing:
            raise RuntimeError('cannot rebuild %s: missing %s (Cython is not installed)' % (mod, missing))
        tmp = so + '.tmp%d' % os.getpid()
        cmd = ['gcc', '-O2', '-fPIC', '-shared', '-w', '-fno-strict-aliasing',
               '-DNPY_NO_DEPRECATED_API=NPY_1_7_API_VERSION'] + inc + \
              [override.get(s, os.path.join(REPO, s)) for s in srcs] + ['-lm', '-o', tmp]
        if verbose:
            print('[build]', ' '.join(cmd), file=sys.stderr)
        procs.append((mod, so, tmp, subprocess.Popen(cmd, stdout=subprocess.PIPE, stderr=subprocess.STDOUT)))
    for mod, so, tmp, p in procs:
        outtxt = p.communicate()[0].decode(errors='replace')
        if p.returncode != 0:
            raise RuntimeError('compilation of %s failed:\n%s' % (mod, outtxt))
        os.replace(tmp, so)
    _info.update({'build_key': key, 'build_dir': out, 'pyx_sha': _sha(_PYX)[:16], 'modules': res})
    return res


class _Finder(importlib.abc.MetaPathFinder):
    def __init__(self, table):
        self.table = table

    def find_spec(self, fullname, path=None, target=None):
        so = self.table.get(fullname)
        if so is None:
            return None
        loader = importlib.machinery.ExtensionFileLoader(fullname, so)
        return importlib.util.spec_from_file_location(fullname, so, loader=loader)


_installed = False


def install(verbose=False):
    """Build and install the import hook.  Must be called before `import dadi`."""
    global _installed
    if _installed:
        return _info
    if 'dadi' in sys.modules:
        raise RuntimeError('mc.build.install() must run before dadi is imported')
    table = build(verbose)
    sys.meta_path.insert(0, _Finder(table))
    # make sure dadi itself is imported from REPO (editable install points there; be explicit)
    if REPO not in sys.path:
        sys.path.insert(0, REPO)
    _installed = True
    return _info


def info():
    return dict(_info)


def import_dadi():
    install()
    import warnings
    with warnings.catch_warnings():
        warnings.simplefilter('ignore')
        import dadi
        import dadi.integration_c as ic
        assert ic.__file__.startswith(BUILD_ROOT), ic.__file__
        assert os.path.abspath(dadi.__file__).startswith(os.path.abspath(REPO)), dadi.__file__
    return dadi


if __name__ == '__main__':
    t = build(verbose=True)
    print(t)
