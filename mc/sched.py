"""Controlled scheduler: runs code written against `multiprocessing` (Manager().Queue / Manager().list / Process) as baton-passed
threads whose every queue / list / join / start operation is a scheduling point owned by the explorer.

Exactly one controlled thread runs at a time.  Before each operation a thread announces (kind, enabledness predicate) and parks;
the scheduler picks one enabled thread according to the current choice sequence, the thread performs the operation atomically and runs
on to its next point.  "No enabled thread while some are unfinished" is a deadlock; exceeding the step horizon is a livelock.

Exploration (`explore`): depth-first over choice prefixes in canonical order (the thread that ran last first, then ascending ids), with
  * a preemption bound (switching away from a still-enabled running thread costs 1), and/or
  * stateful pruning: alternatives are only expanded at points whose abstract state (queue contents, result multiset, per-thread
    (pending operation, item in hand), finished set; worker identities sorted because workers are symmetric) has not been expanded before.
"""
import collections
import contextlib
import sys
import threading
import types


class Deadlock(Exception):
    pass


class Livelock(Exception):
    pass


class WorkerDeath(BaseException):
    """raised inside a controlled worker to model a hard process death (kill -9, segfault, OOM): the worker disappears while holding the
    item it has just dequeued; nothing it would have done afterwards happens.  It is raised from Queue.get, i.e. outside any try block of
    the code under test that guards the job itself."""


class _Thread(object):
    def __init__(self, sched, tid, target, args, is_worker):
        self.sched, self.tid, self.target, self.args = sched, tid, target, args
        self.is_worker = is_worker
        self.sem = threading.Semaphore(0)
        self.pending = None          # (kind, enabled_fn)
        self.finished = False
        self.started = False
        self.exc = None
        self.hand = None             # item taken from the queue and not yet answered
        self.thread = threading.Thread(target=self._run, daemon=True)

    def _run(self):
        self.sem.acquire()           # wait for first scheduling
        try:
            self.target(*self.args)
        except BaseException as e:   # noqa
            self.exc = e
        finally:
            self.finished = True
            self.pending = None
            self.sched._yield_to_scheduler()


class Scheduler(object):
    def __init__(self, choices=(), horizon=100000, fatal=None):
        self.choices = list(choices)
        self.fatal = fatal           # predicate on a dequeued item: the worker that dequeues it dies
        self.threads = []
        self.points = []             # list of dict(enabled=[tids], chosen=tid, running_enabled=bool, state=hash)
        self.sched_sem = threading.Semaphore(0)
        self.current = None
        self.last = None
        self.horizon = horizon
        self.queues = []
        self.lists = []
        self.trace = []
        self.aborting = False

    # ---- called from controlled threads -------------------------------------------------------------------
    def point(self, kind, enabled=lambda: True):
        t = self.current
        t.pending = (kind, enabled)
        self._yield_to_scheduler()
        t.sem.acquire()
        if self.aborting:
            raise SystemExit
        t.pending = None

    def _yield_to_scheduler(self):
        self.sched_sem.release()

    # ---- thread management ---------------------------------------------------------------------------------
    def spawn(self, target, args, is_worker):
        t = _Thread(self, len(self.threads), target, args, is_worker)
        self.threads.append(t)
        return t

    def start_thread(self, t):
        t.started = True
        t.pending = ('begin', lambda: True)
        t.thread.start()

    # ---- the scheduling loop (runs in the explorer's thread) -----------------------------------------------
    def abstract_state(self):
        q = tuple(tuple(repr(x) for x in q_.items) for q_ in self.queues)
        ls = tuple(tuple(sorted(repr(_summ(x)) for x in l_.items)) for l_ in self.lists)
        main = []
        workers = []
        for t in self.threads:
            desc = ('fin' if t.finished else (t.pending[0] if t.pending else 'run'), repr(t.hand), t.started)
            (workers if t.is_worker else main).append(desc)
        return (q, ls, tuple(main), tuple(sorted(workers)))

    def run(self, main_target):
        main = self.spawn(main_target, (), False)
        self.start_thread(main)
        step = 0
        while True:
            alive = [t for t in self.threads if t.started and not t.finished]
            if not alive:
                break
            enabled = [t for t in alive if t.pending is not None and t.pending[1]()]
            if not enabled:
                self._abort()
                raise Deadlock('no enabled thread; waiting: %s' % [(t.tid, t.pending[0] if t.pending else None) for t in alive])
            if step > self.horizon:
                self._abort()
                raise Livelock('horizon exceeded')
            # canonical order: the thread that ran last first (if still enabled), then ascending ids
            order = sorted(enabled, key=lambda t: (0 if t is self.last else 1, t.tid))
            running_enabled = self.last is not None and self.last in enabled
            idx = self.choices[step] if step < len(self.choices) else 0
            if idx >= len(order):
                self._abort()
                raise IndexError('choice %d out of range at step %d (replay divergence)' % (idx, step))
            chosen = order[idx]
            self.points.append({'enabled': [t.tid for t in order], 'chosen': idx, 'running_enabled': running_enabled,
                                'state': self.abstract_state(), 'kind': chosen.pending[0], 'tid': chosen.tid})
            self.current = chosen
            self.last = chosen
            step += 1
            chosen.sem.release()
            self.sched_sem.acquire()          # wait until it parks at its next point or finishes
        if main.exc is not None:
            raise main.exc
        return main

    def _abort(self):
        self.aborting = True
        for t in self.threads:
            if t.started and not t.finished:
                t.sem.release()


def _summ(x):
    if isinstance(x, BaseException):
        return ('exc', type(x).__name__)
    if isinstance(x, tuple):
        return tuple(v if isinstance(v, (int, float, str)) else '#' for v in x)
    return repr(type(x))


# ---- fake multiprocessing API ---------------------------------------------------------------------------------
class FakeQueue(object):
    def __init__(self, sched, maxsize=0):
        self.sched, self.maxsize = sched, maxsize
        self.items = collections.deque()
        sched.queues.append(self)

    def put(self, item):
        self.sched.point('put', lambda: self.maxsize <= 0 or len(self.items) < self.maxsize)
        self.items.append(item)

    def get(self):
        self.sched.point('get', lambda: len(self.items) > 0)
        item = self.items.popleft()
        self.sched.current.hand = item
        if self.sched.fatal is not None and self.sched.current.is_worker and self.sched.fatal(item):
            self.sched.current.hand = ('died_with', repr(item))
            raise WorkerDeath(repr(item))
        return item


class FakeList(object):
    def __init__(self, sched):
        self.sched = sched
        self.items = []
        sched.lists.append(self)

    def append(self, x):
        self.sched.point('append')
        self.items.append(x)
        self.sched.current.hand = None

    def __iter__(self):
        self.sched.point('read_results')
        return iter(list(self.items))

    def __len__(self):
        return len(self.items)


class FakeManager(object):
    def __init__(self, sched):
        self.sched = sched

    def __enter__(self):
        return self

    def __exit__(self, *a):
        return False

    def Queue(self, maxsize=0):
        return FakeQueue(self.sched, maxsize)

    def list(self):
        return FakeList(self.sched)


class FakeProcess(object):
    def __init__(self, sched, target, args=()):
        self.sched = sched
        self.t = sched.spawn(target, args, True)

    def start(self):
        self.sched.point('start')
        self.sched.start_thread(self.t)

    def join(self):
        self.sched.point('join', lambda: self.t.finished)


def fake_multiprocessing(sched):
    m = types.ModuleType('multiprocessing')
    m.Manager = lambda: FakeManager(sched)
    m.Process = lambda target=None, args=(): FakeProcess(sched, target, args)
    m.cpu_count = lambda: 2
    return m


@contextlib.contextmanager
def patched_multiprocessing(sched):
    old = sys.modules.get('multiprocessing')
    sys.modules['multiprocessing'] = fake_multiprocessing(sched)
    try:
        yield
    finally:
        if old is not None:
            sys.modules['multiprocessing'] = old
        else:
            del sys.modules['multiprocessing']


def run_once(body, choices=(), horizon=100000, fatal=None):
    """run `body()` (which uses multiprocessing) under the controlled scheduler with the given choice prefix.
    returns (result_or_exception, scheduler)"""
    sched = Scheduler(choices, horizon, fatal)
    box = {}

    def main():
        box['result'] = body()
    with patched_multiprocessing(sched):
        try:
            sched.run(main)
            return ('ok', box.get('result')), sched
        except (Deadlock, Livelock) as e:
            return ('stuck', e), sched
        except IndexError:
            raise
        except BaseException as e:      # noqa: exception raised by the body itself (e.g. constructor reporting a failed worker)
            return ('raised', e), sched


def explore(body, check, preemption_bound=None, stateful=True, max_executions=None, horizon=100000, fatal=None):
    """systematic exploration.  check(outcome, sched, choices) is called for every complete execution.
    returns dict(executions, states, transitions, capped, max_preemptions)"""
    expanded = set()
    stats = {'executions': 0, 'states': 0, 'transitions': 0, 'capped': False}
    stack = [[]]
    while stack:
        prefix = stack.pop()
        if max_executions is not None and stats['executions'] >= max_executions:
            stats['capped'] = True
            break
        outcome, sched = run_once(body, prefix, horizon, fatal)
        stats['executions'] += 1
        stats['transitions'] += len(sched.points)
        choices = [p['chosen'] for p in sched.points]
        check(outcome, sched, choices)
        # branch
        preempt = 0
        costs = []
        for i, p in enumerate(sched.points):
            costs.append(preempt)
            if p['chosen'] != 0 and p['running_enabled']:
                preempt += 1
        for i in range(len(sched.points) - 1, len(prefix) - 1, -1):
            p = sched.points[i]
            if stateful:
                if p['state'] in expanded:
                    continue
                expanded.add(p['state'])
            for alt in range(1, len(p['enabled'])):
                cost = costs[i] + (1 if p['running_enabled'] else 0)
                if preemption_bound is not None and cost > preemption_bound:
                    continue
                stack.append(choices[:i] + [alt])
        if stateful:
            for p in sched.points[:len(prefix)]:
                expanded.add(p['state'])
    stats['states'] = len(expanded) if stateful else stats['transitions']
    return stats
