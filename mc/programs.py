"""A small language of "dadi programs" (sequences of density-level API calls) with an interpreter on the real library,
a generator of all well-formed programs up to a length bound, and the reference-size rescaling transform.

ops (all JSON-able tuples/lists):
  ['init', nu, gamma, h]                                   phi_1D(xx, nu, theta0, gamma, h)
  ['init_dense', d, seed]                                  a fixed positive d-dimensional density (for 4-5 population programs)
  ['int', T, sizes, mig, gammas, hs, frozen]               Integration.one_pop .. five_pops
        sizes: per population  number | ['exp', nu0, nuF] | ['lin', nu0, nuF]      (functions of time over [0, T])
        mig:   list of [[i, j], m]   (rate into i from j, 0-based)
  ['split', parent]                                        phi_1D_to_2D / 2D_to_3D_split_k / 3D_to_4D / 4D_to_5D with unit proportion
  ['admix_new', props]                                     phi_2D_to_3D_admix / 3D_to_4D / 4D_to_5D  (props for the first d-1 populations)
  ['pulse', dest, props]                                   the in-place phi_*D_admix_* functions
  ['remove', k] | ['reorder', perm]
  ['sample', ns]                                           Spectrum.from_phi
"""
import itertools

import numpy as np


def size_value(spec, c=1.0):
    """size specification -> scalar or function of time (sizes multiplied by c, durations by c)"""
    if isinstance(spec, (int, float)):
        return spec * c
    kind, a, b, T = spec[0], spec[1], spec[2], spec[3]
    a, b, T = a * c, b * c, T * c
    if kind == 'exp':
        return lambda t, a=a, b=b, T=T: a * (b / a) ** (t / T)
    if kind == 'lin':
        return lambda t, a=a, b=b, T=T: a + (b - a) * (t / T)
    raise KeyError(kind)


def run(program, xx, theta0=1.0, c=1.0, trace=None, timescale_factor=None, phi0=None):
    """interpret `program` on the real dadi; returns the final object (density or Spectrum).  `c` re-expresses the model relative to a
    reference size c times smaller... precisely: every size and time is multiplied by c, every migration rate, selection coefficient
    and theta0 divided by c.  trace (list) receives a copy of every intermediate density."""
    import dadi
    from dadi import PhiManip as PM, Integration as I
    phi = phi0          # a program without an init op continues from the caller's density
    old_tf = I.timescale_factor
    if timescale_factor is not None:
        I.timescale_factor = timescale_factor
    try:
        for op in program:
            kind = op[0]
            if kind == 'init':
                _, nu, gamma, h = op
                phi = PM.phi_1D(xx, nu=nu * c, theta0=theta0 / c, gamma=gamma / c, h=h)
            elif kind == 'init_dense':
                _, d, seed = op
                rng = np.random.RandomState(seed)
                phi = rng.uniform(0.2, 1.0, size=(len(xx),) * d)
            elif kind == 'int':
                _, T, sizes, mig, gammas, hs, frozen = op
                d = phi.ndim
                sizes_v = [size_value((s + [T]) if isinstance(s, list) else s, c) for s in sizes]
                if d == 1:
                    phi = I.one_pop(phi, xx, T * c, nu=sizes_v[0], gamma=gammas[0] / c, h=hs[0], theta0=theta0 / c, frozen=bool(frozen[0]))
                else:
                    kw = {}
                    for k in range(d):
                        kw['nu%d' % (k + 1)] = sizes_v[k]
                        kw['gamma%d' % (k + 1)] = gammas[k] / c
                        kw['h%d' % (k + 1)] = hs[k]
                        kw['frozen%d' % (k + 1)] = bool(frozen[k])
                    for (i, j), m in mig:
                        kw['m%d%d' % (i + 1, j + 1)] = m / c
                    fn = [None, None, I.two_pops, I.three_pops, I.four_pops, I.five_pops][d]
                    phi = fn(phi.copy(), xx, T * c, theta0=theta0 / c, **kw)
            elif kind == 'split':
                parent = op[1]
                d = phi.ndim
                if d == 1:
                    phi = PM.phi_1D_to_2D(xx, phi)
                elif d == 2:
                    phi = (PM.phi_2D_to_3D_split_1 if parent == 0 else PM.phi_2D_to_3D_split_2)(xx, phi)
                else:
                    props = [1.0 if k == parent else 0.0 for k in range(d)][:-1]
                    fn = {3: PM.phi_3D_to_4D, 4: PM.phi_4D_to_5D}[d]
                    phi = fn(phi, *props, *([xx] * (d + 1)))
            elif kind == 'admix_new':
                props = op[1]
                d = phi.ndim
                fn = {2: PM.phi_2D_to_3D_admix, 3: PM.phi_3D_to_4D, 4: PM.phi_4D_to_5D}[d]
                phi = fn(phi, *props, *([xx] * (d + 1)))
            elif kind == 'pulse':
                dest, props = op[1], op[2]
                d = phi.ndim
                fn = pulse_function(d, dest)
                phi = fn(phi.copy(), *props, *([xx] * d))
            elif kind == 'remove':
                phi = PM.remove_pop(phi, xx, op[1] + 1)
            elif kind == 'reorder':
                phi = np.ascontiguousarray(PM.reorder_pops(phi, [k + 1 for k in op[1]]))
            elif kind == 'sample':
                ns = op[1]
                phi = dadi.Spectrum.from_phi(phi, list(ns), [xx] * phi.ndim, mask_corners=False)
            else:
                raise KeyError(kind)
            if trace is not None:
                trace.append(np.array(getattr(phi, 'data', phi), dtype=float, copy=True))
    finally:
        I.timescale_factor = old_tf
    return phi


def pulse_function(d, dest):
    from dadi import PhiManip as PM
    if d == 2:
        return PM.phi_2D_admix_1_into_2 if dest == 1 else PM.phi_2D_admix_2_into_1
    if d == 3:
        return {2: PM.phi_3D_admix_1_and_2_into_3, 1: PM.phi_3D_admix_1_and_3_into_2, 0: PM.phi_3D_admix_2_and_3_into_1}[dest]
    return getattr(PM, 'phi_%dD_admix_into_%d' % (d, dest + 1))


# ------------------------------------------------------------------------------------------------ generator
def int_ops(d, selection=True):
    """a small alphabet of integrations per dimension: constant, exponential and linear size change, migration, selection, frozen"""
    ops = []
    one = [1.0, 0.5, 2.0, 1.5, 0.25]
    ops.append(['int', 0.05, one[:d], [], [0.0] * d, [0.5] * d, [0] * d])
    sizes = [['exp', 1.0, 3.0]] + [one[k] for k in range(1, d)]
    mig = [[[i, j], 0.5 + i + 0.25 * j] for i in range(d) for j in range(d) if i != j]
    ops.append(['int', 0.1, sizes, mig, [0.0] * d, [0.5] * d, [0] * d])
    if selection:
        gam = [-2.0, 1.0, 0.5, -0.5, 2.0][:d]
        hs = [0.2, 0.5, 1.0, 0.5, 0.0][:d]
        sizes2 = [['lin', 2.0, 0.5]] + [one[k] for k in range(1, d)]
        ops.append(['int', 0.08, sizes2, mig[:2], gam, hs, [0] * d])
        # constant parameters with selection, large sizes and weak migration (the regime where the selection / drift bounds of the
        # time-step rule, not migration, decide the step)
        big = [3.0, 2.5, 4.0, 2.25, 5.0][:d]
        wk = [[[i, j], 0.03125 * (1 + i)] for i in range(d) for j in range(d) if i != j][:3]
        ops.append(['int', 0.4, big, wk, gam[::-1], hs, [0] * d])
    if d >= 2:
        fr = [0] * d
        fr[-1] = 1
        ops.append(['int', 0.06, one[:d], [], [0.0] * d, [0.5] * d, fr])
    return ops


def enabled(d, maxd, selection=True):
    ops = list(int_ops(d, selection))
    if d < maxd:
        for parent in range(d):
            ops.append(['split', parent])
        if d >= 2:
            ops.append(['admix_new', [0.25] + [0.0] * (d - 2)] if d > 2 else ['admix_new', [0.25]])
    if d >= 2:
        for dest in range(d):
            k = 1 if d == 2 else d - 1
            ops.append(['pulse', dest, [0.25] + [0.125] * (k - 1)])
        for k in range(d):
            ops.append(['remove', k])
        if d <= 3:
            ops.append(['reorder', list(range(1, d)) + [0]])
    return ops


def all_programs(inits, length, maxd, selection=True):
    """every well-formed program  init ; op_1 ... op_k  with k <= length  (sampling is added by the caller)"""
    out = []

    def rec(prog, d, depth):
        out.append(list(prog))
        if depth == length:
            return
        for op in enabled(d, maxd, selection):
            nd = d
            if op[0] in ('split', 'admix_new'):
                nd = d + 1
            elif op[0] == 'remove':
                nd = d - 1
            rec(prog + [op], nd, depth + 1)

    for init in inits:
        d0 = 1 if init[0] == 'init' else init[1]
        rec([init], d0, 0)
    return out


def dim_after(program):
    d = 0
    for op in program:
        if op[0] == 'init':
            d = 1
        elif op[0] == 'init_dense':
            d = op[1]
        elif op[0] in ('split', 'admix_new'):
            d += 1
        elif op[0] == 'remove':
            d -= 1
    return d
