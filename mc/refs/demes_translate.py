"""Independent translation of a dadi program (mc/programs.py vocabulary, neutral) into a demes graph.

dadi units: sizes relative to the reference size N0, times in units of 2*N0 generations, migration rates M = 2*N0*m.
demes graph (time_units = generations unless converted): sizes nu*N0, times measured backwards from the end of the program,
migration rate m = M/(2*N0) with source = the population migrants come FROM and dest = the population they move INTO
(dadi's m_ij is the rate into i from j).

This module does not use dadi's own exporter (dadi.Demes.output); it is the second, independent translator.
"""
import math


class Deme(object):
    def __init__(self, name, start, ancestors=None, proportions=None):
        self.name = name
        self.start = start            # dadi forward time at which the deme starts (None = root, infinitely old)
        self.end = None               # forward time at which it ends (None = alive at the end)
        self.ancestors = ancestors or []
        self.proportions = proportions
        self.epochs = []              # (t0, t1, start_nu, end_nu, function)


def translate(program, N0=1000.0, style='branch', frozen_as_ancient=True):
    """returns (spec dict usable to build a demes graph in any unit, live deme names in dadi axis order, total time, ancient sample info)

    style 'branch': a dadi split is a demes branch (parent continues, child is new);
    style 'split' : the parent deme ends and two children start (first child keeps the parent's axis).
    """
    t = 0.0
    demes = []
    live = []
    migrations = []       # (source, dest, rate M, t0, t1)
    pulses = []           # (sources, dest, proportions, t)
    counter = [0]
    ancient = {}          # deme name -> forward time at which it was frozen (sampled)

    def new_name():
        counter[0] += 1
        return 'd%d' % counter[0]

    for op in program:
        kind = op[0]
        if kind == 'init':
            if op[2] != 0:
                raise ValueError('selection cannot be expressed in a demes graph')
            root = Deme(new_name(), None)
            root.root_nu = op[1]
            demes.append(root)
            live = [root]
        elif kind == 'int':
            _, T, sizes, mig, gammas, hs, frozen = op
            if any(g != 0 for g in gammas):
                raise ValueError('selection cannot be expressed in a demes graph')
            if T <= 0:
                continue
            for k, d in enumerate(live):
                s = sizes[k]
                if frozen[k]:
                    # a frozen population = a sample taken at the time freezing started
                    if d.name not in ancient:
                        ancient[d.name] = t
                    d.epochs.append((t, t + T, None, None, 'frozen'))
                    continue
                if d.name in ancient:
                    raise ValueError('population evolves again after having been frozen')
                if isinstance(s, list):
                    d.epochs.append((t, t + T, s[1], s[2], {'exp': 'exponential', 'lin': 'linear'}[s[0]]))
                else:
                    d.epochs.append((t, t + T, s, s, 'constant'))
            for (i, j), M in mig:
                if M != 0:
                    migrations.append((live[j].name, live[i].name, M, t, t + T))
            t += T
        elif kind == 'split':
            parent = live[op[1]]
            if style == 'branch' or parent.name in ancient:
                child = Deme(new_name(), t, [parent.name], [1.0])
                demes.append(child)
                live = live + [child]
            else:
                parent.end = t
                c1 = Deme(new_name(), t, [parent.name], [1.0])
                c2 = Deme(new_name(), t, [parent.name], [1.0])
                demes.extend([c1, c2])
                live = live[:op[1]] + [c1] + live[op[1] + 1:] + [c2]
        elif kind == 'admix_new':
            props = list(op[1])
            props = props + [1.0 - sum(props)]
            anc = [(live[k].name, p) for k, p in enumerate(props) if p != 0]
            child = Deme(new_name(), t, [a for a, _ in anc], [p for _, p in anc])
            demes.append(child)
            live = live + [child]
        elif kind == 'pulse':
            dest, props = op[1], op[2]
            d = len(live)
            srcs = [1 - dest] if d == 2 else [k for k in range(d) if k != dest]
            pairs = [(live[k].name, p) for k, p in zip(srcs, props) if p != 0]
            if pairs:
                pulses.append(([a for a, _ in pairs], live[dest].name, [p for _, p in pairs], t))
        elif kind == 'remove':
            live[op[1]].end = t
            live = live[:op[1]] + live[op[1] + 1:]
        elif kind == 'reorder':
            live = [live[k] for k in op[1]]
        elif kind == 'sample':
            pass
        else:
            raise KeyError(kind)
    return {'demes': demes, 'migrations': migrations, 'pulses': pulses, 'total': t, 'N0': N0, 'ancient': ancient}, [d.name for d in live]


def build_graph(spec, time_units='generations', generation_time=1.0, scale=1.0):
    """demes.Graph from the spec.  time_units 'years' multiplies every time by generation_time; `scale` re-expresses the graph relative to a
    reference size scale*N0 (sizes and times multiplied by scale, rates divided by it)."""
    import demes
    N0 = spec['N0'] * scale
    Ttot = spec['total']
    gt = generation_time if time_units == 'years' else 1.0

    def back(tf):
        # forward dadi time -> backward time in the graph's units
        return (Ttot - tf) * 2.0 * N0 * gt

    kw = dict(time_units=time_units)
    if time_units == 'years':
        kw['generation_time'] = generation_time
    b = demes.Builder(**kw)
    frozen_names = set(spec['ancient'])
    sample_times = {}
    for d in spec['demes']:
        end_forward = d.end if d.end is not None else Ttot
        if d.name in frozen_names:
            end_forward = spec['ancient'][d.name]          # a frozen population is a sample taken when freezing started
            sample_times[d.name] = back(end_forward)
        real = [e for e in d.epochs if e[4] != 'frozen']
        epochs = []
        if d.start is None:
            # the root is at equilibrium at its initial size until its first epoch begins (or until it ends)
            first_t = real[0][0] if real else end_forward
            nu_root = getattr(d, 'root_nu', 1.0)
            if first_t > 0 or not real:
                epochs.append(dict(start_size=nu_root * N0, end_time=back(first_t)))
            else:
                epochs.append(dict(start_size=nu_root * N0, end_time=back(0.0)))
        elif not real:
            raise ValueError('zero-length deme %s (created and ended/frozen at the same time)' % d.name)
        for (t0, t1, a0, z0, fn) in real:
            ep = dict(end_time=back(t1), start_size=a0 * N0, end_size=z0 * N0)
            if fn != 'constant':
                ep['size_function'] = fn
            epochs.append(ep)
        if abs(epochs[-1]['end_time'] - back(end_forward)) > 1e-9 * max(1.0, back(0.0)):
            raise ValueError('deme %s has a gap before its end' % d.name)
        epochs[-1]['end_time'] = back(end_forward)
        if d.start is None and len(epochs) == 1 and epochs[0]['end_time'] >= back(0.0) and Ttot > 0 and d.end is None and not real:
            pass
        args = dict(epochs=epochs)
        if d.start is not None:
            args['ancestors'] = d.ancestors
            if len(d.ancestors) > 1:
                args['proportions'] = d.proportions
            args['start_time'] = back(d.start)
        b.add_deme(d.name, **args)
    for (src, dst, M, t0, t1) in spec['migrations']:
        b.add_migration(source=src, dest=dst, rate=M / (2.0 * N0), start_time=back(t0), end_time=back(t1))
    for (srcs, dst, props, tp) in spec['pulses']:
        b.add_pulse(sources=srcs, dest=dst, proportions=props, time=back(tp))
    return b.resolve(), sample_times


