"""Reference model of spectrum-level operations, written by explicit re-indexing of every entry.

Data are numpy object arrays of Fractions (exact); masks are bool arrays.  No dadi code is used.
"""
import itertools
from fractions import Fraction
from math import comb

import numpy as np


def fr_array(a):
    a = np.asarray(a)
    out = np.empty(a.shape, dtype=object)
    for idx in np.ndindex(*a.shape):
        out[idx] = Fraction(a[idx]) if not isinstance(a[idx], Fraction) else a[idx]
    return out


def zeros(shape):
    out = np.empty(shape, dtype=object)
    for idx in np.ndindex(*shape):
        out[idx] = Fraction(0)
    return out


def to_float(a):
    return np.array([float(v) for v in a.flat], dtype=float).reshape(a.shape)


def hyper_w(n, m, h, j):
    """P(j derived among m drawn without replacement | h derived among n) – exact"""
    if j < 0 or j > m or h - j < 0 or h - j > n - m:
        return Fraction(0)
    return Fraction(comb(m, j) * comb(n - m, h - j), comb(n, h))


def mirror_index(idx, shape):
    return tuple(s - 1 - i for i, s in zip(idx, shape))


def mirror(data):
    out = np.empty(data.shape, dtype=data.dtype)
    for idx in np.ndindex(*data.shape):
        out[mirror_index(idx, data.shape)] = data[idx]
    return out


def project(data, mask, ns):
    """hypergeometric projection of every entry; mask = exactly the support of masked entries' weights"""
    shape = data.shape
    nfrom = [s - 1 for s in shape]
    oshape = tuple(n + 1 for n in ns)
    out = zeros(oshape)
    omask = np.zeros(oshape, dtype=bool)
    # per-axis weight tables
    W = []
    for a, (n, m) in enumerate(zip(nfrom, ns)):
        if m > n:
            raise ValueError('upward projection')
        W.append([[hyper_w(n, m, h, j) for j in range(m + 1)] for h in range(n + 1)])
    for idx in np.ndindex(*shape):
        v = data[idx]
        mk = bool(mask[idx])
        if v == 0 and not mk:
            continue
        rows = [W[a][idx[a]] for a in range(len(shape))]
        supports = [[j for j, w in enumerate(r) if w != 0] for r in rows]
        for jdx in itertools.product(*supports):
            w = Fraction(1)
            for a, j in enumerate(jdx):
                w *= rows[a][j]
            out[jdx] += w * v
            if mk:
                omask[jdx] = True
    return out, omask


def fold(data, mask):
    """minor-allele folding: entry and mirror go to the entry with total <= N/2 ; ambiguous shared equally;
    mask = union of entry's and mirror's mask, plus the folded-out region"""
    shape = data.shape
    N = sum(s - 1 for s in shape)
    out = zeros(shape)
    omask = np.zeros(shape, dtype=bool)
    for idx in np.ndindex(*shape):
        tot = sum(idx)
        mir = mirror_index(idx, shape)
        if 2 * tot < N:
            out[idx] = data[idx] + data[mir]
            omask[idx] = mask[idx] or mask[mir]
        elif 2 * tot == N:
            out[idx] = (data[idx] + data[mir]) / 2
            omask[idx] = mask[idx] or mask[mir]
        else:
            out[idx] = Fraction(0)
            omask[idx] = True
    return out, omask


def folded_out(shape):
    N = sum(s - 1 for s in shape)
    fo = np.zeros(shape, dtype=bool)
    for idx in np.ndindex(*shape):
        fo[idx] = 2 * sum(idx) > N
    return fo


def unfold(data, mask):
    """each state equally likely ancestral: x -> (x + mirror x)/2 ; an entry is masked iff the folded entry that
    represents it (itself or its mirror) was masked"""
    shape = data.shape
    fo = folded_out(shape)
    out = zeros(shape)
    omask = np.zeros(shape, dtype=bool)
    for idx in np.ndindex(*shape):
        mir = mirror_index(idx, shape)
        out[idx] = (data[idx] + data[mir]) / 2
        a = bool(mask[idx]) and not fo[idx]
        b = bool(mask[mir]) and not fo[mir]
        omask[idx] = a or b
    return out, omask


def marginalize(data, mask, over):
    """sum over the populations in `over` (0-based); an output entry is masked iff any contributing entry is"""
    keep = [a for a in range(data.ndim) if a not in over]
    oshape = tuple(data.shape[a] for a in keep)
    out = zeros(oshape)
    omask = np.zeros(oshape, dtype=bool)
    for idx in np.ndindex(*data.shape):
        j = tuple(idx[a] for a in keep)
        out[j] += data[idx]
        if mask[idx]:
            omask[j] = True
    return out, omask


def transpose(data, mask, perm):
    """axis k of the result is axis perm[k] of the input"""
    oshape = tuple(data.shape[p] for p in perm)
    out = zeros(oshape)
    omask = np.zeros(oshape, dtype=bool)
    for idx in np.ndindex(*data.shape):
        j = tuple(idx[p] for p in perm)
        out[j] = data[idx]
        omask[j] = mask[idx]
    return out, omask


def combine(data, mask, group):
    """merge the populations in `group` (0-based) into one placed at the position of min(group); allele counts add"""
    g = sorted(group)
    first = g[0]
    rest = [a for a in range(data.ndim) if a not in g]
    # output axes: original order with the merged pop at the position of `first`
    oaxes = [a for a in range(data.ndim) if a == first or a not in g]
    oshape = tuple((sum(data.shape[a] - 1 for a in g) + 1) if a == first else data.shape[a] for a in oaxes)
    out = zeros(oshape)
    omask = np.zeros(oshape, dtype=bool)
    for idx in np.ndindex(*data.shape):
        tot = sum(idx[a] for a in g)
        j = tuple(tot if a == first else idx[a] for a in oaxes)
        out[j] += data[idx]
        if mask[idx]:
            omask[j] = True
    return out, omask
