"""Reference model of dadi's documented one-step implicit finite-difference scheme (Gutenkunst et al. 2009, and the
comments in integration_shared.c / Integration.py), coded twice:

  R1  a/b/c assembly (V, M, dfactor, delj, absorbing term on corner lines)
  R2  conservative flux form  (u_j - phi_j)/dt = -Delta_j (J_{j+1/2} - J_{j-1/2}) - absorbing outflow

Both work on any numeric type: fractions.Fraction for exact arithmetic on the exact binary values of the float inputs,
or float (used when the Chang-Cooper delta_j involves exp).
"""
import math
from fractions import Fraction

import numpy as np


def V(x, nu, beta=None):
    v = x * (1 - x) / nu
    if beta is not None:
        v = v * (beta + 1) ** 2 / (4 * beta)
    return v


def M(x, others, ms, gamma, h):
    """drift term: migration from every other population + selection with dominance"""
    s = gamma * 2 * (h + (1 - 2 * h) * x) * x * (1 - x)
    for o, m in zip(others, ms):
        s = s + m * (o - x)
    return s


def delj_values(dx, MInt, VInt, use_delj):
    if not use_delj:
        half = Fraction(1, 2) if isinstance(dx[0], Fraction) else 0.5
        return [half] * len(dx)
    out = []
    for d, m, v in zip(dx, MInt, VInt):
        wj = 2 * m * d
        try:
            epsj = math.exp(wj / v)
        except (OverflowError, ZeroDivisionError):
            epsj = float('inf')
        if epsj != 1.0 and wj != 0:
            try:
                val = (-epsj * wj + epsj * v - v) / (wj - epsj * wj)
            except ZeroDivisionError:
                val = float('nan')
        else:
            val = 0.5
        if val != val or val in (float('inf'), float('-inf')):
            val = 0.5          # documented edge-case filter (Integration._compute_delj)
        out.append(val)
    return out


def _corner_flags(others, zero, one):
    on0 = all(o == zero for o in others)
    on1 = all(o == one for o in others)
    return on0, on1


def line_abc_R1(xs, others, nu, ms, gamma, h, dt, beta=None, use_delj=False):
    """assembly as documented; returns lists a,b,c (b includes 1/dt)"""
    N = len(xs)
    T = type(xs[0])
    zero, one = T(0), T(1)
    dx = [xs[i + 1] - xs[i] for i in range(N - 1)]
    dfactor = [None] * N
    for i in range(1, N - 1):
        dfactor[i] = 2 / (dx[i] + dx[i - 1])
    dfactor[0] = 2 / dx[0]
    dfactor[N - 1] = 2 / dx[N - 2]
    xInt = [(xs[i] + xs[i + 1]) / 2 for i in range(N - 1)]
    Vv = [V(x, nu, beta) for x in xs]
    VInt = [V(x, nu, beta) for x in xInt]
    MInt = [M(x, others, ms, gamma, h) for x in xInt]
    dj = delj_values(dx, MInt, VInt, use_delj)
    a = [zero] * N
    b = [1 / dt] * N
    c = [zero] * N
    for i in range(N - 1):
        atemp = MInt[i] * dj[i] + Vv[i] / (2 * dx[i])
        a[i + 1] = -dfactor[i + 1] * atemp
        b[i] = b[i] + dfactor[i] * atemp
        ctemp = -MInt[i] * (1 - dj[i]) + Vv[i + 1] / (2 * dx[i])
        b[i + 1] = b[i + 1] + dfactor[i + 1] * ctemp
        c[i] = -dfactor[i] * ctemp
    on0, on1 = _corner_flags(others, zero, one)
    Mfirst = M(xs[0], others, ms, gamma, h)
    Mlast = M(xs[-1], others, ms, gamma, h)
    half = one / 2
    if on0 and Mfirst <= 0:
        b[0] = b[0] + (half / nu - Mfirst) * 2 / dx[0]
    if on1 and Mlast >= 0:
        b[N - 1] = b[N - 1] - (-half / nu - Mlast) * 2 / dx[N - 2]
    return a, b, c


def line_matrix_R2(xs, others, nu, ms, gamma, h, dt, beta=None, use_delj=False):
    """flux form, returned as a dense N x N matrix A with A u = phi/dt"""
    N = len(xs)
    T = type(xs[0])
    zero, one = T(0), T(1)
    A = [[zero] * N for _ in range(N)]
    for j in range(N):
        A[j][j] = 1 / dt
    # trapezoid-consistent cell widths
    w = []
    for j in range(N):
        if j == 0:
            w.append((xs[1] - xs[0]) / 2)
        elif j == N - 1:
            w.append((xs[N - 1] - xs[N - 2]) / 2)
        else:
            w.append((xs[j + 1] - xs[j - 1]) / 2)
    xI = [(xs[j] + xs[j + 1]) / 2 for j in range(N - 1)]
    MI = [M(x, others, ms, gamma, h) for x in xI]
    VI = [V(x, nu, beta) for x in xI]
    dxs = [xs[j + 1] - xs[j] for j in range(N - 1)]
    dj = delj_values(dxs, MI, VI, use_delj)
    for j in range(N - 1):
        d = dxs[j]
        # flux J_{j+1/2} = M_{j+1/2} (delta u_j + (1-delta) u_{j+1}) - (V_{j+1} u_{j+1} - V_j u_j) / (2 d)
        cj = MI[j] * dj[j] + V(xs[j], nu, beta) / (2 * d)            # coefficient of u_j
        cj1 = MI[j] * (1 - dj[j]) - V(xs[j + 1], nu, beta) / (2 * d)  # coefficient of u_{j+1}
        # cell j loses J_{j+1/2}/w_j ; cell j+1 gains it
        A[j][j] += cj / w[j]
        A[j][j + 1] += cj1 / w[j]
        A[j + 1][j] -= cj / w[j + 1]
        A[j + 1][j + 1] -= cj1 / w[j + 1]
    on0, on1 = _corner_flags(others, zero, one)
    half = one / 2
    M0 = M(xs[0], others, ms, gamma, h)
    M1 = M(xs[-1], others, ms, gamma, h)
    if on0 and M0 <= 0:
        # outward flux through x=0 (loss):  (V'(0)/2 - M(0)) u_0 , V'(0) = 1/nu
        A[0][0] += (half / nu - M0) / w[0]
    if on1 and M1 >= 0:
        # outward flux through x=1 (fixation): (M(1) + 1/(2 nu)) u_{N-1}
        A[N - 1][N - 1] += (M1 + half / nu) / w[N - 1]
    return A


def thomas(a, b, c, r):
    """exact tridiagonal solve (no pivoting needed for these diagonally dominant systems; verified by residual in tests)"""
    n = len(b)
    if n == 1:
        return [r[0] / b[0]]
    cp = [None] * n
    dp = [None] * n
    cp[0] = c[0] / b[0]
    dp[0] = r[0] / b[0]
    for i in range(1, n):
        den = b[i] - a[i] * cp[i - 1]
        cp[i] = c[i] / den if i < n - 1 else None
        dp[i] = (r[i] - a[i] * dp[i - 1]) / den
    u = [None] * n
    u[-1] = dp[-1]
    for i in range(n - 2, -1, -1):
        u[i] = dp[i] - cp[i] * u[i + 1]
    return u


def min_relative_pivot(a, b, c):
    """smallest |pivot_i| / max(|a_i|,|b_i|,|c_i|) of elimination without pivoting (1 = perfectly conditioned)"""
    n = len(b)
    bet = b[0]
    worst = abs(bet) / max(abs(b[0]), abs(c[0]), 1e-300) if n > 1 else 1.0
    for j in range(1, n):
        if bet == 0:
            return 0.0
        gam = c[j - 1] / bet
        bet = b[j] - a[j] * gam
        ref = max(abs(a[j]), abs(b[j]), abs(c[j]) if j < n - 1 else 0)
        worst = min(worst, abs(bet) / ref if ref else 1.0)
    return float(worst)


def dense_solve(A, r):
    """Gaussian elimination with exact arithmetic (partial pivoting on nonzero)"""
    n = len(r)
    A = [row[:] + [r[i]] for i, row in enumerate(A)]
    for col in range(n):
        piv = next(i for i in range(col, n) if A[i][col] != 0)
        A[col], A[piv] = A[piv], A[col]
        pv = A[col][col]
        A[col] = [v / pv for v in A[col]]
        for i in range(n):
            if i != col and A[i][col] != 0:
                f = A[i][col]
                A[i] = [vi - f * vc for vi, vc in zip(A[i], A[col])]
    return [A[i][n] for i in range(n)]


def line_inverse(xs, others, nu, ms, gamma, h, dt, beta=None, use_delj=False, form='R1'):
    """columns of A^{-1}/dt : response of the line to each unit density on it"""
    N = len(xs)
    T = type(xs[0])
    cols = []
    if form == 'R1':
        a, b, c = line_abc_R1(xs, others, nu, ms, gamma, h, dt, beta, use_delj)
        for j in range(N):
            r = [T(0)] * N
            r[j] = 1 / dt
            cols.append(thomas(a, b, c, r))
    else:
        A = line_matrix_R2(xs, others, nu, ms, gamma, h, dt, beta, use_delj)
        for j in range(N):
            r = [T(0)] * N
            r[j] = 1 / dt
            cols.append(dense_solve(A, r))
    return cols       # cols[j][i] = u_i for phi = e_j


def to_T(v, exact):
    return Fraction(v) if exact else float(v)


def sweep_operator(grids, axis, nu, ms, gamma, h, dt, beta=None, use_delj=False, form='R1'):
    """Reference one-sweep operator along `axis`: dict line(other index tuple) -> matrix cols (float numpy G x G,
    [j, i] = response at i to unit at j).  grids: list of float arrays, one per axis.  ms: rates from the other populations
    in ascending population order."""
    exact = not use_delj
    d = len(grids)
    xs = [to_T(x, exact) for x in grids[axis]]
    oth_axes = [k for k in range(d) if k != axis]
    nuT, gT, hT, dtT = to_T(nu, exact), to_T(gamma, exact), to_T(h, exact), to_T(dt, exact)
    msT = [to_T(m, exact) for m in ms]
    bT = to_T(beta, exact) if beta is not None else None
    out = {}
    shape_o = [len(grids[k]) for k in oth_axes]
    for oidx in np.ndindex(*shape_o) if shape_o else [()]:
        others = [to_T(grids[k][i], exact) for k, i in zip(oth_axes, oidx)]
        cols = line_inverse(xs, others, nuT, msT, gT, hT, dtT, bT, use_delj, form)
        out[tuple(oidx)] = np.array([[float(v) for v in col] for col in cols])
        a, b, c = line_abc_R1(xs, others, nuT, msT, gT, hT, dtT, bT, use_delj)
        out.setdefault('__pivots__', {})[tuple(oidx)] = min_relative_pivot(a, b, c)
    return out


def apply_sweep(phi, op, axis):
    """apply a reference sweep operator (from sweep_operator) to a float array"""
    d = phi.ndim
    out = np.empty_like(phi)
    oth_axes = [k for k in range(d) if k != axis]
    for oidx, mat in op.items():
        if oidx == '__pivots__':
            continue
        sl = [None] * d
        for k, i in zip(oth_axes, oidx):
            sl[k] = i
        sl[axis] = slice(None)
        line = phi[tuple(sl)]
        out[tuple(sl)] = line @ mat          # sum_j phi_j * response_j
    return out
