"""Exact expected site-frequency spectrum of the neutral coalescent under a piecewise-constant population-size history.

E xi_i = theta/2 * sum_{k=2..n} k * p(n,k,i) * E[T_k]
  p(n,k,i) = C(n-i-1, k-2) / C(n-1, k-1)                       (probability that a branch at level k subtends i of the n samples)
  E[T_k]   = int_0^inf P(A_n(t) = k) dt ,  A_n = number of ancestral lineages (Tavare 1984)
  P(A_n(tau)=k) = sum_{j=k..n} exp(-j(j-1) tau/2) * (-1)^(j-k) (2j-1) k_(j-1) n_[j] / (k! (j-k)! n_(j))
with coalescent time tau(t) = int_0^t ds / nu(s); time in units of 2*N_ref generations, theta = 4*N_ref*mu.
Coefficients are exact Fractions, exponentials 80-digit Decimals (the sums alternate in sign).
"""
from decimal import Decimal, getcontext
from fractions import Fraction
from functools import lru_cache
from math import comb, factorial

getcontext().prec = 80


def rising(a, m):
    r = 1
    for q in range(m):
        r *= (a + q)
    return r


def falling(a, m):
    r = 1
    for q in range(m):
        r *= (a - q)
    return r


@lru_cache(maxsize=None)
def tavare_coeff(n, k, j):
    """coefficient of exp(-C(j,2) tau) in P(A_n(tau) = k)"""
    return Fraction((-1) ** (j - k) * (2 * j - 1) * rising(k, j - 1) * falling(n, j), factorial(k) * factorial(j - k) * rising(n, j))


def dec(x):
    if isinstance(x, Fraction):
        return Decimal(x.numerator) / Decimal(x.denominator)
    return Decimal(repr(float(x))) if not isinstance(x, Decimal) else x


def exact_float_fraction(x):
    return Fraction(float(x))


def int_exp_rate(a, epochs_back):
    """int_0^inf exp(-a tau(t)) dt for the history given backwards in time: [(nu, duration), ...] followed by an infinite epoch of size 1"""
    a = dec(Fraction(a))
    tot = Decimal(0)
    tau = Decimal(0)
    for nu, dur in epochs_back:
        nu_d, dur_d = dec(exact_float_fraction(nu)), dec(exact_float_fraction(dur))
        if dur_d == 0:
            continue
        dtau = dur_d / nu_d
        tot += (-a * tau).exp() * nu_d / a * (Decimal(1) - (-a * dtau).exp())
        tau += dtau
    tot += (-a * tau).exp() / a
    return tot


def expected_sfs(n, epochs_forward, theta=1.0):
    """epochs_forward: [(nu_1, T_1), (nu_2, T_2), ...] in the order dadi integrates them (oldest first), after equilibrium at size 1.
    returns list E xi_i, i = 1..n-1 (floats)"""
    back = list(reversed(list(epochs_forward)))
    I = {j: int_exp_rate(Fraction(j * (j - 1), 2), back) for j in range(2, n + 1)}
    ET = {}
    for k in range(2, n + 1):
        s = Decimal(0)
        for j in range(k, n + 1):
            s += dec(tavare_coeff(n, k, j)) * I[j]
        ET[k] = s
    out = []
    th = dec(exact_float_fraction(theta))
    for i in range(1, n):
        s = Decimal(0)
        for k in range(2, n - i + 2):
            p = Fraction(comb(n - i - 1, k - 2), comb(n - 1, k - 1))
            s += k * dec(p) * ET[k]
        out.append(float(th / 2 * s))
    return out
