"""Exact (Fraction) reference model of dadi's density-level operations (PhiManip): trapezoid marginalisation, linear deposition
of an admixed frequency onto the two bracketing grid points with trapezoid-weight normalisation, new-population constructors,
in-place pulses (split into a temporary population, integrate the old one out), removal, reordering.

Densities are numpy object arrays of Fractions; grids are lists of Fractions (exact values of the float grids)."""
import bisect
from fractions import Fraction

import numpy as np

from .spectrum import fr_array, zeros, to_float  # noqa: F401  (re-exported)


def fgrid(g):
    return [Fraction(float(v)) for v in g]


def trapz_weights(g):
    n = len(g)
    w = []
    for i in range(n):
        lo = g[i] - g[i - 1] if i > 0 else 0
        hi = g[i + 1] - g[i] if i < n - 1 else 0
        w.append(Fraction(lo + hi) / 2)
    return w


def remove(phi, g, axis):
    w = trapz_weights(g)
    oshape = phi.shape[:axis] + phi.shape[axis + 1:]
    out = zeros(oshape) if oshape else None
    if not oshape:
        return sum(w[i] * phi[i] for i in range(len(g)))
    for idx in np.ndindex(*phi.shape):
        j = idx[:axis] + idx[axis + 1:]
        out[j] += w[idx[axis]] * phi[idx]
    return out


def deposit(z, g):
    """[(index, density per unit mass)] of the linear deposition of a unit mass located at frequency z onto grid g:
    fractions (z_u - z)/(z_u - z_l) and (z - z_l)/(z_u - z_l) on the bracketing points, normalised so that the trapezoid
    integral over the new axis is exactly 1."""
    n = len(g)
    up = bisect.bisect_left(g, z)        # first index with g[i] >= z
    up = min(up, n - 1)
    up = max(up, 1)
    lo = up - 1
    fl = (g[up] - z) / (g[up] - g[lo])
    fu = (z - g[lo]) / (g[up] - g[lo])
    d0 = g[lo] - g[lo - 1] if lo > 0 else 0
    d1 = g[up] - g[lo]
    d2 = g[up + 1] - g[up] if up < n - 1 else 0
    norm = 2 / (fl * d0 + d1 + fu * d2)
    return [(lo, fl * norm), (up, fu * norm)]


def admix_new(phi, props, grids, newgrid):
    """new last population = sum_k props[k] * x_k  (props over ALL existing populations, summing to 1)"""
    d = phi.ndim
    out = zeros(phi.shape + (len(newgrid),))
    for idx in np.ndindex(*phi.shape):
        v = phi[idx]
        if v == 0:
            continue
        z = sum(props[k] * grids[k][idx[k]] for k in range(d))
        for j, dens in deposit(z, newgrid):
            out[idx + (j,)] += dens * v
    return out


def split_1d(phi, g):
    """one-to-two split as documented: diagonal copy at interior points with trapezoid normalisation"""
    n = len(g)
    out = zeros((n, n))
    for i in range(1, n - 1):
        out[i, i] = phi[i] * 2 / (g[i + 1] - g[i - 1])
    return out


def pulse(phi, dest, props, grids):
    """props: dict source axis -> fraction; the destination keeps 1 - sum.  Equivalent to creating a temporary population
    on the destination's grid and integrating the old destination out."""
    d = phi.ndim
    full = [Fraction(0)] * d
    tot = Fraction(0)
    for k, f in props.items():
        full[k] = f
        tot += f
    full[dest] = 1 - tot
    tmp = admix_new(phi, full, grids, grids[dest])           # new axis = d
    tmp = remove(tmp, grids[dest], dest)                     # integrate old destination out; new axis is now last (d-1)
    out = zeros(phi.shape)
    # explicit re-indexing: tmp axes = [all axes except dest in order] + [new]; target axes = original order with new at dest
    others = [k for k in range(d) if k != dest]
    for idx in np.ndindex(*tmp.shape):
        tgt = [None] * d
        for pos, k in enumerate(others):
            tgt[k] = idx[pos]
        tgt[dest] = idx[-1]
        out[tuple(tgt)] = tmp[idx]
    return out


def reorder(phi, perm):
    """axis k of the result is axis perm[k] of the input (0-based)"""
    oshape = tuple(phi.shape[p] for p in perm)
    out = zeros(oshape)
    for idx in np.ndindex(*phi.shape):
        out[tuple(idx[p] for p in perm)] = phi[idx]
    return out


def mass(phi, grids):
    cur = phi
    for k in range(phi.ndim - 1, -1, -1):
        cur = remove(cur, grids[k], k)
    return cur
