"""Exact reference for sampling a spectrum from a density on a grid.

W_n[i][j] = integral of  C(n,i) x^i (1-x)^(n-i) * hat_j(x) dx   (semi-analytic operator; hat_j = piecewise-linear basis function)
D_n[i][j] = w_j * C(n,i) x_j^i (1-x_j)^(n-i)                     (direct operator; w = trapezoid weights)
Both exact in Fractions on the exact binary values of the grid.
"""
from fractions import Fraction
from functools import lru_cache
from math import comb

import numpy as np


def fgrid(g):
    return tuple(Fraction(float(v)) for v in g)


def _binom_poly(n, i):
    """coefficients c_k of C(n,i) x^i (1-x)^(n-i) = sum_k c_k x^k"""
    c = [0] * (n + 1)
    for k in range(n - i + 1):
        c[i + k] = comb(n, i) * comb(n - i, k) * (-1) ** k
    return c


def _int_poly_times_linear(c, a, b, alpha, beta, pa, pb):
    """integral over [a,b] of (sum_k c_k x^k) (alpha + beta x) dx ; pa/pb: precomputed powers of a and b"""
    tot = Fraction(0)
    for k, ck in enumerate(c):
        if ck == 0:
            continue
        # alpha * x^(k+1)/(k+1) + beta * x^(k+2)/(k+2)
        tot += ck * (alpha * (pb[k + 1] - pa[k + 1]) / (k + 1) + beta * (pb[k + 2] - pa[k + 2]) / (k + 2))
    return tot


@lru_cache(maxsize=None)
def W_exact(n, g):
    """g: tuple of Fractions; returns list of rows W[i][j]"""
    G = len(g)
    powers = [[x ** k for k in range(n + 3)] for x in g]
    W = [[Fraction(0)] * G for _ in range(n + 1)]
    for i in range(n + 1):
        c = _binom_poly(n, i)
        for j in range(G):
            tot = Fraction(0)
            if j > 0:
                a, b = g[j - 1], g[j]
                if b > a:
                    # hat = (x - a)/(b - a)
                    tot += _int_poly_times_linear(c, a, b, -a / (b - a), 1 / (b - a), powers[j - 1], powers[j])
            if j < G - 1:
                a, b = g[j], g[j + 1]
                if b > a:
                    # hat = (b - x)/(b - a)
                    tot += _int_poly_times_linear(c, a, b, b / (b - a), -1 / (b - a), powers[j], powers[j + 1])
            W[i][j] = tot
    return W


def trapz_w(g):
    G = len(g)
    return [((g[j] - g[j - 1]) if j > 0 else 0) / Fraction(2) + ((g[j + 1] - g[j]) if j < G - 1 else 0) / Fraction(2) for j in range(G)]


@lru_cache(maxsize=None)
def D_exact(n, g, het=False):
    w = trapz_w(g)
    D = []
    for i in range(n + 1):
        row = []
        for j, x in enumerate(g):
            v = w[j] * comb(n, i) * x ** i * (1 - x) ** (n - i)
            if het:
                v *= x * (1 - x)
            row.append(v)
        D.append(row)
    return D


def as_float(M):
    return np.array([[float(v) for v in row] for row in M])


def tensor_apply(mats, phi):
    """apply one (n_k+1 x G_k) float matrix per axis to phi"""
    out = phi
    for k, M in enumerate(mats):
        out = np.moveaxis(np.tensordot(M, out, axes=([1], [k])), 0, k)
    return out
