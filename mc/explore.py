"""Enumeration engines: sharded product enumeration over worker processes, and explicit-state BFS."""
import collections
import itertools
import multiprocessing
import os
import sys
import traceback

from .evidence import Collector

_FORK = multiprocessing.get_context('fork')

# worker-side globals (set before fork; inherited)
_job_fn = None
_job_items = None


def _run_shard(idx_range):
    lo, hi = idx_range
    col = Collector()
    for i in range(lo, hi):
        item = _job_items[i]
        try:
            _job_fn(col, item)
        except Exception:
            col.violation('harness:exception', {'item': repr(item)[:400]}, traceback.format_exc()[-1500:])
    return col


def pmap(ctx, fn, items, nprocs=None, chunk=None):
    """Run fn(collector, item) for EVERY item (complete enumeration - no sampling), sharded over forked child processes (one fork per
    shard); merge the collectors into ctx.  Items are inherited through fork, so they need not be picklable; collectors travel back
    through files.  A child killed by a signal (e.g. a segfault inside a compiled kernel) does not hang the run: its shard is split into
    single items, re-run, and the crashing item is reported as a violation with key '<property>:crash'."""
    import pickle
    import signal
    import tempfile
    items = list(items)
    n = len(items)
    if n == 0:
        return
    nprocs = nprocs or ctx.nprocs
    nprocs = max(1, min(nprocs, n))
    if os.environ.get('VERIF_SERIAL'):
        for it in items:
            try:
                fn(ctx, it)
            except Exception:
                ctx.violation('harness:exception', {'item': repr(it)[:400]}, traceback.format_exc()[-1500:])
        return
    if chunk is None:
        chunk = max(1, n // (nprocs * 8))
    queue = [(lo, min(n, lo + chunk)) for lo in range(0, n, chunk)]
    queue.reverse()
    scratch = os.path.join(os.path.dirname(os.path.dirname(os.path.abspath(__file__))), '.scratch')
    os.makedirs(scratch, exist_ok=True)
    tmpdir = tempfile.mkdtemp(prefix='pmap_', dir=scratch)
    running = {}
    sys.stdout.flush()
    sys.stderr.flush()
    try:
        while queue or running:
            while queue and len(running) < nprocs:
                lo, hi = queue.pop()
                out = os.path.join(tmpdir, '%d_%d.pkl' % (lo, hi))
                pid = os.fork()
                if pid == 0:
                    # child
                    code = 1
                    try:
                        col = Collector()
                        for i in range(lo, hi):
                            try:
                                fn(col, items[i])
                            except Exception:
                                col.violation('harness:exception', {'item': repr(items[i])[:400]}, traceback.format_exc()[-1500:])
                        with open(out + '.tmp', 'wb') as f:
                            pickle.dump(col, f, protocol=pickle.HIGHEST_PROTOCOL)
                        os.replace(out + '.tmp', out)
                        code = 0
                    except BaseException:
                        try:
                            traceback.print_exc()
                        except Exception:
                            pass
                    finally:
                        os._exit(code)
                running[pid] = (lo, hi, out)
            pid, status = os.wait()
            if pid not in running:
                continue
            lo, hi, out = running.pop(pid)
            ok = os.WIFEXITED(status) and os.WEXITSTATUS(status) == 0 and os.path.exists(out)
            if ok:
                with open(out, 'rb') as f:
                    ctx.merge(pickle.load(f))
                os.unlink(out)
            elif hi - lo > 1:
                for i in range(hi - 1, lo - 1, -1):
                    queue.append((i, i + 1))
            else:
                sig = os.WTERMSIG(status) if os.WIFSIGNALED(status) else None
                it = items[lo]
                case = it if isinstance(it, dict) else {'item': repr(it)[:400]}
                what = ('killed by signal %d (%s)' % (sig, signal.Signals(sig).name)) if sig else 'exit status %r' % (os.WEXITSTATUS(status) if os.WIFEXITED(status) else status)
                ctx.violation('%s:crash' % getattr(ctx, 'pid', 'harness'), case, 'the process evaluating this case died: ' + what)
    finally:
        import shutil
        for pid in list(running):
            try:
                os.kill(pid, signal.SIGKILL)
            except Exception:
                pass
        shutil.rmtree(tmpdir, ignore_errors=True)


def product_dicts(**axes):
    """cartesian product of named axes, simplest-first (order of the lists given)."""
    names = list(axes)
    for combo in itertools.product(*[axes[n] for n in names]):
        yield dict(zip(names, combo))


def bfs(initial, enabled, step, canon, on_state=None, on_transition=None, max_depth=None, max_states=None):
    """Explicit-state breadth-first search.
       initial: iterable of states;  enabled(state) -> iterable of ops;  step(state, op) -> new state (calls the
       real implementation);  canon(state) -> hashable key.
       on_state(state, depth, path), on_transition(state, op, new_state, path, merged_with) are oracles.
       Returns dict(states, transitions, max_depth, capped)."""
    seen = {}
    frontier = collections.deque()
    n_trans = 0
    capped = False
    for s in initial:
        k = canon(s)
        if k in seen:
            continue
        seen[k] = (s, ())
        frontier.append((s, 0, ()))
        if on_state:
            on_state(s, 0, ())
    deepest = 0
    while frontier:
        s, d, path = frontier.popleft()
        deepest = max(deepest, d)
        if max_depth is not None and d >= max_depth:
            continue
        for op in enabled(s):
            ns = step(s, op)
            n_trans += 1
            if ns is None:
                continue
            npath = path + (op,)
            k = canon(ns)
            prev = seen.get(k)
            if on_transition:
                on_transition(s, op, ns, npath, prev[0] if prev else None)
            if prev is None:
                if max_states is not None and len(seen) >= max_states:
                    capped = True
                    continue
                seen[k] = (ns, npath)
                if on_state:
                    on_state(ns, d + 1, npath)
                frontier.append((ns, d + 1, npath))
    return {'states': len(seen), 'transitions': n_trans, 'max_depth': deepest, 'capped': capped}
