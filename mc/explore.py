"""Enumeration engines: sharded product enumeration over worker processes, and explicit-state BFS."""
import collections
import itertools
import multiprocessing
import os
import sys
import traceback

from .evidence import Collector

_FORK = multiprocessing.get_context('fork')

# worker-side globals (set before fork; inherited)
_job_fn = None
_job_items = None


def _run_shard(idx_range):
    lo, hi = idx_range
    col = Collector()
    for i in range(lo, hi):
        item = _job_items[i]
        try:
            _job_fn(col, item)
        except Exception:
            col.violation('harness:exception', {'item': repr(item)[:400]}, traceback.format_exc()[-1500:])
    return col


def pmap(ctx, fn, items, nprocs=None, chunk=None):
    """Run fn(collector, item) for EVERY item (complete enumeration – no sampling), sharded over forked
    workers; merge the collectors into ctx.  Items are kept in the parent and inherited through fork, so
    they need not be picklable; the collectors travel back by pickle."""
    global _job_fn, _job_items
    items = list(items)
    n = len(items)
    if n == 0:
        return
    nprocs = nprocs or ctx.nprocs
    nprocs = max(1, min(nprocs, n))
    if nprocs == 1 or os.environ.get('VERIF_SERIAL'):
        for it in items:
            try:
                fn(ctx, it)
            except Exception:
                ctx.violation('harness:exception', {'item': repr(it)[:400]}, traceback.format_exc()[-1500:])
        return
    if chunk is None:
        chunk = max(1, n // (nprocs * 8))
    ranges = [(lo, min(n, lo + chunk)) for lo in range(0, n, chunk)]
    _job_fn, _job_items = fn, items
    sys.stdout.flush()
    sys.stderr.flush()
    with _FORK.Pool(nprocs) as pool:
        for col in pool.imap_unordered(_run_shard, ranges):
            ctx.merge(col)
    _job_fn = _job_items = None


def product_dicts(**axes):
    """cartesian product of named axes, simplest-first (order of the lists given)."""
    names = list(axes)
    for combo in itertools.product(*[axes[n] for n in names]):
        yield dict(zip(names, combo))


def bfs(initial, enabled, step, canon, on_state=None, on_transition=None, max_depth=None, max_states=None):
    """Explicit-state breadth-first search.
       initial: iterable of states;  enabled(state) -> iterable of ops;  step(state, op) -> new state (calls the
       real implementation);  canon(state) -> hashable key.
       on_state(state, depth, path), on_transition(state, op, new_state, path, merged_with) are oracles.
       Returns dict(states, transitions, max_depth, capped)."""
    seen = {}
    frontier = collections.deque()
    n_trans = 0
    capped = False
    for s in initial:
        k = canon(s)
        if k in seen:
            continue
        seen[k] = (s, ())
        frontier.append((s, 0, ()))
        if on_state:
            on_state(s, 0, ())
    deepest = 0
    while frontier:
        s, d, path = frontier.popleft()
        deepest = max(deepest, d)
        if max_depth is not None and d >= max_depth:
            continue
        for op in enabled(s):
            ns = step(s, op)
            n_trans += 1
            if ns is None:
                continue
            npath = path + (op,)
            k = canon(ns)
            prev = seen.get(k)
            if on_transition:
                on_transition(s, op, ns, npath, prev[0] if prev else None)
            if prev is None:
                if max_states is not None and len(seen) >= max_states:
                    capped = True
                    continue
                seen[k] = (ns, npath)
                if on_state:
                    on_state(ns, d + 1, npath)
                frontier.append((ns, d + 1, npath))
    return {'states': len(seen), 'transitions': n_trans, 'max_depth': deepest, 'capped': capped}
