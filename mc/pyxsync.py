"""Keep the Cython-generated integration_c.c (an untracked build product; Cython is not installed here) in step with integration_c.pyx for the one
thing the wrappers decide themselves: which extents of the density they hand to the C kernels (array lengths and loop ranges).

For every wrapper `def NAME(...)` in the .pyx the ordered list of `phi.shape[K]` indices in its `c_NAME(...)` call is read; in the generated C the
call `NAME(...)` carries the same list as `shape___get__(__pyx_v_phi)[K]`.  Where the two lists differ the generated call is rewritten to the
.pyx's indices.  Anything else in a .pyx edit cannot be regenerated and is reported as a divergence by hash (mc.build.info()['pyx_sha'])."""
import re


def pyx_shape_indices(pyx):
    out = {}
    for m in re.finditer(r'^def\s+(\w+)\s*\(', pyx, re.M):
        name = m.group(1)
        nxt = re.search(r'^def\s+\w+\s*\(', pyx[m.end():], re.M)
        body = pyx[m.end(): m.end() + nxt.start()] if nxt else pyx[m.end():]
        c = re.search(r'\bc_%s\s*\(' % re.escape(name), body)
        if not c:
            continue
        depth, i = 1, c.end()
        while i < len(body) and depth:
            depth += body[i] == '('
            depth -= body[i] == ')'
            i += 1
        call = body[c.end():i]
        out[name] = [int(k) for k in re.findall(r'\bphi\.shape\[(\d)\]', call)]
    return out


def sync(pyx, ctext):
    """returns (new C text, {wrapper: (old indices, new indices)} for the calls rewritten)"""
    want = pyx_shape_indices(pyx)
    changed = {}
    lines = ctext.split('\n')
    pat = re.compile(r'(shape___get__\(__pyx_v_phi\)\[)(\d)(\])')
    for li, line in enumerate(lines):
        m = re.match(r'\s+(\w+)\(\(\(double \*\)', line)
        if not m or m.group(1) not in want:
            continue
        name = m.group(1)
        have = [int(k) for k in pat.findall(line) and [t[1] for t in pat.findall(line)]]
        if len(have) != len(want[name]) or have == want[name]:
            continue
        it = iter(want[name])
        lines[li] = pat.sub(lambda mm: mm.group(1) + str(next(it)) + mm.group(3), line)
        changed[name] = (have, want[name])
    return '\n'.join(lines), changed
