"""Collector (counters, violations, samples), known-findings handling, evidence and replay files."""
import hashlib
import json
import os
import re
import time

VERIF = os.path.dirname(os.path.dirname(os.path.abspath(__file__)))
KNOWN_FILE = os.path.join(VERIF, 'known_findings.txt')
OUT = os.environ.get('VERIF_OUT', VERIF)     # evidence/ and replays/ go here (redirected when probing scratch trees)


def jsonable(x):
    """Convert numpy scalars/arrays, Fractions, tuples, sets ... into plain JSON values."""
    import fractions
    try:
        import numpy as np
    except Exception:  # pragma: no cover
        np = None
    if x is None or isinstance(x, (bool, int, str)):
        return x
    if isinstance(x, float):
        if x != x:
            return 'nan'
        if x in (float('inf'), float('-inf')):
            return 'inf' if x > 0 else '-inf'
        return x
    if isinstance(x, fractions.Fraction):
        return '%d/%d' % (x.numerator, x.denominator)
    if np is not None:
        if isinstance(x, np.generic):
            return jsonable(x.item())
        if isinstance(x, np.ndarray):
            if isinstance(x, np.ma.MaskedArray):
                return {'data': jsonable(np.asarray(x.data).tolist()), 'mask': jsonable(np.ma.getmaskarray(x).tolist())}
            return jsonable(x.tolist())
    if isinstance(x, dict):
        return {str(k): jsonable(v) for k, v in x.items()}
    if isinstance(x, (list, tuple)):
        return [jsonable(v) for v in x]
    if isinstance(x, (set, frozenset)):
        return sorted((jsonable(v) for v in x), key=repr)
    if isinstance(x, complex):
        return [x.real, x.imag]
    return repr(x)


def short_hash(obj):
    return hashlib.sha1(json.dumps(jsonable(obj), sort_keys=True).encode()).hexdigest()[:16]


class Collector(object):
    """Mergeable record of what a (sub-)exploration did.  Picklable."""

    MAX_SAMPLES = 5
    MAX_VIOL_PER_KEY = 3

    def __init__(self):
        self.counters = {}
        self.viol = {}          # key -> list of (case, detail)   (first few)
        self.viol_count = {}    # key -> count
        self.samples = []
        self.sets = {}          # name -> set of hashable (distinct counting)
        self.notes = []
        self.maxima = {}        # name -> float (e.g. largest deviation/tolerance ratio observed)

    # -- counting ----------------------------------------------------------------------------
    def tick(self, **kw):
        for k, v in kw.items():
            self.counters[k] = self.counters.get(k, 0) + v

    def distinct(self, name, item):
        self.sets.setdefault(name, set()).add(item)

    def sample(self, case):
        if len(self.samples) < self.MAX_SAMPLES:
            self.samples.append(jsonable(case))

    def observe(self, name, value):
        """track max of a measured quantity (e.g. err/tol) – reported in evidence as margins"""
        v = float(value)
        if v != v:
            v = float('inf')
        if v > self.maxima.get(name, -1.0):
            self.maxima[name] = v

    def note(self, msg):
        if msg not in self.notes and len(self.notes) < 50:
            self.notes.append(msg)

    # -- violations --------------------------------------------------------------------------
    def violation(self, key, case, detail):
        self.viol_count[key] = self.viol_count.get(key, 0) + 1
        lst = self.viol.setdefault(key, [])
        if len(lst) < self.MAX_VIOL_PER_KEY:
            lst.append((jsonable(case), jsonable(detail)))

    def merge(self, other):
        for k, v in other.counters.items():
            self.counters[k] = self.counters.get(k, 0) + v
        for k, v in other.viol_count.items():
            self.viol_count[k] = self.viol_count.get(k, 0) + v
        for k, lst in other.viol.items():
            mine = self.viol.setdefault(k, [])
            for it in lst:
                if len(mine) < self.MAX_VIOL_PER_KEY:
                    mine.append(it)
        for s in other.samples:
            if len(self.samples) < self.MAX_SAMPLES:
                self.samples.append(s)
        for k, s in other.sets.items():
            self.sets.setdefault(k, set()).update(s)
        for n in other.notes:
            self.note(n)
        for k, v in other.maxima.items():
            self.observe(k, v)


def load_known(path=KNOWN_FILE):
    known, fixed = {}, []
    if not os.path.exists(path):
        return known, fixed
    for line in open(path):
        line = line.strip()
        if not line or line.startswith('#'):
            continue
        m = re.match(r'known:\s+property=(\S+)\s+key=(\S+)\s*(.*)$', line)
        if m:
            known[m.group(2)] = (m.group(1), m.group(3))
            continue
        m = re.match(r'fixed:\s+property=(\S+)\s+(\S+)\s*(.*)$', line)
        if m:
            fixed.append((m.group(1), m.group(2), m.group(3)))
    return known, fixed


class Ctx(Collector):
    """The run context handed to checks/<id>.run(ctx)."""

    def __init__(self, pid, tier, seed, level='model_checking'):
        Collector.__init__(self)
        self.pid = pid
        self.tier = tier
        self.quick = (tier == 'quick')
        self.seed = seed
        self.level = level
        self.t0 = time.time()
        self.assumptions = []
        self.coverage_extra = {}
        self.exhaustive = True
        self.caps = []
        self.rule = ''
        self.nprocs = int(os.environ.get('VERIF_NPROC', '16'))

    def sub(self):
        return Collector()

    def cap_hit(self, what):
        self.exhaustive = False
        self.caps.append(what)

    def assume(self, text):
        if text not in self.assumptions:
            self.assumptions.append(text)

    # -- finishing ----------------------------------------------------------------------------
    def finish(self, write_evidence=True):
        known, _fixed = load_known()
        printed = []
        n_viol = 0
        n_known = 0
        rdir = os.path.join(OUT, 'replays', self.pid)
        for key in sorted(self.viol_count):
            if key in known and known[key][0] == self.pid:
                n_known += 1
                printed.append('KNOWN-FINDING: property=%s key=%s %s (occurrences this run: %d)'
                               % (self.pid, key, known[key][1], self.viol_count[key]))
                continue
            n_viol += 1
            os.makedirs(rdir, exist_ok=True)
            fn = os.path.join(rdir, re.sub(r'[^A-Za-z0-9_.=+-]', '_', key)[:150] + '.json')
            case, detail = self.viol[key][0]
            with open(fn, 'w') as f:
                json.dump({'property': self.pid, 'key': key, 'case': case, 'detail': detail,
                           'occurrences': self.viol_count[key],
                           'more_cases': [c for c, _ in self.viol[key][1:]],
                           'seed': self.seed, 'tier': self.tier}, f, indent=1, sort_keys=True)
            printed.append('VIOLATION property=%s replay=%s' % (self.pid, os.path.relpath(fn, VERIF) if OUT == VERIF else fn))
            printed.append('  key=%s occurrences=%d detail=%s' % (key, self.viol_count[key],
                                                                    json.dumps(detail)[:600]))
        for line in printed:
            print(line, flush=True)
        if write_evidence:
            self.write_evidence(n_viol, n_known)
        return 1 if n_viol else 0

    def write_evidence(self, n_viol, n_known):
        from . import build
        c = dict(self.counters)
        cov = {}
        cov['states'] = int(c.pop('states', 0))
        cov['transitions'] = int(c.pop('transitions', 0))
        cov['traces_validated_against_impl'] = int(c.pop('traces', 0))
        cov['evaluations'] = int(c.pop('evaluations', cov['transitions']))
        nt = self.sets.get('nontrivial')
        cov['distinct_nontrivial'] = len(nt) if nt is not None else int(c.pop('nontrivial', 0))
        cov['rule'] = self.rule
        cov['samples'] = self.samples if self.samples else []
        cov['exhaustive'] = bool(self.exhaustive)
        if self.caps:
            cov['caps_hit'] = self.caps
        for k, s in self.sets.items():
            if k != 'nontrivial':
                cov['distinct_' + k] = len(s)
        cov['counters'] = {k: int(v) if float(v).is_integer() else v for k, v in c.items()}
        cov['margins_max_err_over_tol'] = {k: (v if v != float('inf') else 'inf') for k, v in sorted(self.maxima.items())}
        cov['notes'] = self.notes
        cov['known_findings_seen'] = n_known
        cov['build'] = {k: v for k, v in build.info().items() if k != 'modules'}
        cov.update(self.coverage_extra)
        ev = {'property_id': self.pid, 'tier': self.tier, 'seed': int(self.seed), 'level': self.level,
              'coverage': jsonable(cov), 'assumptions': self.assumptions,
              'wall_s': round(time.time() - self.t0, 2), 'violations': int(n_viol)}
        os.makedirs(os.path.join(OUT, 'evidence'), exist_ok=True)
        fn = os.path.join(OUT, 'evidence', self.pid + '.json')
        tmp = fn + '.tmp'
        with open(tmp, 'w') as f:
            json.dump(ev, f, indent=1, sort_keys=True)
        os.replace(tmp, fn)
