"""./check <Cxx> [--tier quick|thorough] [--replay file]"""
import argparse
import importlib
import json
import os
import random
import sys
import traceback
import warnings

VERIF = os.path.dirname(os.path.dirname(os.path.abspath(__file__)))


def main(argv=None):
    ap = argparse.ArgumentParser()
    ap.add_argument('pid')
    ap.add_argument('--tier', default=os.environ.get('VERIF_TIER', 'quick'), choices=['quick', 'thorough'])
    ap.add_argument('--replay', default=None)
    ap.add_argument('--only', default=None, help='comma-separated part names (debugging)')
    args = ap.parse_args(argv)
    seed = int(os.environ.get('VERIF_SEED', '0') or 0)

    os.chdir(VERIF)
    if VERIF not in sys.path:
        sys.path.insert(0, VERIF)
    warnings.simplefilter('ignore')
    from mc import build
    from mc.evidence import Ctx
    try:
        build.import_dadi()
    except Exception:
        # a tree that does not build/import is not a property verdict; fail loudly (exit 2)
        traceback.print_exc()
        print('HARNESS-ERROR: could not build/import dadi from the working tree', flush=True)
        return 2
    import logging
    logging.disable(logging.CRITICAL)
    import numpy
    numpy.random.seed(seed)
    random.seed(seed)
    numpy.seterr(all='ignore')

    mod = importlib.import_module('checks.' + args.pid)
    ctx = Ctx(args.pid, args.tier, seed, level=getattr(mod, 'LEVEL', 'model_checking'))
    ctx.only = set(args.only.split(',')) if args.only else None
    if args.replay:
        with open(args.replay) as f:
            rep = json.load(f)
        cases = [rep['case']] + list(rep.get('more_cases', []))
        try:
            for case in cases[:1]:
                mod.replay(ctx, case)
        except Exception:
            traceback.print_exc()
            return 2
        rc = ctx.finish(write_evidence=False)
        print('replay: %s' % ('violation reproduced' if rc else 'no violation on this tree'))
        return rc
    real_stdout = sys.stdout
    try:
        # the library has stray print() calls (e.g. Inference.ll_per_bin); keep them off the verdict channel
        sys.stdout = open(os.devnull, 'w')
        try:
            mod.run(ctx)
        finally:
            sys.stdout = real_stdout
    except Exception:
        traceback.print_exc()
        print('HARNESS-ERROR: check %s crashed' % args.pid, flush=True)
        ctx.finish(write_evidence=False)
        return 2
    rc = ctx.finish()
    cov = ctx.counters
    print('%s tier=%s seed=%d states=%s transitions=%s traces=%s violations=%d wall=%.1fs exhaustive=%s'
          % (args.pid, args.tier, seed, cov.get('states', 0), cov.get('transitions', 0), cov.get('traces', 0),
             sum(1 for _ in []) + (1 if rc else 0), __import__('time').time() - ctx.t0, ctx.exhaustive), flush=True)
    return rc


if __name__ == '__main__':
    sys.exit(main())
