"""Module-level state of dadi as an explicit, hashable, snapshot-able object (for explicit-state exploration of call histories)."""
import copy
import hashlib

import numpy as np


def _containers():
    import dadi
    from dadi import Numerics, Spectrum_mod, Godambe, Inference, Integration
    import dadi.Demes as DemesPkg
    import dadi.LowPass.LowPass as LP
    cs = {
        'Numerics._projection_cache': (Numerics, '_projection_cache'),
        'Numerics._BetaBinomln_cache': (Numerics, '_BetaBinomln_cache'),
        'Numerics._part_cache': (Numerics, '_part_cache'),
        'Numerics._part_precalc_cache': (Numerics, '_part_precalc_cache'),
        'Spectrum_mod._dbeta_cache': (Spectrum_mod, '_dbeta_cache'),
        'Godambe.cache': (Godambe, 'cache'),
        'Inference._theta_store': (Inference, '_theta_store'),
        'Demes.cache': (DemesPkg, 'cache'),
    }
    for extra in ('_multinomln_cache',):
        if hasattr(Numerics, extra):
            cs['Numerics.' + extra] = (Numerics, extra)
    # any other module-level dict/list caches that a change might introduce (picked up by introspection)
    for mod, mname in ((Numerics, 'Numerics'), (Spectrum_mod, 'Spectrum_mod'), (Integration, 'Integration'), (LP, 'LowPass'), (Inference, 'Inference'),
                       (dadi.PhiManip, 'PhiManip'), (dadi.Misc, 'Misc')):
        for attr, val in vars(mod).items():
            if attr.startswith('__'):
                continue
            if isinstance(val, dict) and ('cache' in attr.lower() or attr.startswith('_') and 'store' in attr.lower() or 'memo' in attr.lower()):
                cs.setdefault('%s.%s' % (mname, attr), (mod, attr))
    return cs


def _scalars():
    from dadi import Integration, Inference
    return {'Integration.timescale_factor': (Integration, 'timescale_factor'), 'Integration.use_delj_trick': (Integration, 'use_delj_trick'),
            'Integration.use_old_timestep': (Integration, 'use_old_timestep')}


def _canon(v):
    if isinstance(v, np.ndarray):
        return ('nd', v.shape, str(v.dtype), hashlib.sha1(np.ascontiguousarray(v).tobytes()).hexdigest())
    if isinstance(v, np.generic):
        return ('ng', repr(v.item()))
    if isinstance(v, (list, tuple)):
        return (type(v).__name__,) + tuple(_canon(x) for x in v)
    if isinstance(v, dict):
        return ('dict',) + tuple(sorted(((_canon(k), _canon(x)) for k, x in v.items()), key=repr))
    if callable(v):
        return ('fn', getattr(v, '__qualname__', getattr(v, '__name__', type(v).__name__)))
    if hasattr(v, '__dict__') and not isinstance(v, type):
        return ('obj', type(v).__name__, _canon({k: x for k, x in vars(v).items()}))
    if isinstance(v, float):
        return ('f', repr(v))
    return ('v', repr(v))


class ModuleState(object):
    def __init__(self):
        self.cs = _containers()
        self.sc = _scalars()

    def clear(self):
        for name, (mod, attr) in self.cs.items():
            c = getattr(mod, attr)
            if isinstance(c, dict):
                c.clear()
            elif isinstance(c, list):
                del c[:]
        import dadi
        dadi.Integration.timescale_factor = 1e-3
        dadi.Integration.use_delj_trick = False
        dadi.Integration.use_old_timestep = False
        np.seterr(all='ignore')

    def snapshot(self):
        snap = {}
        for name, (mod, attr) in self.cs.items():
            snap[name] = copy.deepcopy(getattr(mod, attr))
        snap['__scalars__'] = {n: getattr(m, a) for n, (m, a) in self.sc.items()}
        snap['__seterr__'] = np.geterr()
        return snap

    def restore(self, snap):
        for name, (mod, attr) in self.cs.items():
            c = getattr(mod, attr)
            new = copy.deepcopy(snap[name])
            if isinstance(c, dict):
                c.clear()
                c.update(new)
            elif isinstance(c, list):
                c[:] = new
        for n, (m, a) in self.sc.items():
            setattr(m, a, snap['__scalars__'][n])
        np.seterr(**snap['__seterr__'])

    def key(self):
        parts = []
        for name, (mod, attr) in sorted(self.cs.items()):
            c = getattr(mod, attr)
            if name == 'Demes.cache':
                parts.append((name, tuple(type(e).__name__ for e in c)))      # event type list
            else:
                parts.append((name, _canon(c if isinstance(c, dict) else list(c))))
        parts.append(('scalars', tuple((n, repr(getattr(m, a))) for n, (m, a) in sorted(self.sc.items()))))
        parts.append(('seterr', tuple(sorted(np.geterr().items()))))
        return hashlib.sha1(repr(parts).encode()).hexdigest()

    def sizes(self):
        return {name: len(getattr(mod, attr)) for name, (mod, attr) in self.cs.items()}
